"""Per-property configuration of bin/check and source of MANIFEST.json (bin/mkmanifest):
case counts (quick, thorough), the Gen modules the property's theorems are stated about, the rule by which a
case counts as non-trivial, level text, trusted base and assumptions."""

COMMON_NOTE = ("Trusted: Lean 4.33 kernel, Mathlib v4.33, rs2lean's Rust-subset mapping (its output is executed against the real code), "
               "harness/driver glue. Theorems are over exact arithmetic / abstract orders: binary64 rounding is not modelled.")

PROPS = {
    "C05": {
        "title": "Evaluation, subdivision, sections and reversal describe the same curve",
        "gen_modules": ["Consts", "Basis", "Section", "PathRev"],
        "props_modules": ["C05", "C05Path"],
        "corr_n": (20000, 400000),
        "search_n": (20000, 400000),
        "technique": "Lean 4 theorems over definitions translated from the Rust source on every run + exact correspondence",
        "level_text": "Every identity of the property (basis = de Casteljau, exact ends, both halves of subdivide, section and nested subsection points, "
                      "section control points define the same cubic incl. a=b and a=1, reversal) is a Lean theorem for all control points and parameters over any ordered field, "
                      "about definitions that rs2lean regenerates from basis.rs / subdivide.rs / section.rs / curve.rs on every run; lifted to 2-D/3-D component-wise. "
                      "BezierPath::reversed (regenerated from path.rs): for every path - any number of curves, including a start point only - reversing twice is the identity and the reversed path's "
                      "curves are the reversed curves of the original in reverse order (path_reversed_twice, path_reversed_curves, path_reversed_ends). "
                      "The same generated definitions are executed (exact rationals and Float) against the real functions in 1-D/2-D/3-D.",
        "level_note": "Exact arithmetic: binary64 rounding is not modelled (agreement is exact on the dyadic stream and within 64-256 ulp of the polygon size on reals). "
                      "" + COMMON_NOTE,
        "rule": "corr: random operation (basis/point_at_pos/de_casteljau4, subdivide, section incl. control points, subsection, reverse, t_for_t and inverse) "
                "in 1-D/2-D/3-D, alternating a dyadic stream (coordinates k/8 in [-64,64], parameters k/16, sections with 1-a and b-a powers of two: "
                "model and implementation must agree exactly) and a real stream (tolerance 64..256 units of 2^-52 x control polygon size); "
                "boundary parameters 0, 1, a=b, a=1 are forced in. search: the identities of the property on the real code "
                "(zero tolerance on the dyadic stream). Non-trivial: parameter not 0/1 (section: a<b) and curve not closed onto its start; distinct by input bits.",
        "trusted_base": ["BezierPath::to_curves is specified in Lean (curvesOf), not translated; the search compares it with reversed() on the real code"],
        "assumptions": ["theorems are over exact arithmetic (any ordered field); binary64 rounding is bounded by the real-stream tolerance, not proved"],
    },
    "C18": {
        "title": "The 1-D space index and the bounding-box sweeps are exact",
        "gen_modules": ["Bounds"],
        "props_modules": ["C18", "C18Space"],
        "corr_n": (20000, 400000),
        "search_n": (20000, 400000),
        "technique": "Lean 4 theorems (permutation of the specified pair list; query specs under a construction invariant) over hand models + exhaustive exact correspondence",
        "level_text": "sweep_self / sweep_against: Lean theorems that, for inputs sorted by min x, the model's output is a permutation of exactly the overlapping pairs "
                      "(each once), for every list of boxes over any linear order, with the overlap test being the definition regenerated from BoundingBox::overlaps "
                      "and proved equivalent to closed-interval intersection. Space1D: fromData_inv proves, for every list of ranges with start <= end (any length; touching, nested, "
                      "identical, zero-width), that the model of from_data produces sorted, disjoint, non-empty pieces whose handle lists are exactly the items containing each point; "
                      "data_at_point / data_in_region (each item once) / regions_in_range / all_regions meet their specifications under that invariant. "
                      "Models are tied to the code by exhaustive exact correspondence (every collection of <=4 ranges on a 5-point grid, <=3 (quick) / <=4 (thorough) boxes, "
                      "incl. touching, nested, identical, zero-width) plus random collections up to 200 items.",
        "level_note": "The sweep and Space1D models are hand-written (loops with mutation are outside the translator's subset); their tie is the exact correspondence run. "
                      "Binary-search insertion position is abstracted (theorems do not depend on it). NaN and -0 are outside the model. " + COMMON_NOTE,
        "rule": "corr/search: exhaustive enumeration of small collections on an integer grid (ranges with end points in {0..4}, boxes with x in {0..3}, y in {0..1}) "
                "followed by random collections (0..200 items, real or snapped coordinates, zero-width items forced in); every query point on the half-grid, every query region. "
                "Non-trivial: at least two items overlap, touch or nest; distinct by input.",
        "trusted_base": ["hand-written models Model/Sweep.lean, Model/Space1D.lean (tied by correspondence, not by translation)"],
        "assumptions": ["inputs are NaN-free; -0 and +0 are identified (total_cmp distinguishes them, the model does not)"],
    },
}

PROPS["C17"] = {
    "title": "Contour tracing returns exactly the boundary of the sampled shape",
    "gen_modules": ["Contour"],
    "props_modules": ["C17", "C17Scan", "C17Trace", "C17All", "C17Round"],
    "corr_n": (20000, 400000),
    "search_n": (20000, 400000),
    "technique": "Lean 4 theorems for every bitmap and for every contour given by fractional intercepts (scan_spec, trace_loops, trace_contours_spec, roundFrac_eq_rle, frac_scan_spec, "
                 "frac_trace_contours_spec) over translated kernels and literal hand models + exhaustive exact correspondence of the models through four contour types",
    "level_text": "The marching-squares table, corner-bit packing, edge numbering and its inverse, and the sample index of BoolSampledContour / U8SampledContour::point_is_inside are regenerated from the "
                  "Rust source on every run and proved correct for the whole (finite) cell domain and all positions: a cell connects exactly the sides whose corners differ, each once; neighbouring "
                  "cells share edge ids; ids are injective; to_contour_coords inverts at_coordinates; the sample index is the row-major index x + y*width, in bounds and injective for positions inside "
                  "the contour (u8_index_row_major, bitmap_rows_spec - so non-square u8/bool bitmaps are covered by a theorem, not only by cases). "
                  "Rounding stage (rounded_intercepts_on_line + merge_overlapping_intercepts, literal model roundFrac over exact rationals): for EVERY list of real ranges that respects the trait's contract "
                  "(s0 <= e0 <= s1 <= ..., any length): an integer sample lies in [ceil s, ceil e) iff it lies in [s, e), also for negative bounds (ceil_is_sampling); the rounded ranges stay ascending "
                  "with e_i <= s_i+1 (ceilRuns_ascending); merging keeps the covered sample set - even for overlapping ranges, as long as none is nested (mergeRuns_preserves_samples, roundFrac_samples); "
                  "the result is strictly separated, non-empty and inside the width (roundFrac_good) and therefore EQUALS the run-length encoding of the sampled row (roundFrac_eq_rle). Without the "
                  "contract merging LOSES samples (theorems mergeRuns_nested_loses_coverage / roundFrac_nested_loses_coverage: [0,10) and [2,3) become [0,3)). "
                  "Scan and trace: for EVERY bitmap (any size) scan_spec proves the iterator model yields exactly the mixed 2x2 cells with correct corner bits in scanline order (incl. sufficiency of the "
                  "iteration bound; scan_runs_spec: on any well-formed run lists), trace_loops / trace_contours_spec prove the tracer model never hits its panic sites and returns closed loops of cell-adjacent "
                  "edges using every inside/outside edge exactly once; frac_scan_spec / frac_trace_contours_spec carry both over to ANY contour given by contract-respecting intercepts that end inside the "
                  "width (cells and loops of the SAMPLED bitmap). The rounding stage, the scan iterator and the loop tracer are literal hand models, compared verbatim (rounded ranges, cells) and up to "
                  "rotation/direction/order (loops) with the implementation on every bitmap up to 4x3/3x4/6x1 (quick) and 4x4, 5x3, 5x4, 4x5 (thorough) plus random bitmaps to 64x64, each bitmap as "
                  "BoolSampledContour, U8SampledContour (0 / mixed non-zero bytes), a harness-defined contour of fractional intercepts in two disguises (every sample its own half-offset range; random splits "
                  "inside one pixel gap so that rounded pieces touch, pieces that round to nothing, negative starts) and the library's ScaledContour (scales 1/4..2, offsets 0..1/2); "
                  "rounded_intercepts_on_line is also compared on its own, incl. inputs outside the contract (overlapping, nested, unsorted, inverted, negative). The driver checks the implementation's cells "
                  "against the mixed-cell specification and its loops against the set of boundary edges; the search requires all contour types to give identical cells and loops for the same bitmap.",
    "level_note": "The theorems are about the hand models of the rounding stage, the iterator and the tracer (loops with in-place mutation, SmallVec::remove and a HashMap are outside the translator's subset); the "
                  "models are tied to the code by exhaustive correspondence. HashMap iteration order is abstracted (the theorem holds for any key order) and canonicalised away in the comparison. "
                  "Intercepts are exact rationals: every finite binary64 number is one, and ceil / `as usize` are exact below 2^64 (the saturation at usize::MAX, NaN and infinite intercepts are not modelled). "
                  "ScaledContour's own coordinate mapping (multiplication by the scale factor) is not modelled: its intercepts are taken as the input. For the largest exhaustive sizes (more than 16 samples) "
                  "every bitmap runs as a bool contour and every 32nd (correspondence) / 16th (search) in the other kinds; random bitmaps run as a bool contour plus one other kind in turn (thorough: on every second bitmap) in the correspondence and in all kinds in the search. " + COMMON_NOTE,
    "rule": "exhaustive enumeration of all bitmaps of the listed sizes (with and without an empty border arise as sub-cases), then random bitmaps 1..64 x 1..64 of kinds "
            "full/empty/checkerboard/single pixel/noise/ring/blocks/long runs/noise with border; each through the contour kinds bool, u8, frac_max_split, frac, scaled (transcript operations bitmap, bitmap_u8, "
            "frac, scaled; evidence counters kind.*, and frac.* / scaled.* / round.* for rows that are fractional, touch after rounding, contain a piece that rounds to nothing, start below 0, have >= 4 ranges, "
            "have >= 4 ranges with a touching pair followed by >= 2 more); operation round: every row of width <= 8 in three disguises, every row of the random fractional contours, and random lists outside the "
            "contract. Non-trivial: neither empty nor full (round: at least two ranges); distinct by kind, size, samples and intercepts.",
    "trusted_base": ["hand-written model Model/Contour.lean of the rounding stage (roundFrac, mergeRuns), the scan iterator and the tracer (tied by exhaustive correspondence)",
                     "the harness-defined FracContour (an implementation of the public trait SampledContour that returns the stored ranges of line floor(y))"],
    "assumptions": ["the bitmap vector has width*height entries (the Rust code indexes without bounds checks otherwise)",
                    "intercepts_on_line respects its documented contract (ascending, not overlapping: s0 <= e0 <= s1 <= ...) - proved necessary: nested ranges lose samples",
                    "no intercept ends beyond the contour's width (forced by the scan theorem: cells are only specified for x <= width; not stated in the trait's documentation)",
                    "intercepts are finite and below 2^64"],
}

PROPS["C04"] = {
    "title": "Curve-line and line-line intersections agree with the exact root set",
    "gen_modules": ["Consts", "Basis", "Lines", "CurveLine"],
    "props_modules": ["C04", "C04Clip"],
    "corr_n": (20000, 400000),
    "search_n": (20000, 400000),
    "technique": "Lean 4 theorems over definitions translated from the Rust source on every run (line/line uniqueness, curve/line soundness and conditional completeness, Liang-Barsky spec of the generated line_clip_to_bounds) + XQ/Float correspondence + search",
    "level_text": "line_intersects_line / line_intersects_ray / ray_intersects_ray: theorems that the generated definitions return the unique solution of the two line equations exactly when it lies in the "
                  "stated parameter ranges (non-zero divisor), and - with IEEE division modelled by XQ - return None for a zero divisor (parallel/collinear). curve_intersects_ray is translated whole "
                  "(loop included): it is proved equal to filterMap of a per-root function over the solver's roots; every hit has t in [0,1], is the curve point at t, and an unsnapped exact root lies on "
                  "the line at exactly s; curve_intersects_line is the filter 0<=s<=1; every root of the signed-distance cubic in [0,1] is reported given the solver contract; polish_root never increases "
                  "the residual and fixes exact roots; the solver dispatch is characterised. The distance cubic is proved to be the signed distance of the curve point. A root the solver places outside (-0.1, 1.1) is dropped before refinement (repair ca41cec; the theorems are about the repaired loop). line_clip_to_bounds (Props/C04Clip, about the literal hand model of the Liang-Barsky loop): clip_some_spec - a returned segment is (P(t1), P(t2)) with 0 <= t1 <= t2 <= 1, and a point P(t), 0 <= t <= 1, of the line lies in the box EXACTLY when t1 <= t <= t2 (the maximal sub-segment inside the box, for corner points in any order, zero-length lines and axis-parallel lines included); clip_none_spec - None means no point of the line is in the box; clipStep_means - one iteration of the edge loop keeps the meaning of (t1, t2).",
    "level_note": "The external solvers (crate roots) are a parameter: completeness is conditional on 'returns every real root'; for a small non-zero leading coefficient the code solves a quadratic and "
                  "refines - an approximation covered only by the search (sign-change scan, 1e-6 / 0.001 tolerances). line_clip_to_bounds is GENERATED since session 4 (the loop with its early return over zipped arrays is a foldlRet; the driver compares the implementation with the generated function); "
                  "the Liang-Barsky theorems of Props/C04Clip were written for the literal hand model Model/Clip.lean, generated_eq_model proves the generated function equal to it for every line and box, and "
                  "generated_clip_some_spec / generated_clip_none_spec restate them for the generated code. sqrt is an uninterpreted function in the theorems. " + COMMON_NOTE,
    "rule": "corr: line pairs (dyadic integer grid and reals; parallel, collinear, shared end, T-junction, point line forced in), clip, line coefficients, and curve/line (hook H3 hands over the polynomial the implementation "
            "gave to the external solver and the raw roots it got back inside the same call: the generated function must have computed the same polynomial and must reproduce every hit - parameter, "
            "line position, point - bit for bit in Float). search: exhaustive integer grids for the three line functions and line_clip_to_bounds "
            "(maximal sub-segment by exact enumeration), then random curves incl. near-degenerate cubics (leading coefficient 1e-9.5..1e-6.5), exact quadratics, straight curves, against lines "
            "through end points / control points / curve points, axis-parallel: every hit on curve and on line (1e-6, 0.001 snapped), filter equality, every clear sign change on a 1/2000 grid reported. "
            "Non-trivial: an intersection exists; distinct by input.",
    "trusted_base": ["external cubic/quadratic solver (crate roots) is a parameter with an explicit contract", "Model/Clip.lean of line_clip_to_bounds (proved equal to the generated function: no longer trusted)", "hook H3 (solver-root sink in curve_intersects_ray)"],
    "assumptions": ["solver contract for completeness; exact arithmetic for the on-line statement"],
}

PROPS["C06"] = {
    "title": "Bounding boxes contain the curve and are tight",
    "gen_modules": ["Basis", "CurveBounds", "PathBounds2"],
    "props_modules": ["C06", "C06Path", "C06Path2"],
    "corr_n": (20000, 200000),
    "search_n": (10000, 200000),
    "technique": "Lean 4 theorems over ℝ (compactness + Fermat, quadratic formula) about definitions translated from bounds.rs / curve.rs / coord1.rs / bounding_box.rs on every run + bit-exact Float mirror",
    "level_text": "For every cubic (1-D, i.e. per coordinate axis; exact real arithmetic with Real.sqrt): the translated find_extremities returns only parameters in (0,1] and contains every interior "
                  "critical point (quadratic formula; the a=0 case through root3); the translated bounding_box4 contains the curve for all t in [0,1] and each face is attained by a curve point "
                  "(hence it is exactly the min/max of the curve); the derivative coefficients are the derivative; fast_bounding_box is the min/max of the control values and contains both the curve and "
                  "the tight box; union_bounds is characterised incl. its skipping of min=max boxes. The Float instance of the same generated definitions reproduces the implementation bit for bit per axis in 1-D/2-D/3-D. "
                  "Path level (Props/C06Path): path_bounding_box / path_fast_bounding_box are translated (map, reduce, origin box for a path without curves) and proved to contain every point of every curve "
                  "of the path whose own box has positive width, for any number of curves (induction over the reduce); bit-exact against 1-D paths (the generic code at Point = f64). 2-D paths (Props/C06Path2): union_bounds, is_empty, from_smallest/biggest_components and the two path functions are regenerated at Point = Coord2 (the per-curve box is a parameter); in 2-D a box is empty only when its corners are THE SAME POINT, so vertical and horizontal lines take part in the union: path_bounding_box2_contains / path_fast_bounding_box2_contains - for any number of curves, the box of every curve that is not a single point lies inside the path's box in both coordinates (foldl_union2_contains, union_bounds2_spec); bit-exact against real 2-D paths with point sections and axis-parallel lines (op pbox2: the real per-curve boxes are folded by the generated union).",
    "level_note": "Partial: the ill-conditioned quadratic formula in binary64 (leading coefficient 1e-17..1e-8) is covered by the bit-exact mirror and the search (1/2000 grid + refined extrema, tolerance 1e-9 of "
                  "the polygon size with a 16-ulp floor), not by a theorem; 2-D/3-D boxes are per-axis in exact arithmetic (the implementation shares candidates between axes, which only adds curve points); "
                  "a curve that is constant in a coordinate has a min=max box there, which union_bounds skips (the code's notion of 'empty'): the path theorems say so explicitly; for 2-D paths emptiness is decided on the whole box, "
                  "which the per-axis model does not reproduce (search only). " + COMMON_NOTE,
    "rule": "curves in 1-D/2-D/3-D of kinds random, tiny/zero derivative leading coefficient, grid-aligned, monotone/flat, loop, cusp, point; corr compares bounding_box, fast_bounding_box and the "
            "find_extremities list with the Float mirror; search checks containment, tightness, fast ⊇ tight, extremity range on the real code, and path (fast) boxes against the union of curve boxes "
            "incl. zero-length segments. Non-trivial: at least one interior extremity / not a point curve; distinct by input.",
    "trusted_base": ["Real.sqrt stands for f64::sqrt in the theorems; the Float mirror uses C sqrt"],
    "assumptions": ["exact real arithmetic in the theorems"],
}

PROPS["C19"] = {
    "title": "Arc length is bracketed by chord and control polygon and converges",
    "gen_modules": ["Basis", "Section", "Length", "Walk"],
    "corr_n": (2000, 40000),
    "search_n": (3000, 60000),
    "technique": "Lean 4 theorems (loop invariant + potential function over the generated iterFuel loop; points in any real normed space) about section_length / curve_length translated WHOLE "
                 "from length.rs (stack loop, CurveSection arithmetic from section.rs) on every run + bit-exact Float mirror of the same generated definitions",
    "level_text": "section_length and curve_length are regenerated from the Rust source as they are (the `while let Some((section, max_error)) = waiting.pop()` loop over the stack of "
                  "(CurveSection, tolerance), subsection(0,0.5)/(0.5,1), the MIN_ERROR floor); there is no hand model. Proved for every curve in any real normed space (1-D, 2-D, 3-D), every tolerance and "
                  "EVERY FUEL (number of iterations granted), in exact real arithmetic: (1) loop invariant (iterFuel_invariant, reusable): total + sum of the waiting pieces' polygons <= polygon of the curve, "
                  "total + sum of the waiting chords >= chord of the curve, all waiting sections valid - preserved by each iteration (accepted piece: (2c+2p)/4 lies in [c,p]; split piece: the two "
                  "subsections are the de Casteljau halves of the section's own control points, polygons shrink, chords grow); (2) hence 0 <= curve_length <= control polygon even when the fuel ran out, "
                  "and chord <= curve_length <= polygon whenever the loop ended with an empty stack; (3) termination/work: for e <= 1e-12*2^D the potential sum(2^(lvl+1)-1) strictly decreases, "
                  "so 2^(D+1)-1 iterations empty the stack, more fuel never changes the result, every piece ever on the stack sits at depth d <= D with tolerance exactly e/2^d and width 2^-d, "
                  "and the stack never holds more than D+1 pieces (D = 34/27/14 for e = 1e-2/1e-4/1e-8); (4) the stack loop computes exactly the Gravesen recursion (loop_is_recursion); (5) hence curve_length(reversed curve) = curve_length(curve), "
                  "besides chord and polygon being reversal invariant. The Float instance of the generated curve_length reproduces the implementation bit for bit on every sampled curve and tolerance.",
    "level_note": "Partial: the accuracy numbers (0.1 for e=0.01, 1e-3 for e=1e-8) and additivity over a subdivision within tolerance depend on how fast (polygon-chord)^2 falls under the halving tolerance "
                  "(input dependent) and are covered by the search (20000-segment polyline) only. The iteration bound 2^(D+1)-1 is the worst case of the tolerance floor alone (it uses nothing about the curve: no convergence-rate theorem). "
                  "Reversal invariance of the value is exact arithmetic only (the search allows 1e-9). " + COMMON_NOTE,
    "rule": "corr: all 19 curve classes of the search generator (arch, s, loop, cusp, near-line, straight, overshoot, point, coincident control points, closed, two inflections, hairpin, random ...) + corpus, "
            "a quarter scaled to the full 100-unit box, a few scaled up 1e3..1e6 (these run into the MIN_ERROR floor: tens of thousands of pieces) or down to 1e-9, each at e in {1e-2,1e-4,1e-8}: "
            "generated curve_length, chord_length, control_polygon_length at Float must equal the implementation's bits. "
            "search: bracket, accuracy against a 20000-segment polyline, reversal, additivity over a random split. Non-trivial: not a point curve; distinct by input.",
    "trusted_base": ["the Float mirror grants the generated loop 4,000,000 iterations where the Rust loop is unbounded (a longer run would show up as a DIFF, not pass); "
                     "Lemmas/Length.lean restates the loop body once (lengthStep), tied to the generated definition by a kernel-checked rfl lemma (section_length_eq)"],
    "assumptions": ["exact real arithmetic in the theorems; the depth/work bound uses only halving and comparison of the tolerance, which are exact in binary64 for finite e > 1e-12 (NaN tolerance: see report)"],
}

PROPS["C15"] = {
    "title": "Walking a curve tiles the parameter range with the requested spacing",
    "gen_modules": ["Basis", "Walk"],
    "props_modules": ["C15", "C15Vary", "C15Progress"],
    "corr_n": (2000, 40000),
    "search_n": (2000, 40000),
    "technique": "Lean 4 theorems about the walk iterators translated WHOLE from walk.rs (inner loop included, as an opaque fuel iteration) + bit-exact Float mirror of the iterators run to exhaustion",
    "level_text": "walk_curve_unevenly(n): theorem that the generated iterator yields exactly n sections [k/n,(k+1)/n] tiling [0,1] exactly (first starts at 0, last ends at exactly 1, equal width). "
                  "walk_curve_evenly: for ANY curve, distance, tolerance and whatever the step controller inside the loop computes: None is returned exactly when the walk stands at >= 1; each section "
                  "starts where the walk stood, ends at or before 1 and the walk then stands at its end; hence the sections of a finished walk tile [0,1] exactly (even_tiling, induction over the run). "
                  "The constructor starts at 0 with positive distance and tolerance. vary_by (Props/C15Vary): the part of VaryingWalkIterator::next that changes the even iterator is translated (vary_step: clamp, ratio, the two "
                  "assignments to the nested fields); varied_tiling - for ANY distance iterator (a state and a next function: finite lists, cycles, zero and negative distances, ending whenever) the sections of the "
                  "varied walk start where the walk stands, chain exactly, none ends after 1, and a finished walk ends at exactly 1 (tiling_of_step: one abstract induction used for every iterator whose steps behave "
                  "like EvenWalkIterator::next); vary_step_spec / vary_step_distance_pos (the new distance is max(x, 1e-10) > 0, the increment is scaled by the ratio); varyUpdate_eq_generated: C20's hand model of "
                  "this step equals the generated code. Progress (Props/C15Progress, the step controller opened): inc_update_pos - every update inside the loop keeps the parameter increment positive whatever the distances and the speed are "
                  "(a Newton correction that would make it non-positive is replaced by a division by three); even_next_progress / evenFrom_progress - from a positive increment every section (a, b) has a < b and the "
                  "increment kept for the next step is positive; walk_start_increment_pos (sqrt non-negative) and vary_step_increment_pos - the constructor and vary_by keep it positive: the walk never stalls on a "
                  "section of zero or negative length. The generated iterators (Float) reproduce the implementation's sections bit for bit, varied walks (cycled and used-up distance lists) included.",
    "level_note": "Partial: termination (a lower bound on the increments: progress is proved, a bound is not) and the chord-length accuracy within max_error (convergence of the controller within 32 iterations) are not theorems; "
                  "they are covered by the search on non-vanishing-speed curves. The glue of VaryingWalkIterator::next around vary_step (ask the iterator, drop it when exhausted, call the even iterator) is the 10-line variedStep of Props/C15Vary, tied by the bit-exact run. " + COMMON_NOTE,
    "rule": "corr: even walks (distance 0.5%..200% of the length, max_error 1..25% of it, up to 3000 sections) uneven walks n in 1..300 and varied walks (0..5 distances incl. 0 and negative ones, cycled or used up, up to 2000 sections), compared section by section with the generated iterators. "
            "search: tiling exactness, chord spacing on non-vanishing-speed curves, termination cap, uneven counts/widths, vary_by tiling. Non-trivial: more than one section; distinct by input.",
    "trusted_base": ["iterFuel 64 stands for the loop bounded by MAX_ITERATIONS = 32"],
    "assumptions": ["exact arithmetic in the theorems; n as f64 is exact (n < 2^53)"],
}

PROPS["C13"] = {
    "title": "Intersection pruning never discards a parameter range that can hold a hit",
    "gen_modules": ["Consts", "Basis", "Lines", "FatLine"],
    "corr_n": (20000, 200000),
    "search_n": (20000, 400000),
    "technique": "Lean 4 theorems (strip containment, convex-hull cover, clip_t soundness, clip) about FatLine / clip_t / clip translated WHOLE from fat_line.rs and curve_curve_clip.rs on every run + bit-exact Float mirror through hook H1",
    "level_text": "For all control points over any ordered field and ANY normalisation factor: the fat line built from a curve (chord branch) contains every point of the curve (3/4 and 4/9 bounds, affine "
                  "invariance of the signed distance); the coincident-end-point branch and the perpendicular strip contain it up to an explicit slack (<= 1e-7); the distance curve is the graph of the "
                  "distance over the parameter; the vertex list of distance_curve_convex_hull spans the convex hull of the four points (hull_covers); clip_t_sound: no parameter whose point lies in the strip "
                  "is left outside the returned range beyond the 1e-5 snapping window of round_y_value, and None is returned only if no point of the curve is in the strip; clip returns one of the two "
                  "clip_t ranges, only ever widened, and None only if a clip_t did; clip_keeps_intersections: an actual intersection is never pruned. All about definitions regenerated from the Rust source; "
                  "their Float instances reproduce FatLine::from_curve, from_curve_perpendicular and clip_t bit for bit (hook H1).",
    "level_note": "Exact arithmetic (binary64 rounding bounded by the bit-exact mirror only); sqrt is an arbitrary function in the theorems; the f64::MAX/MIN sentinels are arbitrary values. "
                  "Finding recorded: for coincident end points from_curve_perpendicular measures a substituted end point, so the strip can miss the real end point by up to 1e-7 "
                  "(perp_strip_near_counterexample) - inside the property's 1e-9-of-size tolerance for 100-unit curves. " + COMMON_NOTE,
    "rule": "pairs of curves (random / grid, coincident ends, control points on the base line, opposite sides, symmetric same side, degenerate control points) and sections of them down to 1e-6 in "
            "parameter length. corr: d_min/d_max/coefficients of both fat lines and both clip_t results vs the Float mirror. search: the property's own test on the real code through H1 on a 1/1000 grid "
            "(strip contains its curve; no in-strip parameter outside the clip range +-1e-5; None only if nothing in the strip). Non-trivial: non-degenerate control points; distinct by input.",
    "trusted_base": ["hook H1 (read accessors of the private FatLine)"],
    "assumptions": ["exact arithmetic in the theorems"],
}

PROPS["C16"] = {
    "title": "Scan conversion of a path matches point membership",
    "props_modules": ["C16", "C16Side"],
    "gen_modules": ["Basis", "Section", "Walk", "PathContour"],
    "corr_n": (20000, 400000),
    "search_n": (2000, 40000),
    "technique": "Lean 4 theorems about raycast_intercepts_on_line, the row / column closures of PathContour, remove_duplicate_intercepts (loop included, fuel = length + 1) "
                 "and solve_basis_for_t, all translated from ray_cast_contour.rs / path_contour.rs / solve.rs on every run + bit-exact Float mirror of whole scan queries + search on the real code",
    "level_text": "Partial. Proved for every curve table, every solver answer, every scan position and width: the ranges returned by intercepts_on_line and intercepts_on_column are inside "
                  "[0, width], non-empty, strictly ascending and disjoint (intercepts_on_line_wellformed, intercepts_on_column_wellformed; clip_membership / clip_ranges_inside / clip_keeps_order "
                  "for any closure and scale factor of a RayCastContour); even-odd rule at the level of the hit list: x is in a returned range iff 0 <= x < width, the number of hits KEPT after "
                  "duplicate removal at or left of x is odd, and x is left of the last kept hit when an odd number is kept - tuples() drops it (pairs_even_odd, row_membership for any sorted "
                  "arrangement of the hits, intercepts_on_line_membership, intercepts_on_column_membership; intercepts_on_line_generic: with no duplicate pair and an even hit count, membership "
                  "is the parity of the solver hits). remove_duplicate_intercepts: the generated loop never exhausts its fuel and equals a fuel-free recursion (remove_duplicates_eq), returns a "
                  "sub-list (sorted stays sorted), every removal is licensed by the duplicate condition at that moment (remove_duplicates_licensed), lists without a duplicate pair are returned "
                  "unchanged; curves_are_neighbors is characterised (neighbors_spec); the same-side test is characterised against the polynomial derivative (Props/C16Side: same_side_spec - true exactly when the y-derivative of the FIRST hit's curve at the FIRST hit's parameter and that of the SECOND hit's curve at the SECOND hit's parameter have the same signum, or one vanishes; yDeriv_is_derivative). Columns: column_is_transposed_row_without_dedupe - the column closure is the row closure of the transposed "
                  "curve table without duplicate removal and without the t = 0 hits; column_eq_transposed_row when that does not matter. solve_basis_for_t: exact set of returned parameters "
                  "(solve_basis_mem), polynomial identity, soundness and completeness on the cubic branch relative to the external finder, residual < 1e-8 on the quadratic branch; "
                  "row_hits_are_the_crossings: for a scanline through no curve end point (cubic branch, exact duplicate-free finder, bounding boxes containing their curves) the gathered hits are "
                  "exactly the crossings (i, t, x_i(t)) with 0 < t < 1 and y_i(t) = y, each once - with intercepts_on_line_generic the even-odd crossing rule for generic scanlines. "
                  "NOT proved: that the kept hits are exactly one per geometric crossing of the boundary (the purpose of duplicate removal) - this is searched on the real code against an "
                  "independent even-odd oracle, and fails at vertices / edges / tangents (known findings). Defect mechanisms proved as theorems about the code as it is: closing_joint_not_neighbors, "
                  "subpath_boundary_neighbors, closing_joint_witness (two diamonds scanned through their start vertices: interior of the first reported outside, gap between them inside - "
                  "reproduced bit for bit on the real code), column_differs_from_transposed_row.",
    "level_note": "Exact arithmetic over any ordered field: NaN, signed zeros and rounding are not modelled; sqrt and signum are arbitrary functions in the theorems; total_cmp is <=. "
                  "Rust's sort_unstable_by is modelled by a stable insertion sort (it is one up to 20 elements); the row theorems are also stated for an arbitrary sorted arrangement of the hits. "
                  "PathContour::from_path (to_curves, curve_is_tiny filter, bounding boxes) is not translated: the correspondence run rebuilds the curve table with the same public functions. "
                  "debug_assert!(even number of intercepts) is dropped by the translator: debug builds panic where release builds drop the last hit. " + COMMON_NOTE,
    "rule": "corr (bit-exact, Float): clip - RayCastContour::intercepts_on_line on ascending / limit-valued / unordered / NaN-inf range lists, 6 widths, 6 scale factors: closure argument and ranges; "
            "solve - solve_basis_for_t with the answers of roots::find_roots_quadratic/cubic as input (random, monotone, straight, end/start/both on p, nearly quadratic, flat): coefficients and roots; "
            "row / col - intercepts_on_line / intercepts_on_column on the fixed scenes of the theorems and on random path sets (circles, rotated circles, blobs, polygons, grid rectangles, "
            "L shapes, holes, several sub-paths) at positions through vertices, 1 ulp beside vertices, at horizontal/vertical tangents, integer, random: every returned range. "
            "search: the property on the real code - ranges finite / clipped / non-empty / sorted / disjoint, membership of samples farther than 0.05 from every edge against an even-odd oracle on two "
            "flattenings, column against the transposed row, contour_point_is_inside. Non-trivial: the scan hits a curve (corr), any scene (search); distinct by input.",
    "trusted_base": ["harness/src/c16.rs curve_table: PathContour::from_path rebuilt from to_curves / curve_is_tiny / bounding_box (private field `curves` is not observable)",
                     "stable insertion sort stands for sort_unstable_by (identical up to 20 hits; lines with more hits and equal positions are counted, not compared)",
                     "search oracle: even-odd winding on 48- and 384-segment flattenings, samples within 0.05 + 0.006 of an edge excluded"],
    "assumptions": ["finite coordinates (no NaN) and exact arithmetic in the theorems",
                    "the external root finders (crate roots) are parameters: soundness / completeness of solve_basis_for_t are relative to theirs"],
}

PROPS["C01"] = {
    "title": "Binary path arithmetic computes the point-set operation",
    "gen_modules": ["PathArith", "Consts", "Basis", "Section", "Lines", "CurveLine", "FatLine", "Walk", "Normal", "Ray", "Clockwise"],
    # the property's anchor files include ray.rs, graph_path/mod.rs and path_collision.rs: what is proved about them (C14: the ray-casting pipeline;
    # C03: the structural invariant of the collision stage, the split algebra, the orientation test) are obligations of C01 as well
    "props_modules": ["C01", "C14", "C03", "C03Split", "C03Orient"],
    "corr_n": (300, 4000),
    "search_n": (400, 8000),
    "extended_factor": 2,
    "technique": "Lean 4 theorems about the inside-predicates and operation layers translated from arithmetic/*.rs, and about a model of the ray-cast classification loop that replays the implementation's own "
                 "event trace (hook H2) + independent winding-number oracle on the real code",
    "level_text": "Partial. Proved for every pair of crossing counts and every ray: the generated predicates of path_add / path_sub / path_intersect are union / difference / intersection under the even-odd rule "
                  "(pred_spec, pred_zero, pred_symmetric, bitand_one for negative counts too); the generated operation layers implement the empty-operand laws A+0=A, 0+B=B, A-0=A, 0-B=0, A&0=0 and reach "
                  "the graph algorithm otherwise (empty_operand_laws, nonempty_operands); in the model of set_edge_kinds_by_ray_casting the number of groups across which the predicate flips along a ray "
                  "is odd exactly when the ray ends inside (membership_telescopes, inside_iff_odd_flips), a group marks at most one edge exterior and exactly one iff the predicate flips across it "
                  "(group_exterior_count), every settable edge gets exactly one kind (group_events_cover), counters move by the side of each crossing (bump_spec). The model is tied to the code by replaying, "
                  "for every ray the implementation casts, the crossing list it saw and comparing every edge kind it set (hook H2): exact, event by event. "
                  "NOT proved: that the crossings handed to the loop are the true crossings of the ray with the two boundaries (graph collision, ray casting: floating-point geometry) and that the "
                  "exterior edges are then assembled into closed paths; these are covered by the search oracle only (probe-point membership against a winding-number count on flattened inputs).",
    "level_note": "Known findings on the unchanged tree (known_findings.json): tangent / coincident / vertex-near-boundary configurations where the collision stage mis-detects crossings, and a sort comparator "
                  "that is not a total order (panic). " + COMMON_NOTE,
    "rule": "corr: every operation (add, sub, intersect) on random pairs of shapes (circles, rectangles, blobs, stars, rings with holes, multi-sub-path, reversed/rotated variants); the trace of every ray cast "
            "(crossings in order with edge label, side, kind before) is replayed by the Lean model and every set-kind event compared. search: ~600 probe points per case classified by an independent "
            "winding count on a 1/256 flattening, probes within 1e-3*size of a boundary skipped; identities (operand order, empty operands, self). Non-trivial: boundaries cross; distinct by input.",
    "trusted_base": ["hook H2 (trace sink in set_edge_kinds_by_ray_casting)", "hand model Model/RayCast.lean of the classification loop (tied by the trace replay)",
                     "search oracle: winding number of a 1/256 flattening"],
    "assumptions": ["the crossing list of each ray is taken from the implementation (graph collision and ray casting are not modelled)"],
}

PROPS["C11"] = {
    "title": "Derived path operations equal compositions of the primitives",
    "gen_modules": ["PathArith"],
    "props_modules": ["C01", "C11"],
    "corr_n": (300, 4000),
    "search_n": (300, 6000),
    "extended_factor": 2,
    "technique": "Lean 4 theorems: denotation of path_combine expression trees by structural induction over a contract for the primitives; translated predicates of cut / full_intersect / chain; "
                 "trace replay of every classification pass (hook H2) + winding-number oracle on the real code",
    "level_text": "Partial. combine_denotes / combineList_denotes: for EVERY expression tree (any depth, any nesting of Add/Subtract/Intersect/RemoveInterior/Path), membership of a probe in path_combine's result "
                  "is the set-algebra denotation of the tree, given the membership contract of the primitives (C01, C12). cut_predicates: the two passes of path_cut / path_full_intersect use exactly the "
                  "intersect and subtract predicates, so their parts are A&B, A-B (and B-A); chain_spec: path_add_chain's predicate is 'some operand odd' = n-ary union for any number of operands. "
                  "Everything C01 proves about the classification loop applies to each pass; the model is tied by replaying the H2 trace of every pass. The model of path_combine is tied by hook H4: "
                  "for random expression trees the operations the implementation enters, in order and with their operands (by fingerprint), must be exactly those the model performs on symbolic "
                  "path sets, and every classification pass inside the tree is replayed with that operation's predicate. NOT proved: the contract itself "
                  "(geometry: C01's gap), and that cut's two passes partition the edges (checked by the search: interior+exterior == originals by membership).",
    "level_note": "Known findings (known_findings.json): C01's tangent/coincident classes seen through the derived operations, one add_chain class with 5-6 touching operands. " + COMMON_NOTE,
    "rule": "corr: path_cut, path_full_intersect, path_add_chain (3 operands) on random shapes, and path_combine on random expression trees (depth <= 3, 0..3 operands per node, empty and "
            "two-shape leaves, RemoveInteriorPoints leaves): operation sequence and operands against the model (H4), all classification passes replayed from the H2 trace. search: probe membership of each "
            "derived result against the composition of the independent winding oracle; cut's parts against intersect/sub. Non-trivial: boundaries cross; distinct by input.",
    "trusted_base": ["hooks H2, H4", "hand model Model/RayCast.lean (classification loop tied by trace replay, path_combine by operation-sequence correspondence)", "search oracle: winding number of a 1/256 flattening"],
    "assumptions": ["the primitives' membership contract is a hypothesis of combine_denotes (it is C01/C12's statement)"],
}

PROPS["C12"] = {
    "title": "Interior removal yields the non-zero-winding silhouette",
    "gen_modules": ["PathArith", "Clockwise", "Offset", "SelfIntersect", "Consts", "Basis", "Section", "Bounds", "CurveBounds", "Lines", "FatLine", "CurveClip", "CurveLine", "Overlaps", "LinearFallback"],
    "props_modules": ["C01", "C12", "C03Orient", "C20Self", "C12Self"],
    "corr_n": (300, 4000),
    "search_n": (400, 8000),
    "extended_factor": 2,
    "technique": "Lean 4 theorems about the translated remove-interior / remove-overlapped predicates and the classification-loop model (signed crossing sums, odd-flip rule) + H2 trace replay + winding oracle",
    "level_text": "Partial. Props/C20Self (self_intersection.rs, which find_self_collisions calls for every edge against itself, generated): the recursion of find_intersection_point_in_loop case by case for any clipper (in_loop_cases), a reported pair is ordered and in 0..1 (self_intersection_ordered) and names close points (self_intersection_close); Props/C12Self.reported_self_intersection_is_close: with the GENERATED curve_intersects_curve_clip as the clipper (run on the cubics of the two halves, any root solvers, any depths) a reported (t1, t2) is two points of the curve within sqrt(12) accuracy, within max(accuracy, 0.05), is_near_to each other, or the clipper's named tiny-section exit - joined from C20Self.in_loop_cases, C02Sound.returned_pairs_are_close and the section identity secCubic_point. single_label_predicates: with one label the generated predicate of path_remove_interior_points is 'count != 0' and that of path_remove_overlapped_points is 'count odd'; "
                  "counter_is_signed_sum: the counter the loop keeps for a label is the signed number of crossings of that label, for every crossing list; remove_interior_rule / remove_overlapped_rule: along every ray "
                  "starting outside, the number of exterior-marked groups is odd exactly when the ray ends at a point of non-zero (resp. odd) count. Model tied by H2 trace replay of every ray. "
                  "NOT proved: crossing detection for self-intersecting input (graph self-collision) and path assembly: search oracle only.",
    "level_note": "The oracle counts winding after normalising each sub-path's direction, as the library does (it re-orients sub-paths before merging, so a hole drawn in the opposite direction is not "
                  "'subtracted'): this is the reading under which the statement's gloss 'outer silhouette' holds; see DESIGN.md. " + COMMON_NOTE,
    "rule": "corr: remove_interior_points / remove_overlapped_points on self-intersecting stars {n/k}, bow-ties, overlapping sub-path sets, rings; every ray replayed. search: probe membership against the "
            "non-zero (resp. even-odd) winding of the flattened input; idempotence by membership. Non-trivial: the input self-overlaps; distinct by input.",
    "trusted_base": ["hook H2", "hand model Model/RayCast.lean (tied by trace replay)", "search oracle: winding number of a 1/256 flattening"],
    "assumptions": ["the crossing list of each ray is taken from the implementation"],
}

PROPS["C08"] = {
    "title": "Curve fitting returns a connected chain within the error bound",
    "gen_modules": ["Basis", "Fit", "Walk", "Normal", "FitKernel", "Total"],
    "props_modules": ["C08", "C08Error", "C08Cubic", "C08Term", "C08Kernel", "C08Loop"],
    "corr_n": (3000, 60000),
    "search_n": (300, 6000),
    "technique": "Lean 4 theorems about the WHOLE of fit.rs translated on every run (fit_curve's block loop, max_points_to_fit, fit_curve_cubic's body, fit_line, chords_for_points, generate_bezier, reparameterize, "
                 "newton_raphson_root_find, max_error_for_curve, tangent_between, start/end_tangent; only the two self-calls of fit_curve_cubic are tied by hand, with a depth) "
                 "+ bit-exact Float correspondence of the generated fitter with the real fit_curve / fit_curve_cubic + search on the real code",
    "level_text": "Partial. For every number of points: fit_curve returns None exactly for fewer than 2 points (fit_curve_none_iff); the block size is in [50,200] (max_points_to_fit_range/_spec, the loop's fuel "
                  "is never exhausted); fit_curve is the concatenation of the fits of its blocks (fit_curve_blocks); the blocks start at point 0, each starts at the last point of the previous one, "
                  "the last ends at the last point (blocks_cover, fit_curve_blocks_cover - the invariant whose violation was defect F3); hence fit_curve returns a connected chain from the first to the last "
                  "point whenever the per-block fitter does (fit_curve_chain), and the recursion skeleton of fit_curve_cubic (accept / split at the worst point / line for 2 points) does so for every "
                  "accept-and-split policy (fitCubic_chain, fit_curve_fitCubic_chain); fit_line interpolates its end points; newton_raphson_root_find returns a parameter in [0,1] and keeps exact hits fixed "
                  "(newton_in_unit, newton_fixed_at_hit_*: repair F10). accepted_within_error (Props/C08Error): max_error_for_curve's per-sample closure and selection loop are translated, "
                  "and whatever candidate fit_curve_cubic accepts (reported error <= max_error) has every sample within max_error of the curve point at that sample's parameter, for any monotone "
                  "square root - with newton_in_unit that parameter is in [0,1]. cubic_body_cases / returned_curve_within_error (Props/C08Cubic): the WHOLE body of fit_curve_cubic is translated (clamp, line, initial fit, "
                  "re-parameterisation loop with break, acceptance, split with both self-calls; the numeric helpers are parameters): for any helpers it returns the line, or ONE curve generated from some "
                  "parameters whose error measured FOR THAT CURVE is within the clamped tolerance (the curve returned is the curve measured), or the two recursive fits sharing points[split]. "
                  "TERMINATION and the chain for the GENERATED body (Props/C08Term): cubicKnot ties the body's two self-calls with a depth; cubicKnot_chain - for every tolerance (negative ones clamped), tangents and "
                  "least-squares kernel, depth >= number of points is never exhausted and the result is a connected chain from the first to the last point, given that generate_bezier's curve runs from the "
                  "first to the last point of its slice and a rejected candidate is split at an interior sample; cubicKnot_stable - more depth never changes the answer (the Rust function, which has no depth, "
                  "computes the knot at depth points.length: the recursion terminates after at most that many nested calls and never indexes points[split-1] / points[split+1] out of range); "
                  "split_interior / generated_split_interior (Props/C08Error, C08Term) discharge the interior-split hypothesis for the generated max_error_for_curve: the index returned has a POSITIVE squared error "
                  "(max_error_pick_index), so if the first and last sample have error 0 (fit_point_error_at_hit; their parameters 0 and 1 are kept by newton_fixed_at_ends_*) a candidate that is not within "
                  "the tolerance >= 0 is split at 1 <= i, i + 1 < n. body_eq / bodyState_inv: the generated body is line | bodyFinish(bodyState), the state being (parameters, the curve generated from them, "
                  "that curve's measured error and index). "
                  "fit_curve_loop (Props/C08Loop; generated; its block loop was still the one fit_curve had before repair F3 - a gap between blocks from 200 points on: repaired in /repo, f35a364): the same blocks as fit_curve "
                  "(fit_curve_loop_blocks), None iff fewer than two points, a connected chain from the first to the last point whenever the per-block fitter returns one (fit_curve_loop_chain) and, with the generated "
                  "fitter, for every input without three coincident consecutive points (generated_fit_curve_loop_chain); bit-exact op fitloop. "
                  "THE KERNEL IS GENERATED TOO (Props/C08Kernel, Gen/FitKernel): generated_fit_curve_spec - THE STATEMENT OF THE PROPERTY FOR THE PUBLIC fit_curve in exact arithmetic: for every list of at least two 2-D points "
                  "in which no three consecutive points coincide (isolated repeated points allowed) and every max_error, fit_curve returns Some connected chain from the first to the last point (blocks of at most 200 points sharing their boundary point) and every "
                  "input point is within max_error of one of its curves at a parameter in [0,1]; generated_fit_within_error - for every such list, every contiguous slice, tangents and "
                  "tolerance, EVERY POINT IS WITHIN THE (clamped) TOLERANCE OF ONE OF THE RETURNED CURVES AT A PARAMETER IN [0,1] (the first clause of the property, in exact arithmetic, nothing left as a parameter); "
                  "generated_fit_chain - the same fitter never uses up depth points.length and returns a connected chain from the first to the last point (cubicKnot_chain_inv: the chain theorem with an invariant on "
                  "the parameter list); chords_for_points_spec (one parameter per point, first 0, last 1, all in [0,1]); reparameterize_inv (kept by re-parameterisation about any curve from the first to the last "
                  "point); generate_bezier_ends / generate_bezier_spec (curve from first to last point, inner control points on the tangent rays at non-negative distances which solve the normal equations C.alpha = X "
                  "of the accumulated sums when the determinant and Wu/Barsky tests pass, else a third of the end-point distance); generated_split (a rejected candidate is split at an interior point); "
                  "fitCubicGen_eq_cubicKnot (what the driver runs bit-exactly against the real code is the object of the theorems). Three or more coincident consecutive points (a slice of one repeated point: 0/0 in chords_for_points, NaN in IEEE, 0 in a field) "
                  "are outside these theorems: covered by the bit-exact mirror (identical / repeated point classes) and C20. "
                  "NOT proved: the quality of generate_bezier's least squares (how often a candidate is accepted, i.e. how many "
                  "curves are returned); the search checks every sample within max_error of the chain by dense sampling + refinement, chain connected bit-exactly, ends exact.",
    "level_note": "Since round 5 the numeric kernel of fit_curve_cubic is generated (Gen/FitKernel) and no longer a parameter: C08Kernel instantiates the generic theorems with it at Curve<Coord2>; Model/Fit.lean's skeleton is kept "
                  "for the older chain theorems. The knot Model/FitKernel.fitCubicGen (6 lines) is hand-written. " + COMMON_NOTE,
    "rule": "corr: fit (fit_curve) and cubic (fit_curve_cubic with arbitrary tangents): every control point of every returned curve, bit for bit, against the generated fitter at Float, on the search "
            "generator's inputs (all sources, noise, repeated and identical points, 0..3 points, block boundaries, max_error 0, negative, 1e-3..2). blocks: number of points 0..5000 (all small n, random large n): (start, length) of every block the implementation fits (observed through the joints of the returned chain for a fitter-independent "
            "polyline input) vs the generated loop. search: sample sets from lines, arcs, noisy curves, duplicates, collinear runs, 2..2000 points, max_error 0.01..10: chain connectivity, end points, "
            "sample distance. Non-trivial: more than one curve returned; distinct by input.",
    "trusted_base": ["Model/Fit.lean: recursion skeleton of fit_curve_cubic (accept/split policy abstract)"],
    "assumptions": ["max_error > 0 and finite points (fit_curve panics for negative/NaN max_error on exactly fitted 3 points; NaN points give NaN curves)"],
}

PROPS["C09"] = {
    "title": "Nearest-point queries return the global minimum",
    "gen_modules": ["Consts", "Basis", "Lines", "FatLine", "Walk", "Nearest", "Roots"],
    "props_modules": ["C09", "C09Leaf", "C09Gen", "C09Poly"],
    "corr_n": (4000, 100000),
    "search_n": (4000, 80000),
    "technique": "Lean 4 theorems about the WHOLE nearest-point pipeline translated from the Rust source on every run (find_bezier_roots with count_x_axis_crossings, flat_enough, find_x_intercept, Newton, "
                 "de_casteljau_n, derivative_n, subdivide_n; the candidate loop of nearest_t; nearest_point, distance_to, path_closest_point; distance_in_bezier_form and polynomial_to_bezier too since session 4 - the former proved equal to the literal hand model "
                 "the theorems were written for); Mathlib calculus over R for the global minimum; bit-exact Float mirror of all of it against the real code; brute-force oracle on the real code",
    "level_text": "polynomial_to_bezier (the library's conversion from coefficient form to the Bezier form find_bezier_roots works on; indexed assignment inside nested loops, generated, bit-exact op poly at N = 2..8): "
                  "C09Poly.quintic_/cubic_/quadratic_bezier_is_polynomial - de_casteljau_n t (polynomial_to_bezier c) = (t, sum c_i t^i) for every t and all coefficients, at the degrees the library uses. " "Since session 4 distance_in_bezier_form is GENERATED too (Gen.gen_distance_in_bezier_form; indexed compound assignment in the translator) and proved EQUAL to the literal hand model the theorems below "
                  "were written for (C09Gen.gen_eq_model, gen_dbf_explicit), so they are theorems about generated code; the driver runs nearest_t / path_closest_point with the generated Bezier form. " "Partial (one named numerical hypothesis). Proved for ALL cubics, query points and t, over any ordered field: quintic_identity - the six points the model of distance_in_bezier_form builds "
                  "(with the translated Z table) evaluate under the generated de_casteljau_n to (t, (C(t)-p).C'(t)), x-coefficients k/5; nearest_is_argmin - whatever the root finder returns, the result is 0, 1 "
                  "or a returned root in (0,1) of least distance among these. Over R: distSq_hasDerivAt (the generated derivative4/de_casteljau3 tangent is the derivative of point_at_pos; d/dt |C-p|^2 = "
                  "2 x quintic); nearest_global_min - if the returned list contains every zero of the quintic in (0,1) except zeros around which the quintic is >= 0, the returned parameter minimises the "
                  "distance over ALL t in [0,1] (extreme value theorem + Fermat + monotonicity); nearest_approx_min - zeros only within delta of a returned value cost at most 2 M delta in squared distance, "
                  "M = largest ordinate of the quintic's control polygon. Root finder (N = 6, any number of iterations): find_bezier_roots_is_loop - the generated loop equals the step function pop / prune "
                  "/ flat leaf / depth-48 leaf / split; pruning_sound - a section with 0 crossings has its polynomial < 0 on the closed range or >= 0 on it, an interior zero only if it vanishes identically; "
                  "subdivision_halves - the generated subdivide_n 6 0.5 returns the sections of the SAME polynomial over the two half ranges; one_crossing_at_most_one_zero - exactly one crossing gives at "
                  "most one zero strictly inside (one-sign-change case of variation diminishing, proved for any degree in Lemmas/NearestDescartes); find_bezier_roots_leaves / zeros_accounted - when the loop "
                  "ends, the sections it did not subdivide tile [0,1], and every zero in (0,1) (A) lies in a leaf with one crossing that passed flat_enough and contributed ONE value, or (B) is within 2^-49 "
                  "of a returned value (depth limit of commit 24cd67f), or (C) has a neighbourhood with quintic >= 0; nearest_t_within(_distance) - hence nearest_t is within 2 M delta (squared distance; sqrt(2 M delta) in "
                  "distance units) of the global minimum provided the loop ends within its fuel and FlatLeavesWithin delta holds. path_closest_point_argmin - the fold returns the FIRST curve of least distance with its own index, parameter, point, "
                  "sqrt(distance^2); (0, 0, sqrt(f64::MAX), origin) for a path without curves (there is no None). Flat leaves after repair 914de05 (Props/C09Leaf; find_x_intercept keeps the Newton-Raphson result only when it is a parameter of the section and bisects otherwise - before the repair a monotone but "
                  "curved section could report the root of ANOTHER section and lose its own: nearest_t returned an end point 16 units away, 4 queries in 1.6 million): find_x_intercept_in_unit / flatValue_in_section - "
                  "whatever Newton-Raphson computes, the value reported for a section over [a,b] lies in [a,b]; bisect_fold / find_x_intercept_bisection_spec - the generated bisection loop keeps 0 <= low <= high <= 1, "
                  "halves the interval every iteration, keeps the sign class at low and the other class at high: after 64 iterations the result is the mid point of an interval of width 2^-64 across which the "
                  "polynomial changes class; one_crossing_ends_differ - one crossing of the control polygon puts the two ends in different classes; over R (intermediate value theorem) bisection_near_zero / "
                  "bisected_leaf_near_zero - a section that was bisected reports a value within (b-a)/2^65 of one of ITS OWN zeros. "
                  "NOT proved (named hypothesis FlatLeavesWithin, now needed only for the branch in which the Newton result is kept): that the value reported for a flat "
                  "one-crossing leaf (30 Newton steps from the chord intercept) is close to that leaf's zero; and that the loop ends within the model's fuel of 100000 iterations (observed: the bit-exact "
                  "mirror would differ otherwise). Both are decided on the real code: the search compares with a brute-force minimum for every curve/query class and counts, for every sign change of the quintic, how closely find_bezier_roots returns it "
                  "(counters quintic.sign_change.*: 99.9 % within 1e-9, all within 1e-3 in parameter); the driver checks that every mirrored run of the loop ends within 2000 iterations (observed maximum 191).",
    "level_note": "The 0.01-unit accuracy of C09 is therefore: proved mechanism + measured flat-leaf accuracy. flat_enough compares max(0, signed distance) with 0.1, i.e. bounds the control polygon on ONE side of "
                  "the chord only (reported). Theorems about the root finder are for N = 6 (the instance nearest_t uses); the correspondence exercises N = 2..9. " + COMMON_NOTE,
    "rule": "corr (all bit-for-bit, no tolerance: every operation of the model is the IEEE operation of the code in the same order): find_bezier_roots on control polygons N = 2..9 (random, prescribed roots inside/outside, "
            "double/triple roots that run into the depth limit, roots at 0/1, zero / one-signed / tiny / huge / dyadic coefficients, non-unit x range); nearest_point_on_curve_bezier_root_finder, nearest_t, "
            "nearest_point, distance_to on 19 curve classes x 10 query classes (1 in 8 on a dyadic grid); path_closest_point on chains of 1-5 curves and the empty path; with cargo feature hook_c09_quintic and "
            "hooks/C09_distance_in_bezier_form.diff also the 12 coefficients of the private distance_in_bezier_form. search: curves in a 100-unit box (arches, S-curves, loops, cusps, near-lines, points, coincident control "
            "points, closed) x query points (inside/outside hull, far away, on the curve, on the medial axis of two branches, at end points); nearest_t within [0,1] and within 0.01 of the brute-force minimum "
            "distance; nearest_point/distance_to consistency; path_closest_point against the per-curve minimum. Non-trivial: minimum not at an end point / at least one root returned / more than one curve; distinct by input.",
    "trusted_base": ["Model/Nearest.lean: literal hand model of the private distance_in_bezier_form (iterator chains, in-place `+=`), tied by the bit-exact nearest_t mirror and, with the optional hook, coefficient by coefficient",
                     "translator: final `into_inner`/`reverse` of subdivide_n is the configured tail `(first_weights, reverse second_weights)`; fuel 100000 for the loop of find_bezier_roots, 64 for de_casteljau_n",
                     "search oracle: 1/4000-grid brute force with golden-section refinement on an evaluation independent of the library"],
    "assumptions": ["FlatLeavesWithin: accuracy of flat_enough + Newton on a one-crossing leaf (numerical; measured by the search)",
                    "the loop of find_bezier_roots ends within the model's fuel (100000 iterations)",
                    "exact real arithmetic in the theorems; squared distances below f64::MAX in path_closest_point_argmin"],
}

PROPS["C07"] = {
    "title": "Point-in-path agrees with the winding number",
    "gen_modules": ["Consts", "Basis", "Lines", "CurveLine", "FatLine", "Walk", "Normal", "Ray", "PointInPath", "PathRev", "Bounds", "CurveBounds"],
    "props_modules": ["C07", "C04", "C14", "C06", "C06Path"],
    "corr_n": (4000, 80000),
    "search_n": (200, 4000),
    "technique": "Lean 4 theorems about path_contains_point translated WHOLE (bounds test, ray, loop with break, signed sum, != 0; ray_collisions as a parameter) and normal_at_pos / tangent_at_pos from "
                 "point.rs / normal.rs on every run, plus a combinatorial winding number of closed polygons with a proof of ray independence + bit-exact Float mirror fed with the real collision lists "
                 "+ exact winding-number oracle on the real code",
    "level_text": "Partial. Proved for every path, point and WHATEVER ray_collisions returns (any ordered field): path_contains_point is false outside the bounding box and otherwise is exactly "
                  "'the sum of signum(ray_direction . normal) over the collisions met before the first one with line_t > 1.0 is not 0' (contains_eq_signed_sum; for a list sorted by line_t these are the "
                  "collisions with line_t <= 1, counted_eq_filter_of_sorted); the ray starts strictly beyond the maximum corner of the box in both coordinates and ends at the point "
                  "(ray_starts_outside_box); the summand is the sign of tangent x ray_direction, the normal is the tangent turned a quarter turn, the tangent is the derivative of the curve at the "
                  "nudged parameter (direction_eq_cross_sign, normal_is_rotated_tangent, tangent_is_derivative); the answer does not depend on the order of the list, on the starting vertex, or - when "
                  "the counted collisions are transversal - on the direction of the path, GIVEN that ray_collisions returns the correspondingly re-labelled collisions (contains_perm_invariant, "
                  "contains_start_vertex_invariant, contains_reversal_invariant, where the reversed curve list is the one of the generated BezierPath::reversed: reversePath_eq_reversed; tangent_collision_not_negated shows transversality is needed). Winding number: for every closed polygon, every point off "
                  "its edges and any two rays whose lines avoid the vertices the signed crossing counts agree (winding_ray_independent: no topology, sector indicator + Pluecker relation + telescoping "
                  "around the cycle; rayCross_ne_zero_iff_meets ties the crossing number to actual segment/ray intersection); a point outside a box containing the vertices has winding 0 "
                  "(winding_zero_outside_box: the early return is sound); every crossing of the code's ray lies before the corner (crossings_before_corner). Link (polygon_contains_iff_winding): for a "
                  "polygon given as a path of straight edges (as line_to builds them), IF the collision list is faithful (the counted collisions are exactly one per edge crossing the ray), "
                  "path_contains_point = (winding number along ANY ray in general position != 0). NOT proved, searched on the real code only: that ray_collisions is faithful and equivariant "
                  "(crossing search + the clean-up filters of ray.rs), and curved edges (Jordan-curve content): decided by the exact winding-number oracle on circles, blobs, polygons.",
    "level_note": "The theorems of C04 (curve_intersects_ray: every hit is on the curve and the line, every root in [0,1] is reported given the solver contract) and of C14 (the ray_collisions pipeline) are obligations of this check too: they are the chain from the collision list to the code anchored for C07 (curve_line.rs, ray.rs), so a change there breaks this check's tie as well. ray_collisions (ray.rs:702 and its filters) is a parameter of every theorem, not modelled. The correspondence feeds the model with the list the real ray_collisions returns through its "
                  "only public door, GraphPath::ray_collisions, which normalises the path direction: only clockwise paths (the others after reversal) whose graph keeps all curves are tied. "
                  "signum(0) = 1 in the theorems (binary64: the sign of the zero decides); in binary64 max + 0.01 = max for |max| >= 2^47, so ray_starts_outside_box is an exact-arithmetic statement. " + COMMON_NOTE,
    "rule": "corr: random closed paths (circles, rotated circles, blobs, convex/concave polygons, grid rectangles, L shapes, polygons with collinear vertices; either direction, any start vertex) x 10 query "
            "points each (uniform in/around the box, level with vertices, ray through a vertex, on the boundary, on a vertex, ray towards an edge end, near the boundary - none excluded): the generated "
            "path_contains_point at Float on the real bounding box, curves and collision list must return the implementation's answer, must ask ray_collisions for the same ray bit for bit, and every "
            "normal and direction must agree bit for bit; plus normal_at_pos / tangent_at_pos on single curves incl. t = 0, 1, eps, 1-eps, outside [0,1]. The hypotheses of the theorems are evaluated on the "
            "real lists and counted (hypothesis.*: stop-closed order, faithful list for polygons in general position, start-vertex equivariance). search: path_contains_point vs the exact "
            "winding number of two flattenings (48 / 384 segments per curve), reversal and start-vertex invariance, 100 points per path; points within 0.1 of the boundary or violating the "
            "precondition are excluded and counted (the latter are still evaluated and their agreement counted under outside_precondition.*). Non-trivial: at least one counted collision; distinct by input.",
    "trusted_base": ["ray_collisions is not modelled (parameter); its output is taken from the real code in the correspondence",
                     "search oracle: winding number by signed crossings of a horizontal ray on two flattenings of the path (harness/src/shapes.rs)"],
    "assumptions": ["theorems are over exact arithmetic (any ordered field; signum 0 = 1, no NaN); `as i32` maps 1 to 1 and -1 to -1 (I32Spec)",
                    "invariance and winding theorems assume what they state about the result of ray_collisions (re-labelled / faithful list); 0 <= f64::EPSILON <= 1, EPSILON != 1"],
}

PROPS["C14"] = {
    "title": "Ray casting against a closed path is ordered and has even parity",
    "gen_modules": ["Consts", "Basis", "Lines", "CurveLine", "FatLine", "Walk", "Normal", "Ray"],
    "corr_n": (2000, 40000),
    "search_n": (1000, 20000),
    "technique": "Lean 4 theorems (side-test soundness, inert filters, balanced-graph parity, per-edge parity over the reals via the intermediate value theorem, "
                 "comparator = position order outside the tie window, stable-sort lemmas, concrete witnesses of the comparator defects) about kernels translated from "
                 "path/ray.rs and graph_path/*.rs on every run plus a literal hand model of the pipeline glue + bit-exact Float mirror of the whole of ray_collisions",
    "level_text": "Translated on every run: ray_can_intersect, curve_is_collinear, crossing_edges, both collinear-section filters, collision_is_at_start/end, edges_are_glancing, "
                  "remove_tangent_collisions, flag_collisions_at_intersections, the sort comparator (closure of ray_collisions), edges_overlap, control_points_overlap, tangent/normal_at_pos, "
                  "to_unit_vector, pos_for_point and GraphPath's RayPath implementation. Proved for ALL paths, graphs and rays over any ordered field: WrongSide is answered only when the signed distance "
                  "keeps one sign on the whole edge (Bernstein form), so no transversal crossing is pruned; the collinear branches need both end vertices within 0.001 of the ray; under the precondition "
                  "(no collinear edge, no hit within 0.001 of its edge's end vertices, tangent filter keeps every hit - implied by 'every vertex 0.1 away, nowhere tangent': far_start_not_collinear, "
                  "far_vertex_not_near) every filter is the identity and the collisions before the sort are exactly the solver's hits on the edges passing the side test (filters_inert), each returned collision "
                  "is such a hit with edge, parameter, line position and point unchanged and - with C04's curve_intersects_ray - lies on its edge and on the ray (collision_on_edge_and_ray); in a balanced "
                  "graph (every closed path; checked on every real graph by a test proven sound) the number of edges whose ends lie on different sides is even, hence the number of collisions is even "
                  "given the per-edge fact 'odd number of hits iff ends on different sides' (collisions_even), which is proved over the reals for an exact solver and simple roots by the intermediate value "
                  "theorem (edge_parity; assembled: ray_collisions_even); the sort only permutes; outside the tie window the comparator IS the comparison of line positions, a total preorder, and the "
                  "output is sorted by position (sorted_outside_window); any list ordered by the comparator is ordered by position up to ties (sorted_up_to_ties). "
                  "The model (generated kernels + hand-written loop glue + stable sort) reproduces GraphPath::ray_collisions bit for bit on closed paths and collided graphs incl. rays through vertices, "
                  "along edges, tangent, through shared edges, nearly coincident boundaries.",
    "level_note": "Partial. Exact arithmetic, exact cubic solver (contract) and simple roots are hypotheses of the parity chain; binary64 rounding and the real solver are covered by the search only (1/2000-grid sign "
                  "changes per edge, sortedness, evenness, on-edge/on-line 1e-6). Inside the tie window (positions within 0.001 in x and y on 'overlapping' edges) no order theorem holds, because the comparator "
                  "is not a total order - recorded as theorems with concrete witnesses: edges_overlap is not symmetric and the comparator not antisymmetric (control_points_overlap compares signed distances "
                  "without abs and tests cp2_b twice), control points 49 units apart 'overlap', and the position/priority mix is not transitive (sort result depends on input order). "
                  "On real graphs the generated comparator is inconsistent on about 1 ray in 3000 over nearly coincident shapes (the driver detects it and then compares multisets only; Rust's sort may panic "
                  "there: known finding of C01/C11/C12). The loop of crossing_and_collinear_collisions and the stateful vertex filter are a literal hand model tied by the bit-exact run, not by translation; "
                  "the `expect` of ray.rs:575 is a panic site the model replaces by a default. " + COMMON_NOTE,
    "rule": "corr: graphs = fixed corpus of tangent / identical / shared-edge pairs, random closed paths of every shape kind, collided pairs of every relation class, nearly coincident pairs (incl. the "
            "known total-order panic pair) and one fixed instance of an output not ordered by position; 10 rays per graph of classes random, axis-parallel, offset from a vertex coordinate, through (shared) edge "
            "interior, through a vertex, through two vertices, along a straight edge, tangent to an edge. The transcript carries the graph as the RayPath interface exposes it, the real curve_intersects_ray "
            "result per edge and the real ray_collisions output; the driver compares reverse_edges_for_point, balance, the collisions as a multiset, order by the generated comparator, and the exact order "
            "whenever the comparator is a total preorder on the list (counted as float_mirror_compared). search: the property itself on the real code (closed paths, collided pairs of every relation class, nearly coincident pairs) for rays inside the precondition (20 per graph): "
            "evenness, each collision on its edge and on the line (1e-6), order (ties = within 0.001 in x and y on edges that run within 0.0015 of each other), count per edge = sign changes on a 1/2000 grid. "
            "Non-trivial: the ray meets the graph; distinct by input.",
    "trusted_base": ["hand model Model/Ray.lean of the loop of crossing_and_collinear_collisions, the vertex-filter closure, the pipeline composition and the stable sort (tied by the bit-exact correspondence run)",
                     "curve_intersects_ray is a parameter of the model (C04); its real results are fed to the model in the correspondence run",
                     "search oracle: sign changes of the signed distance on a 1/2000 grid of each edge"],
    "assumptions": ["exact arithmetic, exact cubic solver and simple roots (nowhere tangent) for the parity theorems", "graph balanced (in-degree = out-degree at every vertex): checked on every real graph, proved for closed vertex cycles",
                    "NaN-free inputs (partial_cmp never fails in the model)"],
}

PROPS["C03"] = {
    "title": "Colliding path graphs yields a planar, balanced, shape-preserving graph",
    "gen_modules": ["Consts", "Basis", "Section", "Clockwise"],
    "props_modules": ["C03", "C03Split", "C03Orient"],
    "corr_n": (600, 6000),
    "search_n": (4000, 60000),
    "extended_factor": 2,
    "technique": "Lean 4 theorems (invariant preserved by every structural operation of the collision stage, for all graphs and all arguments; proven decidable checker; split algebra over the translated "
                 "subdivision) about a literal hand model of GraphPath + stage-by-stage exact replay of the real detect_collisions through hook H5 (verif_collide_trace) + geometric search",
    "level_text": "Partial. ORIENTATION (Props/C03Orient, Gen/Clockwise - points_are_clockwise, the test from_path starts with, generated and bit-exact, op cw): it is the sign test 0 <= sum (x_{i+1}-x_i)(y_{i+1}+y_i) over the closed polygon "
                  "(points_are_clockwise_eq), that sum is the shoelace sum (closed_edgeSum_eq_crossSum), changes sign under reversal (edgeSum_reverse, closed_reverse), does not depend on the start vertex (closed_rotate, clockwise_rotate), "
                  "so exactly one of a point sequence and its reversal is clockwise unless the area is zero (one_direction_clockwise) - what from_path's reversal of anticlockwise paths relies on. " "PROVED for every graph and every value of the geometric decisions (which sections from_path skips, which collisions find_collisions returns - any number per edge, "
                  "coinciding, at t=0, on the edge's own end points -, which nearby points are merged - chains, repeats, pairs joined by an edge -, which self-loops are judged very short): the invariant "
                  "Wf (every edge ends at an existing point; every edge is the following edge of exactly one edge, which ends at its start point - the library's check_following_edge_consistency in "
                  "counting form; connected_from lists existing points, none twice, and every point with an edge to this one) holds after from_path and is preserved by merge, by the edge-dividing loops "
                  "(create_collision_points, organize, sort, chain of following_edge_idx), recalculate_reverse_connections, combine_overlapping_points (index remapping with following-index offsets) and "
                  "remove_edge / remove_all_very_short_edges (self-loops), hence by detect_collisions / collide / self_collide and any sequence of them; remove_all_very_short_edges never meets a missing "
                  "preceding edge (so its while loop advances). Wf implies BALANCE (in-degree = out-degree at every point) and that reverse_edges_for_point lists every incoming edge exactly once. "
                  "Labels: dividing an edge at k points adds k edges with its label and relabels nothing; the dividing stage introduces no label; merging points keeps every label count; remove_edge "
                  "removes one edge of the removed edge's label. wfCheck / connExactCheck are proved sound and complete and are evaluated on the REAL graphs after every stage. Hit selection: of the two "
                  "representatives of a crossing at an edge joint the one at t=0 of the following edge is kept and re-uses the vertex; the 'move to the following edge' code is dead. "
                  "Split algebra (C03Split, over the subdivision regenerated from BezierCurve::subdivide): dividing at t1..tk with the code's re-parameterisation yields exactly the sections "
                  "[0,t1],[t1,t2],..,[tk,1], so in exact arithmetic dividing preserves the traced point set. "
                  "NOT proved (numerical, searched on the real code): every crossing is found (planarity of the result), the 0.05 shape bound after snapping to vertices and merging points.",
    "level_note": "The structural model (Model/Graph.lean) is hand-written - Vec/SmallVec mutation in place is outside the translator's subset; it is tied to the code by replaying every stage of the real "
                  "detect_collisions exactly (indices, following_edge_idx, connected_from, labels, and the control points of divided edges bit for bit at Float). Findings recorded as theorems: "
                  "remove_edge leaves a stale self entry in connected_from (removeEdge_leaves_stale_entry; the code keeps connected_from as a duplicate-free superset, not exact), remove_edge is only "
                  "correct for self-loops and needs complete connected_from (two witnesses), crossings at a vertex of both paths are dropped by find_collisions and rely on combine_overlapping_points "
                  "(vertex_vertex_hits_all_dropped). Without hook H5 in the source the correspondence falls back to the public queries (from_path, merge, final graph). " + COMMON_NOTE,
    "rule": "corr: the tangent/shared-edge corpus in 4 variants, then per case one of: random pair over the C01 relation classes (independent, grid aligned, concentric, identical, tangent, centred on vertex, "
            "sets with holes), a self-intersecting/degenerate path (bow tie, looped cubic, tear drop, repeated vertex, pentagram, 1-2 points) against a shape, a pair collided and the result collided "
            "with a third shape, a set of 2-4 shapes self-collided. Every from_path (decisions recomputed through the public predicates), every merge and every stage of detect_collisions "
            "(start, split, recalc, combined, end + the public view of the result) is compared exactly with the model replayed from the recorded collisions / merged pairs / removed edges; "
            "the proven checkers run on every real stage. Non-trivial: at least one collision or merged pair (from_path: at least 2 kept sections); distinct by transcript line. "
            "search: the same classes on the real code: indices valid, balance, reverse edges once, each input point within 0.05 of an edge of its label and vice versa, no transversal crossing of two "
            "edges away from their ends (exact crossings by hull subdivision + Newton).",
    "trusted_base": ["hand-written model Model/Graph.lean of the GraphPath structure and Model/GraphSplit.lean of the dividing loop's geometry (tied by exact stage-by-stage replay, not by translation)",
                     "hook H5 verif_collide_trace / GraphPath::verif_dump (cfg-gated, add-only): read access to the private structure and to the decisions of detect_collisions"],
    "assumptions": ["t values are not NaN (sort_by on the collisions of an edge is modelled as a stable sort by a total preorder)",
                    "collisions name existing points (by construction in find_collisions)",
                    "theorems about curves are over exact arithmetic"],
}

PROPS["C20"] = {
    "title": "Core queries are total on finite input",
    "props_modules": ["C20", "C20Roots", "C20Clip", "C20Self"],
    "gen_modules": ["Consts", "Basis", "Section", "Lines", "FatLine", "CurveLine", "CurveBounds", "Walk", "Fit", "Nearest", "Length", "PointInPath", "Normal", "Total", "Roots", "Offset", "SelfIntersect"],
    "corr_n": (24000, 300000),
    "search_n": (1000, 100000),
    "technique": "Lean 4 theorems 'finite in, finite out' about definitions translated from the Rust source on every run, instantiated at XQ (exact rationals with the IEEE-754 rules for "
                 "signed zeros, x/0, 0/0, inf-inf, 0*inf, sqrt of negatives, unordered NaN comparisons), work-bound theorems for the translated loops + class-exact correspondence of the same "
                 "instance and of the Float mirror with the real code on degenerate inputs + degenerate catalogue x every core operation on the real code (panic / hang / non-finite)",
    "level_text": "Partial. in_loop_cases (Props/C20Self; self_intersection.rs is generated since session 4): for any clipper and any depth, find_intersection_point_in_loop answers with its last arm on a dyadic subsection whose halves are both loops or both not - there is no other case, so the function is total (before repair F25, f1b829b, the same theorem had a third case, the unimplemented!() reached exactly when both halves are characterised as loops: it located the panic that a directed search then reproduced on nearly cusped loops); self_intersection_ordered / self_intersection_close: a reported pair has 0 <= t1 <= t2 <= 1 and names points as close as the clipper guarantees; find_self_intersection_point_none. " 
                  "line_clip_to_bounds_fin (Props/C20Clip, the function generated since session 4): a returned segment is finite for every finite line and box - edge/delta is only reached after delta == 0.0 answered false "
                  "(foldlRet_inv / foldlRet_inr: invariant and return-value lemmas for a for-loop with state that can return). " "PROVED for ALL finite inputs, degenerate ones included (coincident control points, point lines, parameters 0 and 1, empty and reversed sections, zero and negative "
                  "distances and tolerances): every number returned is finite - every division the code reaches has a non-zero divisor thanks to its guard, and every non-finite intermediate value "
                  "the code does produce is discarded by a comparison before it reaches the result - for: basis / de_casteljau2-4 / point_at_pos / subdivide / reverse / derivative / coefficients; "
                  "CurveSection new, t_for_t, subsection, original_curve_t_values, start/end/point_at_pos and control_points (repaired guard t_c >= 1); line_coefficients_2d_unnormalized and "
                  "line_coefficients_2d (a point line gives exactly (0,0,0)), distance_to, pos_for_point; line_intersects_line / _ray (unguarded division made harmless by the range test), "
                  "ray_intersects_ray (RAY_DIVISOR guard); FatLine from_curve, from_curve_perpendicular, distance_curve; clip_t and clip (finite for EVERY input, finite or not); polish_root (for every "
                  "polynomial), solve_roots (relative to the external solver), curve_intersects_ray / _line (for WHATEVER the external root solver returns, NaN included); find_extremities (finite "
                  "for every input: the quadratic formula divides by 0 for every curve with a linear derivative and the range test filters it), bounding_box4, fast_bounding_box, union_bounds; "
                  "magnitude, distance_to, chord / control polygon length; walk_curve_evenly (constructor: positive distance and tolerance), EvenWalkIterator::next (for max_error > 0 or "
                  "distance != 0 - necessary: witness), the repaired vary_by step (keeps that hypothesis at every step, varied distances 0 and negative included), UnevenWalkIterator::next (n = 0 "
                  "yields nothing); fit_line, newton_raphson_root_find (any curve), the determinant guard of generate_bezier, the worst-point selection of max_error_for_curve (finite error; interior split position "
                  "1 <= split_pos < len-1 whenever the error is positive - the index used at fit.rs:212 after repair 022a471 - given that the first and last sample errors vanish), nearest_point_on_curve_bezier_root_finder (finite whatever "
                  "find_bezier_roots returns); to_unit_vector, tangent_at_pos, normal_at_pos; offset_by_moving, offset_by_scaling (when the normals' intersection differs from both end points); "
                  "curve_hull_length_sq; section_length / curve_length (the whole stack loop translated: finite after any number of iterations, for every tolerance). PROVED NEGATIONS (not total; "
                  "witness + reproduced on the real code): LineCoefficients::nearest_point of a point line (for ANY two points; known finding); offset_by_scaling when the end normals meet at the "
                  "start point (known finding); EvenWalkIterator::next with distance = max_error = 0 (unreachable since repair b75d9d0); FatLine::solve_line_y on a vertical hull edge (internal, "
                  "discarded by clip_t); section_t_for_original_t of an empty section (outside the enumerated operations: informational). WORK BOUNDS PROVED: even_walk_next's controller loop "
                  "leaves within 32 iterations for every input; section_length empties its stack within 2^(k+1) iterations, k = ceil(log2(max_error/1e-12)), for every curve (the fuel 10^6 of the "
                  "translation is never exhausted for max_error <= 2.6e-7); the find_bezier_roots skeleton terminates within 2^(MAX_DEPTH+1) iterations. NOT proved, searched on the real code "
                  "only: panics, stack depth, time; the path boolean operations, point containment, the curve/curve clipping recursion, offset_lms, fit_curve_cubic's least squares, "
                  "self-intersection (no translated numeric kernel: degenerate catalogue x operation, every call under catch_unwind with a 3 s work bound).",
    "level_note": "XQ arithmetic is exact: rounding, overflow and underflow are OUT of the theorems' scope (a finite exact result whose binary64 value overflows; a*a+b*b underflowing to 0). Guards that "
                  "test the computed divisor itself (factor == 0.0, denominator == 0.0, |divisor| > 2e-12, aa != 0.0, |speed| < 1e-8, |det| < 1e-4, magnitude == 0.0) do not depend on exactness; "
                  "t_c >= 1.0 for the divisor 1.0 - t_c and 'a, b not both 0' for sqrt(a*a+b*b) do. f64::sqrt is any function with sqrt q >= 0 and sqrt q = 0 iff q = 0. The work bounds are honest "
                  "but not 'proportional to the input size': section_length's only unconditional bound is the MIN_ERROR floor (3e10 iterations for max_error = 0.01; that the flatness test "
                  "accepts long before is not a theorem), find_bezier_roots' is 2^49 - a theorem about the GENERATED loop (Props/C20Roots: the control skeleton Model.Total.rootsLoop is proved to BE the generated loop, step by step and for every fuel - specStep_simulates, runSpec_eq_rootsLoop - so find_bezier_roots_loop_terminates holds for the code as translated; needs the Gen module Roots), the number of sections of an even walk has no bound (every section has positive parameter length - C15Progress - but a lower bound is not a theorem). "
                  "section_t_for_original_t of an empty section (non-finite for every t: proved) is a parameter conversion outside the operations the property enumerates; the catalogue counts it "
                  "(info.section_t_for_original_t_empty_section_non_finite) and the library's own use (join_subsections) only compares the value. " + COMMON_NOTE,
    "rule": "corr: curve classes all/three/last-three control points equal, collinear (also horizontal, vertical, overshooting), closed, control points at the ends / coincident, generic; scales 1, 1e-9, "
            "1e6, 1e-3, 1e3; parameters 0, 1, 1/2, k/16; sections a=b=0, a=b=1, a=b, whole, reversed, proper; lines: point lines, horizontal, vertical, chord, start tangent, generic; distances and "
            "tolerances 0 and negative. Operations eval (point, tangent, normal, unit vectors, subdivide), sec, line (coefficients, distance, nearest point, pos_for_point), lines (three "
            "intersection functions), fat (both fat lines, clip_t against a second degenerate curve), bbox, cray (curve/ray with the solver's raw roots from hook H3), walk (even, to the end or "
            "400 sections), vary (vary_by with a cycle of three distances incl. 0 and negative), uneven (n in 0,1,2,7,49), len (curve_length incl. tolerance <= 0), unit. Every output number: class "
            "(finite/NaN/+inf/-inf) of the Float mirror = class of the implementation, exact model finite iff implementation finite; values: Float mirror within 1e-9 relative (bit equality "
            "counted), exact model exactly equal on the dyadic stream for the rounding-free kernels. search: the deterministic catalogue (14 curve entries x 3 (quick) / 7 (thorough) scales, "
            "8 lines, 13 point sets, 17 paths) x every core operation, outcome finite / non_finite / panic / hang. Non-trivial: a degenerate class; distinct by input.",
    "trusted_base": ["XQ (Prelude/XQ.lean, XQExt.lean) as the model of binary64 without rounding: tied by the class-exact correspondence run",
                     "Model/Total.lean: literal hand models of VaryingWalkIterator::next's field updates (tied by the vary correspondence) and of find_bezier_roots' control skeleton (not tied: numeric parts abstract)",
                     "external solvers (crate roots) and find_bezier_roots are parameters of the finiteness theorems (no contract needed)",
                     "for the operations without a translated kernel the search catalogue is the only evidence"],
    "assumptions": ["inputs are finite (no NaN, no infinity); results are finite up to overflow/underflow of binary64, which exact arithmetic does not exhibit",
                    "EvenWalkIterator::next: max_error > 0 or distance != 0 (established by the constructor and kept by the repaired vary_by: both proved)"],
}

PROPS["C02"] = {
    "title": "Curve-curve intersection is sound and complete in either argument order",
    "gen_modules": ["Consts", "Basis", "Section", "Bounds", "CurveBounds", "Lines", "FatLine", "CurveClip", "CurveLine", "Overlaps", "LinearFallback"],
    "props_modules": ["C02", "C02Overlap", "C02Sound", "C13"],
    "corr_n": (20000, 200000),
    "search_n": (3000, 60000),
    "extended_factor": 2,
    "technique": "Lean 4 theorems about curve_intersects_curve_clip_inner, join_subsections, curve_hull_length_sq, fast_bounding_box and clip translated WHOLE from curve_curve_clip.rs on every run "
                 "(the function's recursion is open: its two calls to itself are a parameter, Model/CurveClip.lean ties the knot with a depth), and about overlapping_region, solve_curve_for_t_along_axis (t_for_point) and "
                 "intersections_with_linear_section translated whole as well (only the two external root solvers of the roots crate remain parameters); end-to-end soundness theorem over all of them "
                 "+ bit-exact Float mirror of the whole recursion and of each callee against the real functions (hooks H1, H3, H6) + independent crossing oracle on the real code",
    "level_text": "Partial. Proved for all pairs of cubics, all accuracies, all recursion depths and ANY pair of callee functions, over any ordered field (sqrt arbitrary): "
                  "(1) clip_never_loses: one clip step keeps every true intersection EXACTLY (C13 had a 1e-5 slack; snapping can only produce the ranges [0,0] and [1,1], which clip widens by 0.005); "
                  "(2) results_have_origin: every returned pair is the mid-parameter pair of two sections of [0,1] that passed the convergence test with overlapping boxes, or an overlap-shortcut answer, or a "
                  "linear-fall-back answer mapped through t_for_t - nothing else; (3) returned_parameters_in_range: all returned parameters lie in [0,1] if the callees' do; "
                  "(4) converged_pair_close: a pair from the loop's own exit has its two points within sqrt(12)*accuracy (0.035 for 0.01) unless a final section is is_tiny; "
                  "convergence_test_tiny_counterexample: for is_tiny sections (parameter length < 0.001, hull length defined as 0) the test passes with the two points 0.19 apart, curves inside the 100x100 box; "
                  "(5) search_complete: the overlap shortcut fired (once, on the whole curves), or a true intersection (s1,s2) is COVERED by a returned pair (mid-parameters of final sections containing s1 and "
                  "s2; covered_pair_near_intersection: within sqrt(3)*accuracy on either curve), or it is lost in one of the NAMED ways of LostCall/LostLoop, which follow the actual execution: recursion depth "
                  "exhausted, a section of hull length 0 at entry of a call, loop fuel exhausted, linear fall-back taken, a clip against a section whose end points are within 1e-7, join_subsections dropped the covering hit; no clip step and no "
                  "split loses it, and the two remaining `return smallvec![]` of the loop (clip answered None; final boxes do not overlap) are proved never to lose one "
                  "(return_on_clip_none_justified, return_on_box_reject_justified); (6) join_keeps_or_close: join_subsections only ever drops the first hit of the right list, and only if its point on the "
                  "first curve is within sqrt(2)*accuracy (0.0142 for 0.01, not 1 unit) of the kept last hit of the left list and their section parameters differ by < 0.1; join_invents_nothing; "
                  "(7) recursion_bounded / recursion_depth_irrelevant: the recursion is at most 20 deep (every split halves a section of parameter length >= 0.001, clipping never lengthens one), so the depth "
                  "parameter of the model is irrelevant from 21 on. "
                  "The generated function reproduces curve_intersects_curve_clip bit for bit at Float (every returned pair, both accuracies, all input classes). "
                  "(8) THE OVERLAP SHORTCUT (Props/C02Overlap, Gen/Overlaps - overlapping_region with its three inner functions and solve_curve_for_t_along_axis, i.e. t_for_point, are generated; "
                  "solve_basis_for_t, which ends in the roots crate, is a parameter): solve_for_t_sound / tForPoint_sound - for ANY root solver, t_for_point only answers a parameter in [-0.001,1.001] offered by the "
                  "solver whose curve point is within 0.05 of the point asked for, or exactly 0 / 1 for a point within 1e-9 of an end (repair F23); overlapping_region_origin - each reported pair of parameters is "
                  "an end point of one curve located on the other by t_for_point, and neither parameter pair is a single point; overlap_answer_points_close - hence the two points of each pair the shortcut reports "
                  "are within 0.05 of each other; overlapping_region_eq (choose first pair, choose second pair, common tail). Both generated functions reproduce the real ones bit for bit (ops tfp, ovl). "
                  "(9) THE LINEAR FALL-BACK (intersections_with_linear_section generated whole, Gen/LinearFallback; the real private function is reached through hook H6 and reproduced bit for bit, op lin): "
                  "linear_fallback_sound - for ANY root solvers every reported (linear_t, curved_t) belongs to a hit of curve_intersects_ray(curved section, ray through the ends of the linear section) and the linear "
                  "section's point at linear_t is within max(accuracy, CLOSE_DISTANCE) of that hit's position, or it is the short-section rescue (linear_t = 0.5, section ends within 0.1, hit within 0.05 of the mid point). "
                  "linear_fallback_points_close (with C04.hit_sound: the two points of a fall-back answer are within max(accuracy, 0.01), curved_t in [0,1]); solve_for_t_none (t_for_point is complete relative to the solver). "
                  "(10) END TO END (Props/C02Sound.returned_pairs_are_close): for the context whose callees are the generated overlapping_region / t_for_point / linear fall-back, all pairs of cubics, every accuracy >= 0, "
                  "every depth and ANY behaviour of the two external root solvers, each returned pair (t1,t2) is two points C1(t1), C2(t2) with squared distance <= 12*accuracy^2, or the mid-parameters of two final sections "
                  "one of which is is_tiny (the named exit of (4)), or two points within max(accuracy, 0.05) - nothing else is ever returned. "
                  "NOT proved: completeness of the linear fall-back (that the external solver returns every root) and that the overlap shortcut fires only for genuinely overlapping curves (its control-point comparison; external cubic solver; in practice every transversal crossing is reported through the fall-back - the loop's "
                  "own exit is taken in 20 of 200 000 correspondence cases, all of them overlapping pieces of one curve), termination, and therefore completeness and argument-order symmetry as such: these are decided on the real code by the search "
                  "(hull-subdivision + Newton oracle, both orders, accuracies 0.01 and 0.001), which also follows every required crossing through a shadow of the recursion and reports the named step that lost it.",
    "level_note": "Exact arithmetic (binary64 rounding bounded by the bit-exact mirror only). Repaired defect (bf6845a, hooks/fix_overlap_shortcut.diff): the overlap shortcut used to run in every recursive "
                  "call and misfired on sections that share an end point with the other curve, losing a second crossing in the same sections (about 1 required crossing in 2000): found by the search, located by "
                  "the named exits of search_complete; the theorems are about the repaired code, where the shortcut is outside the recursion. " + COMMON_NOTE,
    "rule": "pairs of cubics with control points in a 100x100 box: general position, near-linear, S-shaped, looped, sharing an end point, one a piece of a longer curve cut at / near a crossing; corr adds "
            "overlapping pieces of one curve, straight lines, a curve against itself, grid-snapped control points; accuracies 0.01 and 0.001, both argument orders. corr: the whole generated recursion at Float "
            "with the callees' answers taken from tables recorded by a shadow of the wrapper and the private inner function (built from public items and hook H1; its result must equal the real result bit for bit) - every "
            "returned pair bit-equal, a section pair missing from the tables shows up as NaN. search: every returned pair has parameters in [0,1] and points within 0.1; every transversal crossing of the "
            "oracle (sin > 0.05, not within 2% of an end, not within 1 unit of another crossing) is matched within 0.1 in both orders; each required crossing is followed through the shadow recursion: a clip "
            "step, None answer or box test that drops it contradicts the theorems and is a failure by itself. Non-trivial: the curves cross (search) / more than one loop iteration (corr); distinct by input.",
    "trusted_base": ["overlapping_region and intersections_with_linear_section (roots crate) are parameters of the theorems: their answers are not verified, only their use",
                     "hook H1 (FatLine) for the harness' shadow of the private inner function; the shadow only supplies the callees' answers and the diagnosis of lost crossings",
                     "Model/CurveClip.lean: three lines tying the recursion knot (depth parameter); Lemmas/CurveClip.inner_eq identifies the generated term with the compact form by rfl"],
    "assumptions": ["exact arithmetic in the theorems; sentinels 1 <= f64::MAX, f64::MIN <= 0",
                    "loop fuel is a parameter of the model (100000 iterations per call in the generated function; termination of the loop is not proved); the recursion depth parameter is proved "
                    "irrelevant from 21 on (the mirror runs with 200)"],
}

PROPS["C10"] = {
    "title": "Regular offsets follow the true parallel curve",
    "gen_modules": ["Consts", "Basis", "Section", "Lines", "FatLine", "Walk", "Fit", "PointInPath", "Offset", "Normal", "FitKernel", "Total"],
    "props_modules": ["C10", "C10Inflect", "C10Fit"],
    "corr_n": (4000, 100000),
    "search_n": (600, 20000),
    "technique": "Lean 4 theorems over definitions translated from the Rust source on every run (offset_lms_sampling, offset, offset_scaling, the whole body of subdivide_offset, "
                 "offset_by_scaling/moving, tangent_at_pos/normal_at_pos, to_unit_vector, characterize/features_for_cubic_bezier; the fitter offset calls is the generated fit_curve_cubic of C08) "
                 "+ a fuel knot for the recursion + bit-exact Float mirror of every translated piece, incl. every control point of the chains offset / offset_lms_sampling return, against the public API "
                 "+ search on the real code for the numerical part",
    "level_text": "Partial. WITH THE GENERATED FITTER (Props/C10Fit.offset_generated / offset_lms_sampling_generated, using C08Kernel): the curves offset(curve, d0, d1) returns are a connected chain from the first to the last sample and "
                  "EVERY one of the 33..129 samples - points exactly on the parallel curve C(t) + n(t)*d(t) - is within 0.1 of the chain at a parameter in [0,1], for every curve, feature class and offsets, "
                  "provided no three consecutive samples coincide; nothing in the fitting stage is abstract any more, and the driver compares EVERY CONTROL POINT of every curve that offset / offset_lms_sampling return with the generated functions over the generated fitter, bit for bit. " "find_inflection_points_complete / _sound (Props/C10Inflect): in the canonical form the generated find_inflection_points returns EXACTLY the roots in [0,1] of a*t^2 + b*t - 1 (a = -3+x+y, b = 3-x) "
                  "whenever |a| > f64::EPSILON (the guard as written; for the real square root) - the parameters at which offset_scaling / offset_lms_sampling cut the curve. " "PROVED for every curve, every feature class and EVERY feature parameter, both signs of d, over any ordered field (sqrt abstract: non-negative square root): "
                  "sections_tile / kept_sections_tile - the (t1,t2) sections that offset_lms_sampling and offset_scaling derive from features_for_curve (incl. the 0.0001/0.9999 snapping and the t1 != t2 filter) "
                  "tile [0,1]: first starts at 0, consecutive ones share their boundary, last ends at 1, 1..4 sections, each with t1 < t2; "
                  "sample_ts_eq / sample_ts_spec - the sample parameters are t1 + (t2-t1)/n*x per section plus a final 1.0: strictly increasing, first exactly 0, last exactly 1, n per section + 1; None iff n < 2; "
                  "offset_lms_sampling_eq / offset_lms_chain / offset_eq / offset_constant_chain(_fitCubic) - offset_lms_sampling is exactly the fitter applied to the samples C(t)+n(t)*d(t)+t(t)*o(t); with any fitter meeting C08's "
                  "contract (C08.FitsChain; C08's recursion skeleton of fit_curve_cubic is one) offset(curve,d,d) is a non-empty connected chain that starts EXACTLY at w1 + d*rot90(unit(C'(eps))) and ends EXACTLY at "
                  "w4 + d*rot90(unit(C'(1-eps))): the end points of the curve are exact, the normal is taken at the nudged parameter f64::EPSILON / 1-f64::EPSILON (tangent_nudge_zero/_one/_cross and start_deviation_sq "
                  "give the exact difference of the tangent, the sine of the nudge angle and the squared distance from the ideal point); "
                  "normal_at_pos_eq / normal_perp_tangent / normal_same_length / to_unit_vector_zero / to_unit_vector_spec / unit_normal_spec / hodograph_is_derivative / tangent_at_zero_of_coincident - the 2-D normal is the tangent "
                  "rotated by 90 degrees, the tangent is the derivative of point_at_pos, unit vectors have length 1 for non-zero input and the zero vector goes to the origin, the fallback for w1 = w2; "
                  "offset_scaling_eq / body_pieces / body_congr / subdivideOffset_fuel / subdivideOffset_pieces / offset_scaling_pieces / offset_scaling_chain - offset_scaling calls subdivide_offset once per kept section; the recursion stops "
                  "at MAX_DEPTH = 5 (the model's fuel is never exhausted); the result is a chain of leaf curves over sections that tile [0,1], it starts exactly at w1 + n*initial, ends exactly at w4 + n'*final, and at every joint the "
                  "left curve ends at C(m) + n_left*o(m) and the right one starts at C(m) + n_right*o(m) with the same curve point and the same offset o(m) = initial + (final-initial)*m but the unit normals of two different leaf sections "
                  "(unitNormalAt_eq: the curve's own unit normals at m - t_m*eps and m + t_m'*eps) - so the chain of offset_scaling is connected only up to that difference (observed: 0 or <= 1e-12 in 99% of the chains, <= 1e-9 in the rest), not exactly, even in exact arithmetic; "
                  "leaf_ends / offset_by_moving_tangents / offset_by_scaling_homothety / offset_by_scaling_start_tangent - both leaf constructors start/end exactly on the offset points; moving keeps the end tangents exactly; scaling is "
                  "an exact similarity about the focus (all tangents parallel) iff both ends ask for the same scale, otherwise the end tangent deviates by (s1-s0)/3 * (cp1-start) x (start-F); "
                  "split_params_spec / windows_have_positive_length / offset_scaling_leaf_sections / offset_scaling_leaf_normals - the repair (dedup_by(|a,b| |a-b| < 0.01) after the sort of the extremity list): the split parameters still start at 0 and end at 1, "
                  "every window is at least 0.01 long, every leaf section of offset_scaling has positive length inside [0,1], and every returned curve starts/ends at C(t) + o(t)*n(t -/+ t_m*eps) with the library's unit normal n of the ORIGINAL curve; "
                  "zero_length_unit_normal / zero_length_section_pieces - what a zero-length section would give (curves that start and end ON THE SOURCE CURVE): the defect that the repair removes. "
                  "Every translated piece is mirrored at Float and compared BIT FOR BIT with tangent_at_pos, normal_at_pos, to_unit_vector, characterize_curve, features_for_curve, the sample parameters of offset_lms_sampling "
                  "(observed through the offset closure), the first/last point of offset / offset_lms_sampling chains and every control point of every curve offset_scaling returns. "
                  "NOT proved (numerical, search only): the 1.5-unit two-sided distance between chain and parallel curve (least-squares fit / scaling heuristics), and the size of the joint gaps of offset_scaling.",
    "level_note": "find_self_intersection_point (loop position) is an input of the model taken from the implementation, not translated. fit_curve_cubic is represented by C08's contract / recursion skeleton. "
                  "The sample points of offset_lms_sampling other than the first and last, and the intermediate sections of subdivide_offset, are not observable through the public API (their effect is: the returned control points are compared). "
                  "The search found two defect classes of offset_scaling inside the property's preconditions: zero-length sub-sections from duplicate extremities (repaired in flo_curves 45c6336; the search class duplicate_extremity no longer fails), "
                  "and single scaled arches more than 1.5 units off for curves that turn by more than 90 degrees (known_findings.json). " + COMMON_NOTE,
    "rule": "corr: curves of every search class, every degenerate class of cshapes (points, coincident control points, cusps, loops, lines) and small integer / dyadic grids (exact ties of the classification); operations normal "
            "(t = 0, 1, eps, 1-eps, -0, interior, outside), features (with characterize_curve), lms (subdivisions 0,1,2,3,5,8,32,33; constant, integer, variable, zero, sign-changing offsets; optional tangent offset), offset, scaling; "
            "comparison is bit equality of every number (NaN = NaN). search: curves in a 100-unit box (arch, S-curve, two inflections, near-line, line, gentle/any random, duplicate_extremity = 5-unit grid curves whose "
            "find_extremities list repeats a parameter), 1 <= |d| <= 8 with |d|*kappa_max <= 1/2 and speed >= 1 on a 400-grid (others excluded and counted), the three functions: finite non-empty chain, ends within 1e-6 of "
            "C(0)+d*n(0) / C(1)+d*n(1), joints within 1e-6, both directed distances to a 4000-sample parallel curve <= 1.5 (refined when near the limit). Non-trivial: every evaluated case (a regular curve with a non-zero offset); distinct by input.",
    "trusted_base": ["Model/Offset.lean: the fuel knot of subdivide_offset (body generated; fuel shown sufficient by subdivideOffset_fuel)",
                     "find_self_intersection_point is a parameter of features_for_cubic_bezier (its value comes from the implementation in the correspondence run; the theorems hold for any value)",
                     "search oracle: 4000-sample parallel curve built from the library's own normal_at_pos, itself checked against an independent derivative at 5 parameters"],
    "assumptions": ["sqrt is exact (SqrtSpec) where lengths are involved; f64::EPSILON is an abstract constant with 0 < eps, eps != 1",
                    "the fitter meets C08's chain contract (proved for C08's skeleton under C08's hypotheses, max_error = 0.1 > 0)",
                    "NaN / infinite control points and offsets are outside the model's theorems (the Float mirror still reproduces them)"],
}
