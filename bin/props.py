"""Per-property configuration of bin/check: case counts (quick, thorough), the Gen modules the property's
theorems are stated about, the rule by which a case counts as non-trivial, trusted base and assumptions."""

PROPS = {
    "C05": {
        "gen_modules": ["Consts", "Basis", "Section"],
        "corr_n": (20000, 400000),
        "search_n": (20000, 400000),
        "rule": "corr: random operation (basis/point_at_pos/de_casteljau4, subdivide, section incl. control points, subsection, reverse, t_for_t and inverse) "
                "in 1-D/2-D/3-D, alternating a dyadic stream (coordinates k/8 in [-64,64], parameters k/16, sections with 1-a and b-a powers of two: "
                "model and implementation must agree exactly) and a real stream (tolerance 64..256 units of 2^-52 x control polygon size); "
                "boundary parameters 0, 1, a=b, a=1 are forced in. search: the identities of the property on the real code "
                "(zero tolerance on the dyadic stream). Non-trivial: parameter not 0/1 (section: a<b) and curve not closed onto its start; distinct by input bits.",
        "trusted_base": ["model of BezierPath::reversed is not translated: the path-level identities are checked on the real code by search only"],
        "assumptions": ["theorems are over exact arithmetic (any field of characteristic 0); binary64 rounding is bounded by the real-stream tolerance, not proved"],
    },
}
