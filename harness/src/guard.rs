//! Guards around calls into the library: a panic or a non-terminating call is an outcome, not the end of the run.
//!   `catch(f)`          runs `f` on the calling thread, a panic becomes `Err(message with location)`
//!   `guarded(secs, f)`  runs `f` on a helper thread; `Outcome::Hang` when it has not returned after `secs` seconds
//!                       (the helper thread is abandoned: callers must leave through `finish()` so the process exits)
use std::cell::RefCell;
use std::panic::{catch_unwind, AssertUnwindSafe};
use std::sync::atomic::{AtomicU64, Ordering};
use std::sync::mpsc::{channel, RecvTimeoutError};
use std::sync::Once;
use std::time::Duration;

/// An abandoned thread cannot be stopped; it is given the lowest scheduling priority instead so that the calls that
/// follow keep (nearly) a full core and their time-outs stay meaningful (Linux: nice values are per thread).
#[cfg(all(target_os = "linux", any(target_arch = "x86_64", target_arch = "aarch64")))]
mod prio {
    extern "C" { fn setpriority(which: i32, who: u32, prio: i32) -> i32; fn syscall(num: i64, ...) -> i64; }
    #[cfg(target_arch = "x86_64")] const SYS_GETTID: i64 = 186;
    #[cfg(target_arch = "aarch64")] const SYS_GETTID: i64 = 178;
    pub fn thread_id() -> u32 { unsafe { syscall(SYS_GETTID) as u32 } }
    pub fn lowest_priority(tid: u32) { if tid != 0 { unsafe { setpriority(0, tid, 19); } } }
}
#[cfg(not(all(target_os = "linux", any(target_arch = "x86_64", target_arch = "aarch64"))))]
mod prio {
    pub fn thread_id() -> u32 { 0 }
    pub fn lowest_priority(_tid: u32) {}
}

thread_local! { static LAST_PANIC: RefCell<String> = RefCell::new(String::new()); }
static HOOK: Once = Once::new();
static ABANDONED: AtomicU64 = AtomicU64::new(0);

/// replaces the default panic hook by one that prints nothing and remembers message and location per thread
pub fn install_silent_hook() {
    HOOK.call_once(|| {
        std::panic::set_hook(Box::new(|info| {
            let msg = if let Some(s) = info.payload().downcast_ref::<&str>() { s.to_string() } else if let Some(s) = info.payload().downcast_ref::<String>() { s.clone() } else { "<non-string payload>".to_string() };
            let loc = info.location().map(|l| format!("{}:{}", l.file(), l.line())).unwrap_or_default();
            let text = format!("{} at {}", msg, loc);
            let _ = LAST_PANIC.try_with(|p| *p.borrow_mut() = text);
        }));
    });
}

#[derive(Debug, Clone)]
pub enum Outcome<T> { Done(T), Panic(String), Hang }

pub fn catch<T, F: FnOnce() -> T>(f: F) -> Result<T, String> {
    install_silent_hook();
    match catch_unwind(AssertUnwindSafe(f)) {
        Ok(v) => Ok(v),
        Err(_) => Err(LAST_PANIC.with(|p| p.borrow().clone())),
    }
}

pub fn guarded<T: Send + 'static, F: FnOnce() -> T + Send + 'static>(secs: f64, f: F) -> Outcome<T> {
    install_silent_hook();
    let (tx, rx) = channel();
    let (tid_tx, tid_rx) = channel();
    let spawned = std::thread::Builder::new().stack_size(64 << 20).spawn(move || { let _ = tid_tx.send(prio::thread_id()); let _ = tx.send(catch(f)); });
    if spawned.is_err() { return Outcome::Panic("could not spawn helper thread".into()); }
    match rx.recv_timeout(Duration::from_secs_f64(secs)) {
        Ok(Ok(v)) => Outcome::Done(v),
        Ok(Err(m)) => Outcome::Panic(m),
        Err(RecvTimeoutError::Timeout) => {
            ABANDONED.fetch_add(1, Ordering::SeqCst);
            if let Ok(tid) = tid_rx.try_recv() { prio::lowest_priority(tid); }
            let cur = CURRENT.lock().map(|c| c.clone()).unwrap_or_default();
            if let Ok(mut a) = ABANDONED_CALLS.lock() { a.push(cur); }
            Outcome::Hang
        }
        Err(RecvTimeoutError::Disconnected) => Outcome::Panic("helper thread ended without a result".into()),
    }
}

static CURRENT: std::sync::Mutex<String> = std::sync::Mutex::new(String::new());
static ABANDONED_CALLS: std::sync::Mutex<Vec<String>> = std::sync::Mutex::new(Vec::new());
/// names the call that is about to run (reported by the watchdog)
pub fn set_current(what: &str) {
    if let Ok(mut c) = CURRENT.lock() { *c = what.chars().take(2000).collect(); }
    // a stack overflow or an allocation failure aborts the whole process: the last of these lines on stderr names the case that did it
    eprintln!("@CURRENT {}", what.chars().take(2000).collect::<String>());
}

/// a runaway helper thread that keeps allocating must not take the machine down: a watchdog thread ends the process
/// (exit code 3, after naming the call that was running) when the resident set exceeds `limit_mb`
pub fn start_memory_watchdog(limit_mb: u64) {
    std::thread::spawn(move || loop {
        std::thread::sleep(Duration::from_millis(100));
        let rss_pages: u64 = std::fs::read_to_string("/proc/self/statm").ok().and_then(|s| s.split_whitespace().nth(1).and_then(|v| v.parse().ok())).unwrap_or(0);
        if rss_pages * 4096 > limit_mb << 20 {
            let cur = CURRENT.lock().map(|c| c.clone()).unwrap_or_default();
            let abandoned = ABANDONED_CALLS.lock().map(|c| c.clone()).unwrap_or_default();
            println!("ABORT memory watchdog: resident set above {} MB; last call started: {}; abandoned (still running) calls: {:?}", limit_mb, cur, abandoned);
            use std::io::Write;
            let _ = std::io::stdout().flush();
            std::process::exit(3);
        }
    });
}

pub fn abandoned_threads() -> u64 { ABANDONED.load(Ordering::SeqCst) }

/// leaves the process even when helper threads are still spinning
pub fn finish() -> ! {
    use std::io::Write;
    let _ = std::io::stdout().flush();
    std::process::exit(0)
}
