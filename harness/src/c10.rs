//! C10: for a curve whose speed does not vanish and |d| * max curvature <= 1/2 (1 <= |d| <= 8), offset / offset_lms_sampling /
//! offset_scaling return a connected chain from C(0)+d*n(0) to C(1)+d*n(1) within 1.5 units (both directed Hausdorff
//! distances) of the parallel curve {C(t)+d*n(t)}, here a 4000-segment polyline with the library's unit normal.
use crate::guard::*;
use crate::cshapes::*;
use crate::util::*;
use flo_curves::bezier::*;

const TIMEOUT: f64 = 10.0;
const FUNCTIONS: [&str; 3] = ["offset", "offset_lms_sampling", "offset_scaling"];
const HAUSDORFF: f64 = 1.5;

pub const C10_CLASSES: [&str; 7] = ["arch", "s_curve", "two_inflections", "near_line", "straight_line", "gentle_random", "random"];

pub fn gen_curve(rng: &mut Rng, class: &str) -> Cub {
    match class {
        "gentle_random" => {
            // control polygon advancing along the chord with moderate sideways displacement
            let (p0, p3) = (Coord2(rng.r(0.0, 100.0), rng.r(0.0, 100.0)), Coord2(rng.r(0.0, 100.0), rng.r(0.0, 100.0)));
            let d = p3 - p0; let n = Coord2(-d.1, d.0);
            [p0, p0 + d * rng.r(0.1, 0.5) + n * rng.r(-0.4, 0.4), p0 + d * rng.r(0.5, 0.9) + n * rng.r(-0.4, 0.4), p3]
        }
        _ => gen_class(rng, class),
    }
}

fn chain_points(chain: &[Cub], per_curve: usize) -> Vec<Coord2> {
    let mut out = vec![];
    for c in chain { for k in 0..=per_curve { out.push(eval(c, k as f64 / per_curve as f64)); } }
    out
}

/// directed distance: max over `from` of the distance to the polyline through `to`. Per point: nearest vertex of a
/// coarse subset, then the segments around it (an upper bound of the distance to the polyline, since it is a minimum
/// over a subset of the segments); the full polyline is only scanned when that bound is near the limit.
fn directed(from: &[Coord2], to: &[Coord2], stride: usize) -> (f64, Coord2) {
    let mut worst = (0.0f64, from[0]);
    for p in from {
        let (mut m, mut kb) = (f64::MAX, 0);
        let mut k = 0;
        while k < to.len() { let d = dist(*p, to[k]); if d < m { m = d; kb = k; } k += stride; }
        if m > worst.0 {
            let (lo, hi) = (kb.saturating_sub(stride), (kb + stride).min(to.len() - 1));
            m = m.min(dist_polyline(*p, &to[lo..=hi]));
            if m > HAUSDORFF * 0.9 { m = dist_polyline(*p, to); }
        }
        if m > worst.0 { worst = (m, *p); }
    }
    worst
}

pub fn check(stats: &mut Stats, w: &Cub, d: f64, class: &str) {
    let (smin, kmax, inflections) = regularity(w, 400);
    let head = format!("curve={} class={} d={:?}", fmt_cub(w), class, d);
    // preconditions of the statement: cases outside are excluded and counted, never passed
    if !(smin >= 1.0) { stats.excluded += 1; stats.count("excluded.speed_below_1_on_grid"); return; }
    if !(d.abs() * kmax <= 0.5) { stats.excluded += 1; stats.count("excluded.offset_times_curvature_above_half"); return; }
    let infl = match inflections { 0 => "inflections0", 1 => "inflections1", _ => "inflections2" };
    let c = lib_curve(w);
    // the parallel curve with the library's unit normal, evaluated 1e-9 inside the ends
    let c2 = c.clone();
    let par: Vec<Coord2> = match catch(move || (0..=4000).map(|k| { let t = k as f64 / 4000.0; c2.normal_at_pos(t.max(1e-9).min(1.0 - 1e-9)).to_unit_vector() }).collect::<Vec<Coord2>>()) {
        Ok(ns) => ns.iter().enumerate().map(|(k, n)| eval(w, k as f64 / 4000.0) + *n * d).collect(),
        Err(m) => { stats.fail("C10", "panic.normal_at_pos", &format!("{} panic={}", head, m)); return; }
    };
    if let Some(k) = par.iter().position(|p| !finite2(*p)) { stats.fail("C10", "normal_at_pos.non_finite_unit_normal", &format!("{} t={}", head, k as f64 / 4000.0)); return; }
    // the library's normal against the rotated derivative of the independent evaluation
    for k in [0usize, 1000, 2000, 3000, 4000] {
        let t = (k as f64 / 4000.0).max(1e-9).min(1.0 - 1e-9);
        let v = deriv(w, t); let l = (v.0 * v.0 + v.1 * v.1).sqrt();
        let own = eval(w, k as f64 / 4000.0) + Coord2(-v.1, v.0) * (d / l);
        if dist(own, par[k]) > 1e-6 { stats.fail("C10", "normal_at_pos.not_rotated_unit_tangent", &format!("{} t={} library parallel point={:?} own={:?}", head, t, par[k], own)); return; }
    }
    for f in FUNCTIONS.iter() {
        let desc = format!("{} function={} min_speed={:.3} max_curvature={:.5} {}", head, f, smin, kmax, infl);
        stats.case(&desc, true);
        stats.count(&format!("curve.{}", class));
        stats.count(infl);
        stats.count(if d > 0.0 { "d_positive" } else { "d_negative" });
        stats.count(&format!("abs_d_{}", if d.abs() < 2.0 { "1_to_2" } else if d.abs() < 4.0 { "2_to_4" } else { "4_to_8" }));
        stats.count(&format!("d_times_curvature_{}", if d.abs() * kmax < 0.1 { "lt_0.1" } else if d.abs() * kmax < 0.3 { "0.1_to_0.3" } else { "0.3_to_0.5" }));
        let (c3, f2) = (c.clone(), *f);
        let r = guarded(TIMEOUT, move || -> Option<Vec<Curve<Coord2>>> {
            match f2 { "offset" => Some(offset(&c3, d, d)), "offset_lms_sampling" => offset_lms_sampling(&c3, |_| d, |_| 0.0, 32, 0.1), _ => Some(offset_scaling(&c3, d, d)) }
        });
        let chain: Vec<Cub> = match r {
            Outcome::Done(Some(v)) => v.iter().map(cub_of).collect(),
            Outcome::Done(None) => { stats.fail("C10", &format!("offset.none.{}", f), &desc); continue; }
            Outcome::Panic(m) => { stats.fail("C10", &format!("panic.{}.{}", f, infl), &format!("{} panic={}", desc, m)); continue; }
            Outcome::Hang => { stats.fail("C10", &format!("hang.{}.{}", f, infl), &format!("{} no result after {} s", desc, TIMEOUT)); continue; }
        };
        stats.count(&format!("chain_curves.{}.{}", f, match chain.len() { 0 => "0", 1 => "1", 2..=3 => "2_to_3", 4..=7 => "4_to_7", _ => "ge_8" }));
        if chain.is_empty() { stats.fail("C10", &format!("offset.empty_chain.{}", f), &desc); continue; }
        if chain.iter().any(|c| !finite_cub(c)) { stats.fail("C10", &format!("offset.non_finite.{}", f), &format!("{} chain={:?}", desc, chain)); continue; }
        let (s, e) = (chain[0][0], chain[chain.len() - 1][3]);
        if dist(s, par[0]) > 1e-6 { stats.fail("C10", &format!("offset.start.{}", f), &format!("{} chain starts at {:?}, C(0)+d*n(0)={:?}, off by {:e}", desc, s, par[0], dist(s, par[0]))); }
        if dist(e, par[4000]) > 1e-6 { stats.fail("C10", &format!("offset.end.{}", f), &format!("{} chain ends at {:?}, C(1)+d*n(1)={:?}, off by {:e}", desc, e, par[4000], dist(e, par[4000]))); }
        if let Some(i) = (1..chain.len()).find(|i| dist(chain[*i - 1][3], chain[*i][0]) > 1e-6) {
            stats.fail("C10", &format!("offset.gap.{}", f), &format!("{} curve {} ends at {:?}, curve {} starts at {:?}, gap {:e} ({} curves)", desc, i - 1, chain[i - 1][3], i, chain[i][0], dist(chain[i - 1][3], chain[i][0]), chain.len()));
        }
        // chain -> parallel curve (200 samples per chain curve against the 4000-segment polyline)
        let cp = chain_points(&chain, 200);
        let (h1, at1) = directed(&cp, &par, 8);
        if h1 > HAUSDORFF {
            stats.fail("C10", &format!("offset.hausdorff_chain_to_parallel.{}.{}", f, infl), &format!("{} chain point {:?} is {:?} from the parallel curve ({} curves in the chain)", desc, at1, h1, chain.len()));
        }
        // parallel curve -> chain: every one of the 4001 samples; a suspected failure is confirmed against a 2000-segment
        // polyline per chain curve refined by golden section
        let (h2, at2) = directed(&par, &cp, 4);
        if h2 > HAUSDORFF {
            let exact = chain.iter().map(|c| nearest_on_cub(c, at2, 2000).1).fold(f64::MAX, f64::min);
            if exact > HAUSDORFF { stats.fail("C10", &format!("offset.hausdorff_parallel_to_chain.{}.{}", f, infl), &format!("{} parallel curve point {:?} is {:?} from the chain ({} curves in the chain)", desc, at2, exact, chain.len())); }
        }
        stats.count(&format!("hausdorff.{}.{}", f, if h1.max(h2) <= 0.15 { "le_0.15" } else if h1.max(h2) <= 0.75 { "le_0.75" } else if h1.max(h2) <= HAUSDORFF { "le_1.5" } else { "gt_1.5" }));
    }
}

pub fn search(seed: u64, n: u64) {
    let mut rng = Rng(seed ^ 0x5EA2C10);
    let mut stats = Stats::new();
    install_silent_hook();
    for _ in 0..n {
        let class = C10_CLASSES[rng.i(C10_CLASSES.len() as u64) as usize];
        let w = gen_curve(&mut rng, class);
        let (_, kmax, _) = regularity(&w, 400);
        // |d| in [1, 8]; half of the time drawn so that |d|*curvature approaches the 1/2 limit
        let mut a = rng.r(1.0, 8.0);
        if rng.b() && kmax > 1e-9 { let lim = (0.5 / kmax).min(8.0); if lim >= 1.0 { a = rng.r(1.0f64.max(lim * 0.6), lim); } }
        let d = a * if rng.b() { 1.0 } else { -1.0 };
        check(&mut stats, &w, d, class);
    }
    stats.print("C10", "search");
    finish();
}
