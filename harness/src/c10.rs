//! C10: for a curve whose speed does not vanish and |d| * max curvature <= 1/2 (1 <= |d| <= 8), offset / offset_lms_sampling /
//! offset_scaling return a connected chain from C(0)+d*n(0) to C(1)+d*n(1) within 1.5 units (both directed Hausdorff
//! distances) of the parallel curve {C(t)+d*n(t)}, here a 4000-segment polyline with the library's unit normal.
use crate::guard::*;
use crate::cshapes::*;
use crate::util::*;
use flo_curves::bezier::*;

const TIMEOUT: f64 = 10.0;
const FUNCTIONS: [&str; 3] = ["offset", "offset_lms_sampling", "offset_scaling"];
const HAUSDORFF: f64 = 1.5;

pub const C10_CLASSES: [&str; 8] = ["arch", "s_curve", "two_inflections", "near_line", "straight_line", "gentle_random", "random", "duplicate_extremity"];
/// classes added later: drawn from a stream of their own so that the inputs of the fixed seeds (known findings are keyed by them) stay what they were
pub const C10_LATER_CLASSES: [&str; 2] = ["nearly_symmetric_s", "exactly_symmetric_s"];

pub fn gen_curve(rng: &mut Rng, class: &str) -> Cub {
    match class {
        "gentle_random" => {
            // control polygon advancing along the chord with moderate sideways displacement
            let (p0, p3) = (Coord2(rng.r(0.0, 100.0), rng.r(0.0, 100.0)), Coord2(rng.r(0.0, 100.0), rng.r(0.0, 100.0)));
            let d = p3 - p0; let n = Coord2(-d.1, d.0);
            [p0, p0 + d * rng.r(0.1, 0.5) + n * rng.r(-0.4, 0.4), p0 + d * rng.r(0.5, 0.9) + n * rng.r(-0.4, 0.4), p3]
        }
        "duplicate_extremity" => {
            // control points on a 5-unit grid, drawn until `find_extremities` returns the same parameter twice inside (0.01, 0.99)
            // (x' or y' has an exactly representable double root, or a root shared by both coordinates): before the repair
            // `subdivide_offset` formed a zero-length sub-section between the two copies
            let g = |rng: &mut Rng| Coord2(rng.i(21) as f64 * 5.0, rng.i(21) as f64 * 5.0);
            for _ in 0..20000 {
                let w = [g(rng), g(rng), g(rng), g(rng)];
                let mut ex: Vec<f64> = lib_curve(&w).find_extremities().into_iter().filter(|t| *t > 0.01 && *t < 0.99).collect();
                ex.sort_by(|a, b| a.partial_cmp(b).unwrap());
                if ex.windows(2).any(|p| p[0] == p[1]) && regularity(&w, 100).0 >= 1.0 { return w; }
            }
            gen_class(rng, "arch")
        }
        "nearly_symmetric_s" | "exactly_symmetric_s" => {
            // an S that is point-symmetric about its mid point (its inflection is at t = 1/2 and the quadratic of
            // `find_inflection_points` loses its leading coefficient), exactly or up to a rounding-sized displacement of the last
            // point (1e-9 .. 5e-6): from seeded change C10-m7
            let (p0, p3) = (Coord2(rng.r(5.0, 45.0), rng.r(5.0, 95.0)), Coord2(rng.r(55.0, 95.0), rng.r(5.0, 95.0)));
            let d = p3 - p0; let n = Coord2(-d.1, d.0);
            let (a, h) = (rng.r(0.2, 0.45), rng.r(0.1, 0.35) * if rng.b() { 1.0 } else { -1.0 });
            let off = d * a + n * h;
            let e = if class == "exactly_symmetric_s" { 0.0 } else { 10f64.powf(rng.r(-9.0, -5.3)) };
            let ang = rng.r(0.0, std::f64::consts::TAU);
            [p0, p0 + off, p3 - off, p3 + Coord2(e * ang.cos(), e * ang.sin())]
        }
        _ => gen_class(rng, class),
    }
}

fn chain_points(chain: &[Cub], per_curve: usize) -> Vec<Coord2> {
    let mut out = vec![];
    for c in chain { for k in 0..=per_curve { out.push(eval(c, k as f64 / per_curve as f64)); } }
    out
}

/// directed distance: max over `from` of the distance to the polyline through `to`. Per point: nearest vertex of a
/// coarse subset, then the segments around it (an upper bound of the distance to the polyline, since it is a minimum
/// over a subset of the segments); the full polyline is only scanned when that bound is near the limit.
fn directed(from: &[Coord2], to: &[Coord2], stride: usize) -> (f64, Coord2) {
    let mut worst = (0.0f64, from[0]);
    for p in from {
        let (mut m, mut kb) = (f64::MAX, 0);
        let mut k = 0;
        while k < to.len() { let d = dist(*p, to[k]); if d < m { m = d; kb = k; } k += stride; }
        if m > worst.0 {
            let (lo, hi) = (kb.saturating_sub(stride), (kb + stride).min(to.len() - 1));
            m = m.min(dist_polyline(*p, &to[lo..=hi]));
            if m > HAUSDORFF * 0.9 { m = dist_polyline(*p, to); }
        }
        if m > worst.0 { worst = (m, *p); }
    }
    worst
}

pub fn check(stats: &mut Stats, w: &Cub, d: f64, class: &str) {
    let (smin, kmax, inflections) = regularity(w, 400);
    let head = format!("curve={} class={} d={:?}", fmt_cub(w), class, d);
    // preconditions of the statement: cases outside are excluded and counted, never passed
    if !(smin >= 1.0) { stats.excluded += 1; stats.count("excluded.speed_below_1_on_grid"); return; }
    if !(d.abs() * kmax <= 0.5) { stats.excluded += 1; stats.count("excluded.offset_times_curvature_above_half"); return; }
    let infl = match inflections { 0 => "inflections0", 1 => "inflections1", _ => "inflections2" };
    let c = lib_curve(w);
    // the parallel curve with the library's unit normal, evaluated 1e-9 inside the ends
    let c2 = c.clone();
    let par: Vec<Coord2> = match catch(move || (0..=4000).map(|k| { let t = k as f64 / 4000.0; c2.normal_at_pos(t.max(1e-9).min(1.0 - 1e-9)).to_unit_vector() }).collect::<Vec<Coord2>>()) {
        Ok(ns) => ns.iter().enumerate().map(|(k, n)| eval(w, k as f64 / 4000.0) + *n * d).collect(),
        Err(m) => { stats.fail("C10", "panic.normal_at_pos", &format!("{} panic={}", head, m)); return; }
    };
    if let Some(k) = par.iter().position(|p| !finite2(*p)) { stats.fail("C10", "normal_at_pos.non_finite_unit_normal", &format!("{} t={}", head, k as f64 / 4000.0)); return; }
    // the library's normal against the rotated derivative of the independent evaluation
    for k in [0usize, 1000, 2000, 3000, 4000] {
        let t = (k as f64 / 4000.0).max(1e-9).min(1.0 - 1e-9);
        let v = deriv(w, t); let l = (v.0 * v.0 + v.1 * v.1).sqrt();
        let own = eval(w, k as f64 / 4000.0) + Coord2(-v.1, v.0) * (d / l);
        if gt(dist(own, par[k]), 1e-6) { stats.fail("C10", "normal_at_pos.not_rotated_unit_tangent", &format!("{} t={} library parallel point={:?} own={:?}", head, t, par[k], own)); return; }
    }
    for f in FUNCTIONS.iter() {
        // failures of offset_scaling on the input class whose `find_extremities` list contains a parameter twice are keyed by that class
        // (zero-length sub-sections in `subdivide_offset`, repaired by the `dedup_by` after the sort: must not fail any more)
        // ... and by the input itself, so that a finding listed for one input does not cover another
        let tie_owner = if class == "duplicate_extremity" && *f == "offset_scaling" { format!(".duplicate_extremity.input_{:016x}", fnv(&head)) } else { String::new() };
        let tie = tie_owner.as_str();
        // accuracy failures of offset_scaling are keyed by how far the curve turns (the scaling heuristic places its focus on the two end
        // normals: the further the curve turns, the further its normals are from meeting in one point)
        let turn = if *f == "offset_scaling" {
            // total turning of the tangent along the curve (sum of the signed angle steps on a 400-grid), not the angle between the end tangents:
            // a hook that winds by 275 degrees has end tangents 85 degrees apart
            let mut total = 0.0f64;
            let mut prev = deriv(w, 0.0);
            for k in 1..=400 { let v = deriv(w, k as f64 / 400.0); total += (prev.0 * v.1 - prev.1 * v.0).atan2(prev.0 * v.0 + prev.1 * v.1); prev = v; }
            let ang = total.abs().to_degrees();
            if ang >= 150.0 { ".tangent_turns_ge_150deg" } else if ang >= 90.0 { ".tangent_turns_90_to_150deg" } else { ".tangent_turns_lt_90deg" }
        } else { "" };
        let desc = format!("{} function={} min_speed={:.3} max_curvature={:.5} {}", head, f, smin, kmax, infl);
        stats.case(&desc, true);
        stats.count(&format!("curve.{}", class));
        stats.count(infl);
        stats.count(if d > 0.0 { "d_positive" } else { "d_negative" });
        stats.count(&format!("abs_d_{}", if d.abs() < 2.0 { "1_to_2" } else if d.abs() < 4.0 { "2_to_4" } else { "4_to_8" }));
        stats.count(&format!("d_times_curvature_{}", if d.abs() * kmax < 0.1 { "lt_0.1" } else if d.abs() * kmax < 0.3 { "0.1_to_0.3" } else { "0.3_to_0.5" }));
        let (c3, f2) = (c.clone(), *f);
        let r = guarded(TIMEOUT, move || -> Option<Vec<Curve<Coord2>>> {
            match f2 { "offset" => Some(offset(&c3, d, d)), "offset_lms_sampling" => offset_lms_sampling(&c3, |_| d, |_| 0.0, 32, 0.1), _ => Some(offset_scaling(&c3, d, d)) }
        });
        let chain: Vec<Cub> = match r {
            Outcome::Done(Some(v)) => v.iter().map(cub_of).collect(),
            Outcome::Done(None) => { stats.fail("C10", &format!("offset.none.{}", f), &desc); continue; }
            Outcome::Panic(m) => { stats.fail("C10", &format!("panic.{}.{}", f, infl), &format!("{} panic={}", desc, m)); continue; }
            Outcome::Hang => { stats.fail("C10", &format!("hang.{}.{}", f, infl), &format!("{} no result after {} s", desc, TIMEOUT)); continue; }
        };
        stats.count(&format!("chain_curves.{}.{}", f, match chain.len() { 0 => "0", 1 => "1", 2..=3 => "2_to_3", 4..=7 => "4_to_7", _ => "ge_8" }));
        if chain.is_empty() { stats.fail("C10", &format!("offset.empty_chain.{}{}", f, tie), &desc); continue; }
        if chain.iter().any(|c| !finite_cub(c)) { stats.fail("C10", &format!("offset.non_finite.{}{}", f, tie), &format!("{} chain={:?}", desc, chain)); continue; }
        let (s, e) = (chain[0][0], chain[chain.len() - 1][3]);
        if gt(dist(s, par[0]), 1e-6) { stats.fail("C10", &format!("offset.start.{}{}", f, tie), &format!("{} chain starts at {:?}, C(0)+d*n(0)={:?}, off by {:e}", desc, s, par[0], dist(s, par[0]))); }
        if gt(dist(e, par[4000]), 1e-6) { stats.fail("C10", &format!("offset.end.{}{}", f, tie), &format!("{} chain ends at {:?}, C(1)+d*n(1)={:?}, off by {:e}", desc, e, par[4000], dist(e, par[4000]))); }
        // size of the largest joint gap (offset / offset_lms_sampling join bit-exactly: the fitter passes the same point to both sides;
        // offset_scaling evaluates the unit normal of two different sections at a joint, see C10.offset_scaling_chain)
        if chain.len() > 1 {
            let g = (1..chain.len()).map(|i| dist(chain[i - 1][3], chain[i][0])).fold(0.0f64, nmax);
            stats.count(&format!("max_joint_gap.{}.{}", f, if g == 0.0 { "exactly_0" } else if g <= 1e-12 { "le_1e-12" } else if g <= 1e-9 { "le_1e-9" } else if g <= 1e-6 { "le_1e-6" } else { "gt_1e-6" }));
        }
        if let Some(i) = (1..chain.len()).find(|i| gt(dist(chain[*i - 1][3], chain[*i][0]), 1e-6)) {
            stats.fail("C10", &format!("offset.gap.{}{}", f, tie), &format!("{} curve {} ends at {:?}, curve {} starts at {:?}, gap {:e} ({} curves)", desc, i - 1, chain[i - 1][3], i, chain[i][0], dist(chain[i - 1][3], chain[i][0]), chain.len()));
        }
        // chain -> parallel curve (200 samples per chain curve against the 4000-segment polyline)
        let cp = chain_points(&chain, 200);
        let (h1, at1) = directed(&cp, &par, 8);
        if gt(h1, HAUSDORFF) {
            stats.fail("C10", &format!("offset.hausdorff_chain_to_parallel.{}.{}{}{}", f, infl, turn, tie), &format!("{} chain point {:?} is {:?} from the parallel curve ({} curves in the chain)", desc, at1, h1, chain.len()));
        }
        // parallel curve -> chain: every one of the 4001 samples; a suspected failure is confirmed against a 2000-segment
        // polyline per chain curve refined by golden section
        let (h2, at2) = directed(&par, &cp, 4);
        if gt(h2, HAUSDORFF) {
            let exact = chain.iter().map(|c| nearest_on_cub(c, at2, 2000).1).fold(f64::MAX, f64::min);
            if gt(exact, HAUSDORFF) { stats.fail("C10", &format!("offset.hausdorff_parallel_to_chain.{}.{}{}{}", f, infl, turn, tie), &format!("{} parallel curve point {:?} is {:?} from the chain ({} curves in the chain)", desc, at2, exact, chain.len())); }
        }
        stats.count(&format!("hausdorff.{}.{}", f, if h1.max(h2) <= 0.15 { "le_0.15" } else if h1.max(h2) <= 0.75 { "le_0.75" } else if h1.max(h2) <= HAUSDORFF { "le_1.5" } else { "gt_1.5" }));
    }
}

pub fn search(seed: u64, n: u64) {
    let mut rng = Rng(seed ^ 0x5EA2C10);
    let mut stats = Stats::new();
    install_silent_hook();
    for _ in 0..n {
        let class = C10_CLASSES[rng.i(C10_CLASSES.len() as u64) as usize];
        let w = gen_curve(&mut rng, class);
        let (_, kmax, _) = regularity(&w, 400);
        // |d| in [1, 8]; half of the time drawn so that |d|*curvature approaches the 1/2 limit
        let mut a = rng.r(1.0, 8.0);
        if rng.b() && kmax > 1e-9 { let lim = (0.5 / kmax).min(8.0); if lim >= 1.0 { a = rng.r(1.0f64.max(lim * 0.6), lim); } }
        let d = a * if rng.b() { 1.0 } else { -1.0 };
        check(&mut stats, &w, d, class);
    }
    let mut rng2 = Rng(seed ^ 0x5EA2C10B);
    for it in 0..(n / 6 + 20) {
        let class = if it % 4 == 3 { "exactly_symmetric_s" } else { "nearly_symmetric_s" };
        let w = gen_curve(&mut rng2, class);
        let d = rng2.r(1.0, 8.0) * if rng2.b() { 1.0 } else { -1.0 };
        check(&mut stats, &w, d, class);
    }
    stats.print("C10", "search");
    finish();
}

// ------------------------------------------------------------------------------------------------------------------
// correspondence: the real functions against the Float mirror of `Gen/Offset.lean` + `Model/Offset.lean` (bit for bit)

fn cat_code(c: CurveCategory) -> usize {
    match c { CurveCategory::Point => 0, CurveCategory::Linear => 1, CurveCategory::Arch => 2, CurveCategory::SingleInflectionPoint => 3,
        CurveCategory::DoubleInflectionPoint => 4, CurveCategory::Parabolic => 5, CurveCategory::Cusp => 6, CurveCategory::Loop => 7 }
}
fn feat_code(f: CurveFeatures) -> (usize, f64, f64) {
    match f { CurveFeatures::Point => (0, 0.0, 0.0), CurveFeatures::Linear => (1, 0.0, 0.0), CurveFeatures::Arch => (2, 0.0, 0.0),
        CurveFeatures::SingleInflectionPoint(t) => (3, t, 0.0), CurveFeatures::DoubleInflectionPoint(a, b) => (4, a, b),
        CurveFeatures::Parabolic => (5, 0.0, 0.0), CurveFeatures::Cusp => (6, 0.0, 0.0), CurveFeatures::Loop(a, b) => (7, a, b) }
}
fn feat_name(k: usize) -> &'static str { ["point", "linear", "arch", "single_inflection", "double_inflection", "parabolic", "cusp", "loop"][k] }
fn hxc(w: &Cub) -> String { w.iter().map(|p| format!("{} {}", hx(p.0), hx(p.1))).collect::<Vec<_>>().join(" ") }
fn hxp(p: Coord2) -> String { format!("{} {}", hx(p.0), hx(p.1)) }

/// curves for the correspondence run: every class of the search, every degenerate class of `cshapes`, and curves on small
/// integer grids (exact collinearity / coincidence / cusp conditions, where the branch conditions of the classification tie)
fn gen_corr_curve(rng: &mut Rng) -> (Cub, String) {
    match rng.i(10) {
        0..=3 => { let class = C10_CLASSES[rng.i(C10_CLASSES.len() as u64) as usize]; (gen_curve(rng, class), class.to_string()) }
        4..=6 => { let class = CURVE_CLASSES[rng.i(CURVE_CLASSES.len() as u64) as usize]; (gen_class(rng, class), class.to_string()) }
        7 => { let g = |rng: &mut Rng| Coord2(rng.i(5) as f64, rng.i(5) as f64); ([g(rng), g(rng), g(rng), g(rng)], "grid5".to_string()) }
        8 => { let g = |rng: &mut Rng| Coord2(rng.i(101) as f64, rng.i(101) as f64); ([g(rng), g(rng), g(rng), g(rng)], "grid101".to_string()) }
        _ => { let g = |rng: &mut Rng| Coord2(rng.dyadic(0, 100, 8), rng.dyadic(0, 100, 8)); ([g(rng), g(rng), g(rng), g(rng)], "dyadic".to_string()) }
    }
}

/// `find_self_intersection_point(curve, 0.01)` is an input of the model (it is not translated): `#1 t1 t2` or `#0 0 0`
fn loop_hint(c: &Curve<Coord2>) -> Option<String> {
    let c2 = c.clone();
    match guarded(TIMEOUT, move || find_self_intersection_point(&c2, 0.01)) {
        Outcome::Done(Some((a, b))) => Some(format!("#1 {} {}", hx(a), hx(b))),
        Outcome::Done(None) => Some(format!("#0 {} {}", hx(0.0), hx(0.0))),
        _ => None,
    }
}

fn gen_offsets(rng: &mut Rng) -> (f64, f64, &'static str) {
    let s = if rng.b() { 1.0 } else { -1.0 };
    match rng.i(8) {
        0..=3 => { let d = s * rng.r(1.0, 8.0); (d, d, "constant") }
        4 => { let d = s * (1 + rng.i(8)) as f64; (d, d, "constant_integer") }
        5 => (s * rng.r(1.0, 8.0), s * rng.r(1.0, 8.0), "variable"),
        6 => (0.0, 0.0, "zero"),
        _ => (s * rng.r(0.0, 40.0), -s * rng.r(0.0, 40.0), "variable_sign_change"),
    }
}

pub fn corr(seed: u64, n: u64) {
    use std::cell::RefCell;
    let mut rng = Rng(seed ^ 0xC0221C10);
    let mut stats = Stats::new();
    install_silent_hook();
    for _ in 0..n {
        let (w, class) = gen_corr_curve(&mut rng);
        let c = lib_curve(&w);
        match rng.i(8) {
            0 | 1 => {
                // tangent_at_pos / normal_at_pos / to_unit_vector at end parameters (the epsilon nudge), interior and outside parameters
                let t = match rng.i(8) { 0 => 0.0, 1 => 1.0, 2 => f64::EPSILON, 3 => 1.0 - f64::EPSILON, 4 => -0.0, 5 => rng.r(-0.5, 1.5), _ => rng.f() };
                let (tg, nm) = (c.tangent_at_pos(t), c.normal_at_pos(t));
                let (utg, unm) = (tg.to_unit_vector(), nm.to_unit_vector());
                let line = format!("C10 normal R {} {} | {} {} {} {}", hxc(&w), hx(t), hxp(tg), hxp(nm), hxp(utg), hxp(unm));
                stats.case(&line, tg.0 != 0.0 || tg.1 != 0.0);
                stats.count(&format!("normal.curve.{}", class));
                stats.count(if t == 0.0 || t == 1.0 { "normal.t_end_nudged" } else if t > 0.0 && t < 1.0 { "normal.t_interior" } else { "normal.t_outside" });
                if tg.0 == 0.0 && tg.1 == 0.0 { stats.count("normal.zero_tangent"); }
                println!("{}", line);
            }
            2 | 3 => {
                let hint = match loop_hint(&c) { Some(h) => h, None => { stats.count("excluded.find_self_intersection_point_hang_or_panic"); continue; } };
                let c2 = c.clone();
                let r = guarded(TIMEOUT, move || (characterize_curve(&c2), features_for_curve(&c2, 0.01)));
                let (cat, feat) = match r { Outcome::Done(v) => v, _ => { stats.count("excluded.features_hang_or_panic"); continue; } };
                let (fk, p1, p2) = feat_code(feat);
                let line = format!("C10 features R {} {} | #{} #{} {} {}", hxc(&w), hint, cat_code(cat), fk, hx(p1), hx(p2));
                stats.case(&line, fk >= 2);
                stats.count(&format!("features.curve.{}", class));
                stats.count(&format!("features.result.{}", feat_name(fk)));
                stats.count(&format!("features.category.{}", feat_name(cat_code(cat))));
                println!("{}", line);
            }
            4 | 5 => {
                // offset_lms_sampling: the parameters at which the offset closures are called (= the sample parameters), and the
                // first / last point of the fitted chain
                let hint = match loop_hint(&c) { Some(h) => h, None => { stats.count("excluded.find_self_intersection_point_hang_or_panic"); continue; } };
                let (d0, d1, dk) = gen_offsets(&mut rng);
                let toff = if rng.i(4) == 0 { rng.r(-2.0, 2.0) } else { 0.0 };
                let subdivisions = [0u32, 1, 2, 3, 5, 8, 32, 33][rng.i(8) as usize];
                let use_offset = rng.i(4) == 0;
                let c2 = c.clone();
                let r = guarded(TIMEOUT, move || {
                    let ts: RefCell<Vec<f64>> = RefCell::new(vec![]);
                    let chain = if use_offset { Some(offset(&c2, d0, d1)) } else {
                        offset_lms_sampling(&c2, |t| { ts.borrow_mut().push(t); (d1 - d0) * t + d0 }, |_| toff, subdivisions, 0.1) };
                    (ts.into_inner(), chain)
                });
                let (ts, chain) = match r { Outcome::Done(v) => v, _ => { stats.count("excluded.offset_lms_hang_or_panic"); continue; } };
                // the end points of the chain and, since the whole fitter is generated (session 4), every control point of every curve
                let all = match &chain { Some(v) => { let mut a = format!(" #{}", v.len()); for c in v.iter() { let (c1, c2) = c.control_points(); a += &format!(" {} {} {} {}", hxp(c.start_point()), hxp(c1), hxp(c2), hxp(c.end_point())); } a }, None => " #0".to_string() };
                let ends = match &chain { Some(v) if !v.is_empty() => format!("#{} {} {}{}", v.len(), hxp(v[0].start_point()), hxp(v[v.len() - 1].end_point()), all), _ => format!("#0 {} {} {} {}{}", hx(0.0), hx(0.0), hx(0.0), hx(0.0), all) };
                let line = if use_offset { format!("C10 offset R {} {} {} {} | {}", hxc(&w), hx(d0), hx(d1), hint, ends) }
                    else { format!("C10 lms R {} #{} {} {} {} {} | #{} #{} {} {}", hxc(&w), subdivisions, hx(d0), hx(d1), hx(toff), hint, if chain.is_some() { 1 } else { 0 }, ts.len(), hxs(&ts), ends) };
                stats.case(&line, chain.as_ref().map(|v| v.len()).unwrap_or(0) > 0);
                stats.count(&format!("{}.curve.{}", if use_offset { "offset" } else { "lms" }, class));
                stats.count(&format!("lms.offsets.{}", dk));
                if !use_offset { stats.count(&format!("lms.subdivisions.{}", subdivisions)); stats.count(&format!("lms.samples.{}", ts.len())); }
                println!("{}", line);
            }
            _ => {
                let hint = match loop_hint(&c) { Some(h) => h, None => { stats.count("excluded.find_self_intersection_point_hang_or_panic"); continue; } };
                let (d0, d1, dk) = gen_offsets(&mut rng);
                let c2 = c.clone();
                let r = guarded(TIMEOUT, move || offset_scaling(&c2, d0, d1));
                let chain: Vec<Cub> = match r { Outcome::Done(v) => v.iter().map(cub_of).collect(), _ => { stats.count("excluded.offset_scaling_hang_or_panic"); continue; } };
                let line = format!("C10 scaling R {} {} {} {} | #{} {}", hxc(&w), hx(d0), hx(d1), hint, chain.len(), chain.iter().map(hxc).collect::<Vec<_>>().join(" "));
                stats.case(&line, chain.len() > 1);
                stats.count(&format!("scaling.curve.{}", class));
                stats.count(&format!("scaling.offsets.{}", dk));
                stats.count(&format!("scaling.curves.{}", match chain.len() { 0 => "0", 1 => "1", 2..=3 => "2_to_3", 4..=7 => "4_to_7", 8..=31 => "8_to_31", _ => "ge_32" }));
                println!("{}", line);
            }
        }
    }
    stats.print("C10", "corr");
    finish();
}
