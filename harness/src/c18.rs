//! C18: the 1-D space index and the bounding-box sweeps are exact.
use crate::util::*;
use flo_curves::geo::*;
use std::ops::Range;

#[derive(Clone, Copy, Debug, PartialEq)]
pub struct B(pub usize, pub f64, pub f64, pub f64, pub f64); // id, minx, maxx, miny, maxy
impl Geo for B { type Point = Coord2; }
impl HasBoundingBox for B {
    fn get_bounding_box<Bd: BoundingBox<Point = Coord2>>(&self) -> Bd { Bd::from_min_max(Coord2(self.1, self.3), Coord2(self.2, self.4)) }
}
/// closed boxes overlap (the mathematical predicate, not the code's)
fn ov(a: &B, b: &B) -> bool { !(a.1 > b.2 || b.1 > a.2 || a.3 > b.4 || b.3 > a.4) }

fn query_points(ranges: &[Range<f64>], grid: Option<i32>, rng: &mut Rng) -> Vec<f64> {
    match grid {
        Some(g) => (0..=(2 * g + 2)).map(|k| (k as f64) * 0.5 - 0.5).collect(),
        None => {
            // every end point, a point just inside/outside, and a few random ones
            let mut xs = vec![];
            for r in ranges.iter().take(12) { xs.push(r.start); xs.push(r.end); xs.push((r.start + r.end) / 2.0); }
            for _ in 0..6 { xs.push(rng.r(-10.0, 110.0)); }
            xs
        }
    }
}

fn query_regions(ranges: &[Range<f64>], grid: Option<i32>, rng: &mut Rng) -> Vec<(f64, f64)> {
    match grid {
        Some(g) => {
            let mut out = vec![];
            for a in 0..=(2 * g + 2) { for b in (a + 1)..=(2 * g + 3) { out.push((a as f64 * 0.5 - 0.5, b as f64 * 0.5 - 0.5)); } }
            out
        }
        None => {
            let mut out = vec![];
            for _ in 0..8 {
                let a = if rng.b() && !ranges.is_empty() { ranges[rng.i(ranges.len() as u64) as usize].start } else { rng.r(-10.0, 110.0) };
                let b = if rng.b() && !ranges.is_empty() { ranges[rng.i(ranges.len() as u64) as usize].end } else { rng.r(-10.0, 110.0) };
                if a < b { out.push((a, b)); }
            }
            out
        }
    }
}

fn space_line(ranges: &[Range<f64>], grid: Option<i32>, rng: &mut Rng, few_regions: bool) -> String {
    let space = Space1D::from_data(ranges.iter().cloned().enumerate().map(|(i, r)| (r, i)));
    let mut line = format!("C18 space D #{}", ranges.len());
    for r in ranges { line += &format!(" {} {}", hx(r.start), hx(r.end)); }
    let regions: Vec<(Range<f64>, Vec<usize>)> = space.all_regions().map(|(r, d)| (r, d.into_iter().cloned().collect())).collect();
    line += &format!(" | #{}", regions.len());
    for (r, hs) in &regions {
        line += &format!(" {} {} #{}", hx(r.start), hx(r.end), hs.len());
        for h in hs { line += &format!(" #{}", h); }
    }
    let pts = query_points(ranges, grid, rng);
    line += &format!(" Q #{}", pts.len());
    for x in pts {
        let hs: Vec<usize> = space.data_at_point(x).cloned().collect();
        line += &format!(" {} #{}", hx(x), hs.len());
        for h in hs { line += &format!(" #{}", h); }
    }
    let mut regs = query_regions(ranges, grid, rng);
    if few_regions { let n = regs.len(); regs = regs.into_iter().enumerate().filter(|(i, _)| i % 7 == (n % 7)).map(|(_, r)| r).collect(); }
    line += &format!(" R #{}", regs.len());
    for (a, b) in regs {
        let hs: Vec<usize> = space.data_in_region(a..b).cloned().collect();
        let c = space.regions_in_range(a..b).count();
        line += &format!(" {} {} #{}", hx(a), hx(b), hs.len());
        for h in hs { line += &format!(" #{}", h); }
        line += &format!(" #{}", c);
    }
    line
}

fn grid_ranges(grid: i32) -> Vec<Range<f64>> {
    let mut all = vec![];
    for s in 0..=grid { for e in s..=grid { all.push((s as f64)..(e as f64)); } }
    all
}

fn grid_boxes(gx: i32, gy: i32) -> Vec<(f64, f64, f64, f64)> {
    let mut boxes = vec![];
    // x runs over -2 ..= gx-2: negative, zero and positive coordinates (a sentinel such as 0.0 for "nothing read yet" shows on the negative side)
    for x0 in 0..=gx { for x1 in x0..=gx { for y0 in 0..=gy { for y1 in y0..=gy { boxes.push(((x0 - 2) as f64, (x1 - 2) as f64, y0 as f64, y1 as f64)); } } } }
    boxes
}

fn nontrivial_ranges(rs: &[Range<f64>]) -> bool {
    // at least two ranges that overlap, touch or nest
    for i in 0..rs.len() { for j in (i + 1)..rs.len() { if rs[i].start <= rs[j].end && rs[j].start <= rs[i].end { return true; } } }
    false
}

fn items_line(items: &[B]) -> String {
    let mut s = format!("#{}", items.len());
    for b in items { s += &format!(" #{} {} {} {} {}", b.0, hx(b.1), hx(b.2), hx(b.3), hx(b.4)); }
    s
}

fn sweep_lines(items: &[B], stats: &mut Stats) {
    // items sorted by min x; ids are positions
    let got: Vec<(usize, usize)> = sweep_self(items.iter()).map(|(a, b)| (a.0, b.0)).collect();
    let mut line = format!("C18 sweep_self D {} | #{}", items_line(items), got.len());
    for (a, b) in &got { line += &format!(" #{} #{}", a, b); }
    let nontrivial = (0..items.len()).any(|i| ((i + 1)..items.len()).any(|j| ov(&items[i], &items[j])));
    stats.case(&line, nontrivial);
    stats.count("sweep_self");
    println!("{}", line);
    let src: Vec<B> = items.iter().cloned().filter(|b| b.0 % 2 == 0).collect();
    let tgt: Vec<B> = items.iter().cloned().filter(|b| b.0 % 2 == 1).collect();
    let got: Vec<(usize, usize)> = sweep_against(src.iter(), tgt.iter()).map(|(a, b)| (a.0, b.0)).collect();
    let mut line = format!("C18 sweep_against D {} {} | #{}", items_line(&src), items_line(&tgt), got.len());
    for (a, b) in &got { line += &format!(" #{} #{}", a, b); }
    stats.case(&line, src.iter().any(|s| tgt.iter().any(|t| ov(s, t))));
    stats.count("sweep_against");
    println!("{}", line);
}

fn random_ranges(rng: &mut Rng, n: usize) -> Vec<Range<f64>> {
    let snap = rng.b();
    let shift = match rng.i(3) { 0 => 0.0, 1 => 50.0, _ => 250.0 };
    (0..n).map(|_| {
        let mut s = rng.r(0.0, 100.0);
        let mut len = match rng.i(6) { 0 => 0.0, 1 => rng.r(0.0, 1.0), _ => rng.r(0.0, 100.0) };
        if snap { s = (s / 5.0).round() * 5.0; len = (len / 5.0).round() * 5.0; }
        let s = s - shift;
        s..(s + len)
    }).collect()
}

fn random_boxes(rng: &mut Rng, n: usize) -> Vec<B> {
    let snap = rng.b();
    // a third of the collections straddle 0, a third lie wholly at negative x
    let (xshift, yshift) = match rng.i(3) { 0 => (0.0, 0.0), 1 => (50.0, 20.0), _ => (250.0, 0.0) };
    let mut items: Vec<B> = (0..n).map(|_| {
        let mut v = [rng.r(0.0, 100.0), rng.r(0.0, 30.0), rng.r(0.0, 100.0), rng.r(0.0, 30.0)];
        if rng.i(5) == 0 { v[1] = 0.0; }
        if rng.i(5) == 0 { v[3] = 0.0; }
        if snap { for k in 0..4 { v[k] = (v[k] / 10.0).round() * 10.0; } }
        v[0] -= xshift; v[2] -= yshift;
        B(0, v[0], v[0] + v[1], v[2], v[2] + v[3])
    }).collect();
    items.sort_by(|a, b| a.1.partial_cmp(&b.1).unwrap());
    for (i, b) in items.iter_mut().enumerate() { b.0 = i; }
    items
}

/// transcript: exhaustive small grids first (size depends on n), then random collections
pub fn corr(seed: u64, n: u64) {
    let mut rng = Rng(seed ^ 0xC18);
    let mut stats = Stats::new();
    let thorough = n >= 100000;
    // --- Space1D, exhaustive: all ordered collections of <= 3 ranges on a 4-grid, unordered of 4 (quick: every 5th)
    let grid = 4;
    let all = grid_ranges(grid);
    let k = all.len();
    let mut emit = |rs: Vec<Range<f64>>, stats: &mut Stats, rng: &mut Rng, few: bool| {
        let line = space_line(&rs, Some(grid), rng, few);
        stats.case(&line, nontrivial_ranges(&rs));
        stats.count(&format!("space.grid.{}", rs.len()));
        println!("{}", line);
    };
    emit(vec![], &mut stats, &mut rng, false);
    for a in 0..k { emit(vec![all[a].clone()], &mut stats, &mut rng, false); }
    for a in 0..k { for b in 0..k { emit(vec![all[a].clone(), all[b].clone()], &mut stats, &mut rng, false); } }
    for a in 0..k { for b in 0..k { for c in 0..k { emit(vec![all[a].clone(), all[b].clone(), all[c].clone()], &mut stats, &mut rng, true); } } }
    let mut cnt = 0u64;
    for a in 0..k { for b in a..k { for c in b..k { for d in c..k {
        cnt += 1;
        if thorough || cnt % 5 == seed % 5 { emit(vec![all[a].clone(), all[b].clone(), all[c].clone(), all[d].clone()], &mut stats, &mut rng, true); }
    } } } }
    if thorough {
        // 5 and 6 ranges on a 3-grid (10 ranges), unordered
        let all3 = grid_ranges(3);
        let k3 = all3.len();
        for a in 0..k3 { for b in a..k3 { for c in b..k3 { for d in c..k3 { for e in d..k3 {
            let rs = vec![all3[a].clone(), all3[b].clone(), all3[c].clone(), all3[d].clone(), all3[e].clone()];
            let line = space_line(&rs, Some(3), &mut rng, true);
            stats.case(&line, nontrivial_ranges(&rs)); stats.count("space.grid3.5"); println!("{}", line);
            for f in e..k3 {
                if (a + b + c + d + e + f) % 3 != 0 { continue; }
                let mut rs6 = rs.clone(); rs6.push(all3[f].clone());
                // insertion order matters for handles only; vary it deterministically
                rs6.rotate_left((a + f) % 6);
                let line = space_line(&rs6, Some(3), &mut rng, true);
                stats.case(&line, nontrivial_ranges(&rs6)); stats.count("space.grid3.6"); println!("{}", line);
            }
        } } } } }
    }
    // --- sweeps, exhaustive on a small grid
    let boxes = grid_boxes(3, 1);
    let nb = boxes.len();
    let max_k = if thorough { 4 } else { 3 };
    for kk in 1..=max_k {
        let mut counter = vec![0usize; kk];
        let mut c2 = 0u64;
        loop {
            c2 += 1;
            if kk < 4 || c2 % 7 == seed % 7 {
                let mut items: Vec<B> = counter.iter().map(|c| { let b = boxes[*c]; B(0, b.0, b.1, b.2, b.3) }).collect();
                items.sort_by(|a, b| a.1.partial_cmp(&b.1).unwrap());
                for (i, b) in items.iter_mut().enumerate() { b.0 = i; }
                sweep_lines(&items, &mut stats);
            }
            let mut i = 0;
            loop { if i == kk { break; } counter[i] += 1; if counter[i] < nb { break; } counter[i] = 0; i += 1; }
            if i == kk { break; }
        }
    }
    // --- random collections with real coordinates
    let n_rand = n / 20;
    for _ in 0..n_rand {
        let m = match rng.i(4) { 0 => rng.i(8) as usize, 1 => 8 + rng.i(24) as usize, _ => 32 + rng.i(169) as usize };
        let rs = random_ranges(&mut rng, m);
        let line = space_line(&rs, None, &mut rng, false);
        stats.case(&line, nontrivial_ranges(&rs));
        stats.count("space.random");
        println!("{}", line);
        let items = random_boxes(&mut rng, m);
        sweep_lines(&items, &mut stats);
    }
    stats.print("C18", "corr");
}

/// the property itself on the real code against brute force
fn check_space(ranges: &[Range<f64>], pts: &[f64], regs: &[(f64, f64)]) -> Option<(String, String)> {
    let space = Space1D::from_data(ranges.iter().cloned().enumerate().map(|(i, r)| (r, i)));
    let regions: Vec<(Range<f64>, Vec<usize>)> = space.all_regions().map(|(r, d)| (r, d.into_iter().cloned().collect())).collect();
    for (r, _) in &regions { if !(r.start < r.end) { return Some(("all_regions_empty_range".into(), format!("region {:?}", r))); } }
    for w in regions.windows(2) { if !(w[0].0.end <= w[1].0.start) { return Some(("all_regions_overlap_or_unsorted".into(), format!("{:?} {:?}", w[0].0, w[1].0))); } }
    for x in pts {
        let mut got: Vec<usize> = space.data_at_point(*x).cloned().collect(); got.sort();
        let mut dd = got.clone(); dd.dedup();
        if dd.len() != got.len() { return Some(("data_at_point_duplicate".into(), format!("x={} got={:?}", x, got))); }
        let want: Vec<usize> = (0..ranges.len()).filter(|i| ranges[*i].start <= *x && *x < ranges[*i].end).collect();
        if got != want { return Some(("data_at_point".into(), format!("x={} got={:?} want={:?}", x, got, want))); }
    }
    for (a, b) in regs {
        let mut got: Vec<usize> = space.data_in_region(*a..*b).cloned().collect(); got.sort();
        let mut dd = got.clone(); dd.dedup();
        if dd.len() != got.len() { return Some(("data_in_region_duplicate".into(), format!("region={}..{} got={:?}", a, b, got))); }
        let want: Vec<usize> = (0..ranges.len()).filter(|i| ranges[*i].start < *b && *a < ranges[*i].end && ranges[*i].start < ranges[*i].end).collect();
        if got != want { return Some(("data_in_region".into(), format!("region={}..{} got={:?} want={:?}", a, b, got, want))); }
    }
    None
}

fn check_sweeps(items: &[B]) -> Option<(String, String)> {
    let k = items.len();
    let mut got: Vec<(usize, usize)> = sweep_self(items.iter()).map(|(a, b)| (a.0.min(b.0), a.0.max(b.0))).collect(); got.sort();
    let mut want = vec![];
    for i in 0..k { for j in (i + 1)..k { if ov(&items[i], &items[j]) { want.push((i, j)); } } }
    want.sort();
    if got != want { return Some(("sweep_self".into(), format!("got={:?} want={:?}", got, want))); }
    let src: Vec<B> = items.iter().cloned().filter(|b| b.0 % 2 == 0).collect();
    let tgt: Vec<B> = items.iter().cloned().filter(|b| b.0 % 2 == 1).collect();
    let mut got: Vec<(usize, usize)> = sweep_against(src.iter(), tgt.iter()).map(|(a, b)| (a.0, b.0)).collect(); got.sort();
    let mut want = vec![];
    for s in &src { for t in &tgt { if ov(s, t) { want.push((s.0, t.0)); } } }
    want.sort();
    if got != want { return Some(("sweep_against".into(), format!("src={:?} tgt={:?} got={:?} want={:?}", src, tgt, got, want))); }
    None
}

pub fn search(seed: u64, n: u64) {
    let mut rng = Rng(seed ^ 0x5EA2C18);
    let mut stats = Stats::new();
    let thorough = n >= 100000;
    // exhaustive grids
    let grid = 4;
    let all = grid_ranges(grid);
    let k = all.len();
    let pts = query_points(&[], Some(grid), &mut rng);
    let regs = query_regions(&[], Some(grid), &mut rng);
    let mut run = |rs: Vec<Range<f64>>, stats: &mut Stats| {
        let desc = format!("ranges={:?}", rs);
        stats.case(&desc, nontrivial_ranges(&rs));
        if let Some((key, d)) = check_space(&rs, &pts, &regs) { stats.fail("C18", &key, &format!("{} {}", desc, d)); }
    };
    for a in 0..k { run(vec![all[a].clone()], &mut stats); }
    for a in 0..k { for b in 0..k { run(vec![all[a].clone(), all[b].clone()], &mut stats); } }
    for a in 0..k { for b in 0..k { for c in 0..k { run(vec![all[a].clone(), all[b].clone(), all[c].clone()], &mut stats); } } }
    for a in 0..k { for b in a..k { for c in b..k { for d in c..k { run(vec![all[d].clone(), all[b].clone(), all[a].clone(), all[c].clone()], &mut stats); } } } }
    stats.add("space.grid4.exhaustive_upto", 4);
    if thorough {
        let all3 = grid_ranges(3);
        let k3 = all3.len();
        let pts3 = query_points(&[], Some(3), &mut rng);
        let regs3 = query_regions(&[], Some(3), &mut rng);
        for a in 0..k3 { for b in a..k3 { for c in b..k3 { for d in c..k3 { for e in d..k3 { for f in e..k3 {
            let mut rs = vec![all3[a].clone(), all3[b].clone(), all3[c].clone(), all3[d].clone(), all3[e].clone(), all3[f].clone()];
            rs.rotate_left((a + c + f) % 6);
            let desc = format!("ranges={:?}", rs);
            stats.case(&desc, nontrivial_ranges(&rs));
            if let Some((key, dd)) = check_space(&rs, &pts3, &regs3) { stats.fail("C18", &key, &format!("{} {}", desc, dd)); }
        } } } } } }
        stats.add("space.grid3.exhaustive_6", 1);
    }
    let boxes = grid_boxes(3, 1);
    let nb = boxes.len();
    let max_k = if thorough { 5 } else { 4 };
    for kk in 1..=max_k {
        let mut counter = vec![0usize; kk];
        let mut c2 = 0u64;
        loop {
            c2 += 1;
            if kk < 5 || c2 % 11 == seed % 11 {
                let mut items: Vec<B> = counter.iter().map(|c| { let b = boxes[*c]; B(0, b.0, b.1, b.2, b.3) }).collect();
                items.sort_by(|a, b| a.1.partial_cmp(&b.1).unwrap());
                for (i, b) in items.iter_mut().enumerate() { b.0 = i; }
                let desc = format!("boxes={:?}", items);
                stats.case(&desc, (0..kk).any(|i| ((i + 1)..kk).any(|j| ov(&items[i], &items[j]))));
                if let Some((key, d)) = check_sweeps(&items) { stats.fail("C18", &key, &format!("{} {}", desc, d)); }
            }
            let mut i = 0;
            loop { if i == kk { break; } counter[i] += 1; if counter[i] < nb { break; } counter[i] = 0; i += 1; }
            if i == kk { break; }
        }
    }
    // random
    for _ in 0..(n / 10) {
        let m = match rng.i(4) { 0 => rng.i(8) as usize, 1 => 8 + rng.i(24) as usize, _ => 32 + rng.i(169) as usize };
        let rs = random_ranges(&mut rng, m);
        let pts = query_points(&rs, None, &mut rng);
        let regs = query_regions(&rs, None, &mut rng);
        let desc = format!("ranges={:?}", rs);
        stats.case(&desc, nontrivial_ranges(&rs));
        stats.count("space.random");
        if let Some((key, d)) = check_space(&rs, &pts, &regs) { stats.fail("C18", &key, &format!("{} {}", desc, d)); }
        let items = random_boxes(&mut rng, m);
        let desc = format!("boxes={:?}", items);
        stats.case(&desc, true);
        stats.count("sweep.random");
        if let Some((key, d)) = check_sweeps(&items) { stats.fail("C18", &key, &format!("{} {}", desc, d)); }
    }
    stats.print("C18", "search");
}
