use flo_curves::*;
use flo_curves::arc::*;
use flo_curves::bezier::*;
use flo_curves::bezier::path::*;
use crate::misc::Rng;

pub type P = SimpleBezierPath;

pub fn flatten(p: &P) -> Vec<Coord2> {
    let mut out = vec![];
    for c in p.to_curves::<Curve<Coord2>>() { for k in 0..48 { out.push(c.point_at_pos(k as f64/48.0)); } }
    out
}
pub fn dist_seg(p: Coord2, a: Coord2, b: Coord2) -> f64 { let ab = b-a; let l2 = ab.dot(&ab); if l2 == 0.0 { return p.distance_to(&a); } let t = ((p-a).dot(&ab)/l2).max(0.0).min(1.0); p.distance_to(&(a+ab*t)) }
pub fn dist_poly(p: Coord2, poly: &Vec<Coord2>) -> f64 { let n = poly.len(); let mut d = f64::MAX; for i in 0..n { d = d.min(dist_seg(p, poly[i], poly[(i+1)%n])); } d }
pub fn winding(p: Coord2, poly: &Vec<Coord2>) -> i32 { let n = poly.len(); let mut w = 0; for i in 0..n { let (a, b) = (poly[i], poly[(i+1)%n]); if a.1 <= p.1 { if b.1 > p.1 && (b.0-a.0)*(p.1-a.1) - (p.0-a.0)*(b.1-a.1) > 0.0 { w += 1; } } else { if b.1 <= p.1 && (b.0-a.0)*(p.1-a.1) - (p.0-a.0)*(b.1-a.1) < 0.0 { w -= 1; } } } w }
pub fn evenodd(p: Coord2, polys: &Vec<Vec<Coord2>>) -> bool { polys.iter().filter(|q| winding(p, q) != 0).count() % 2 == 1 }

pub fn polygon(pts: &Vec<Coord2>) -> P { let mut b = BezierPathBuilder::<P>::start(pts[0]); for q in &pts[1..] { b = b.line_to(*q); } b.line_to(pts[0]).build() }
pub fn rand_shape(rng: &mut Rng) -> P {
    match rng.i(4) {
        0 => Circle::new(Coord2(rng.r(30.0,70.0), rng.r(30.0,70.0)), rng.r(5.0,25.0)).to_path::<P>(),
        1 => { // star-shaped polygon
            let (cx, cy) = (rng.r(30.0,70.0), rng.r(30.0,70.0)); let n = 3 + rng.i(6) as usize; let mut pts = vec![];
            for k in 0..n { let a = (k as f64 + rng.r(0.1,0.9)) / n as f64 * std::f64::consts::TAU; let r = rng.r(8.0, 28.0); pts.push(Coord2(cx + r*a.cos(), cy + r*a.sin())); }
            if rng.i(2) == 0 { pts.reverse(); } polygon(&pts) }
        2 => { // grid rectangle
            let x0 = 10.0*rng.i(6) as f64 + 10.0; let y0 = 10.0*rng.i(6) as f64 + 10.0; let w = 10.0*(1+rng.i(3)) as f64; let h = 10.0*(1+rng.i(3)) as f64;
            let mut pts = vec![Coord2(x0,y0), Coord2(x0+w,y0), Coord2(x0+w,y0+h), Coord2(x0,y0+h)]; if rng.i(2) == 0 { pts.reverse(); } let s = rng.i(4) as usize; pts.rotate_left(s); polygon(&pts) }
        _ => { // smooth blob: circle with perturbed control points via fit? use polygon w/ many points through circle path scaled
            let c = Circle::new(Coord2(rng.r(30.0,70.0), rng.r(30.0,70.0)), rng.r(8.0,20.0)).to_path::<P>();
            let (sp, pts) = c; let k = rng.r(0.8,1.25); let cx = sp.0; let _ = cx;
            (sp, pts.into_iter().map(|(a,b,c)| (a*k + c*(1.0-k), b*k + c*(1.0-k), c)).collect()) }
    }
}

pub fn c01(n: usize, seed: u64) {
    let mut rng = Rng(seed); let mut fails = 0; let mut total = 0; let mut probes = 0u64;
    for it in 0..n {
        let a = vec![rand_shape(&mut rng)]; let b = vec![rand_shape(&mut rng)];
        let fa: Vec<_> = a.iter().map(flatten).collect(); let fb: Vec<_> = b.iter().map(flatten).collect();
        for op in 0..3 {
            total += 1;
            let res = std::panic::catch_unwind(|| match op { 0 => path_add::<P>(&a, &b, 0.01), 1 => path_sub::<P>(&a, &b, 0.01), _ => path_intersect::<P>(&a, &b, 0.01) });
            let res = match res { Ok(r) => r, Err(_) => { println!("C01 PANIC it={} op={}", it, op); fails += 1; continue; } };
            let fr: Vec<_> = res.iter().map(flatten).collect();
            let mut bad = None;
            for _ in 0..100 {
                let p = Coord2(rng.r(0.0,100.0), rng.r(0.0,100.0));
                if fa.iter().chain(fb.iter()).any(|q| dist_poly(p, q) < 0.25) { continue; }
                probes += 1;
                let (ia, ib, ir) = (evenodd(p, &fa), evenodd(p, &fb), evenodd(p, &fr));
                let want = match op { 0 => ia || ib, 1 => ia && !ib, _ => ia && ib };
                if ir != want { bad = Some((p, ia, ib, ir)); break; }
            }
            if let Some(b_) = bad { if fails < 8 { println!("C01 FAIL it={} op={} probe {:?}\n  A={:?}\n  B={:?}", it, op, b_, a, b); } fails += 1; }
        }
    }
    println!("C01: {} operations, {} probes, {} failures", total, probes, fails);
}

pub fn c07(n: usize, seed: u64) {
    let mut rng = Rng(seed); let mut fails = 0; let mut total = 0u64; let mut excluded = 0u64;
    for _ in 0..n {
        let a = rand_shape(&mut rng); let fa = flatten(&a);
        let (mn, mx): (Coord2, Coord2) = a.bounding_box();
        let corner = mx + Coord2(0.01, 0.01);
        let verts: Vec<Coord2> = a.to_curves::<Curve<Coord2>>().iter().map(|c| c.start_point()).collect();
        for _ in 0..100 {
            let p = Coord2(rng.r(mn.0-5.0, mx.0+5.0), rng.r(mn.1-5.0, mx.1+5.0));
            if dist_poly(p, &fa) < 0.1 { continue; }
            // precondition: segment corner->p stays 0.1 clear of vertices (tangency not checked here)
            if verts.iter().any(|v| dist_seg(*v, corner, p) < 0.1) { excluded += 1; continue; }
            total += 1;
            let got = path_contains_point(&a, &p); let want = winding(p, &fa) != 0;
            if got != want { if fails < 8 { println!("C07 FAIL p={:?} got {} want {} path={:?}", p, got, want, a); } fails += 1; }
        }
    }
    println!("C07: {} points, {} excluded, {} failures", total, excluded, fails);
}

