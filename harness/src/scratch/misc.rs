use flo_curves::*;
use flo_curves::bezier::*;
use flo_curves::line::*;

pub struct Rng(pub u64);
impl Rng { pub fn next(&mut self) -> u64 { self.0 = self.0.wrapping_add(0x9E3779B97F4A7C15); let mut z = self.0; z = (z ^ (z >> 30)).wrapping_mul(0xBF58476D1CE4E5B9); z = (z ^ (z >> 27)).wrapping_mul(0x94D049BB133111EB); z ^ (z >> 31) }
  pub fn f(&mut self) -> f64 { (self.next() >> 11) as f64 / (1u64 << 53) as f64 }
  pub fn r(&mut self, a: f64, b: f64) -> f64 { a + (b-a)*self.f() }
  pub fn i(&mut self, n: u64) -> u64 { self.next() % n } }

pub fn c04_clip() {
    // grid: points in 0..=4 (step 1), box corners on grid; brute force over t in k/240 (240 divisible by 1..4 deltas?) check maximal sub-segment
    let mut fails = 0; let mut total = 0u64;
    let g = 4i32;
    for x1 in 0..=g { for y1 in 0..=g { for x2 in 0..=g { for y2 in 0..=g {
    for bx0 in 0..=g { for bx1 in bx0..=g { for by0 in 0..=g { for by1 in by0..=g {
        let line = (Coord2(x1 as f64, y1 as f64), Coord2(x2 as f64, y2 as f64));
        let bounds = (Coord2(bx0 as f64, by0 as f64), Coord2(bx1 as f64, by1 as f64));
        total += 1;
        let res = line_clip_to_bounds(&line, &bounds);
        // exact: the set of t in [0,1] with point in box is an interval [lo,hi]; compute via rational reasoning in f64 on this small grid using dense sampling with denominators: t candidates = (edge - p)/d are rationals with denominators <=4 -> use t = k/ (lcm(1..4)=12) *? use 1/48 grid
        let inside = |t: f64| { let x = x1 as f64 + t*(x2-x1) as f64; let y = y1 as f64 + t*(y2-y1) as f64; x >= bx0 as f64 - 1e-12 && x <= bx1 as f64 + 1e-12 && y >= by0 as f64 - 1e-12 && y <= by1 as f64 + 1e-12 };
        let mut lo = None; let mut hi = None;
        for k in 0..=48 { let t = k as f64/48.0; if inside(t) { if lo.is_none() { lo = Some(t); } hi = Some(t); } }
        match (res, lo) {
            (None, None) => {},
            (Some(seg), Some(lo)) => {
                let hi = hi.unwrap();
                let (p, q) = seg;
                let ep = Coord2(x1 as f64 + lo*(x2-x1) as f64, y1 as f64 + lo*(y2-y1) as f64);
                let eq = Coord2(x1 as f64 + hi*(x2-x1) as f64, y1 as f64 + hi*(y2-y1) as f64);
                if p.distance_to(&ep) > 1e-9 || q.distance_to(&eq) > 1e-9 { if fails < 6 { println!("C04 clip FAIL line {:?} box {:?}: got {:?} want {:?}-{:?}", line, bounds, (p,q), ep, eq); } fails += 1; }
            }
            (a, b) => { if fails < 6 { println!("C04 clip FAIL line {:?} box {:?}: got {:?} want lo {:?}", line, bounds, a, b); } fails += 1; }
        }
    }}}} }}}}
    println!("C04 clip: {} cases, {} failures", total, fails);
}

pub fn c04_lines() {
    let mut fails = 0; let mut total = 0u64; let g = 3i32;
    for x1 in 0..=g { for y1 in 0..=g { for x2 in 0..=g { for y2 in 0..=g { for x3 in 0..=g { for y3 in 0..=g { for x4 in 0..=g { for y4 in 0..=g {
        let l1 = (Coord2(x1 as f64, y1 as f64), Coord2(x2 as f64, y2 as f64));
        let l2 = (Coord2(x3 as f64, y3 as f64), Coord2(x4 as f64, y4 as f64));
        total += 1;
        let d = (y4-y3)*(x2-x1) - (x4-x3)*(y2-y1);
        let na = (x4-x3)*(y1-y3) - (y4-y3)*(x1-x3);
        let nb = (x2-x1)*(y1-y3) - (y2-y1)*(x1-x3);
        let got = line_intersects_line(&l1, &l2);
        let want = if d == 0 { None } else {
            let (ua, ub) = (na as f64 / d as f64, nb as f64 / d as f64);
            if ua >= 0.0 && ua <= 1.0 && ub >= 0.0 && ub <= 1.0 { Some(Coord2(x1 as f64 + ua*(x2-x1) as f64, y1 as f64 + ua*(y2-y1) as f64)) } else { None } };
        let ok = match (got, want) { (None, None) => true, (Some(a), Some(b)) => a.distance_to(&b) < 1e-12, _ => false };
        if !ok { if fails < 6 { println!("C04 lil FAIL {:?} {:?} got {:?} want {:?} (d={}, na={}, nb={})", l1, l2, got, want, d, na, nb); } fails += 1; }
    }}}}}}}}
    println!("C04 line_intersects_line: {} cases, {} failures", total, fails);
}

pub fn c06() {
    let mut rng = Rng(1); let mut fails = 0; let mut total = 0;
    for it in 0..200000 {
        let mode = it % 4;
        let mut p = [0.0f64; 4];
        for k in 0..4 { p[k] = rng.r(0.0, 100.0); }
        if mode == 1 { // tiny leading coefficient: p4 = p1 - 3p2 + 3p3 + eps
            let eps = 10f64.powf(rng.r(-17.0, -8.0)) * if rng.i(2)==0 {1.0} else {-1.0};
            p[3] = p[0] - 3.0*p[1] + 3.0*p[2] + eps*3.0; }
        if mode == 2 { p[3] = p[0] - 3.0*p[1] + 3.0*p[2]; }
        if mode == 3 { for k in 0..4 { p[k] = (p[k]/12.5).round()*12.5; } }
        let c = Curve::from_points(p[0], (p[1], p[2]), p[3]);
        let Bounds(mn, mx) = c.bounding_box::<Bounds<f64>>();
        let size = p.iter().cloned().fold(0.0, f64::max) - p.iter().cloned().fold(1e300, f64::min) + 1e-300;
        total += 1;
        let mut lo = f64::MAX; let mut hi = f64::MIN;
        for k in 0..=2000 { let t = k as f64/2000.0; let v = c.point_at_pos(t); lo = lo.min(v); hi = hi.max(v); }
        // refine extrema by golden-ish local search not needed: containment check
        if lo < mn - 1e-9*size || hi > mx + 1e-9*size { if fails < 6 { println!("C06 contain FAIL {:?} box {:?} range {} {}", p, (mn,mx), lo, hi); } fails += 1; }
        // tightness: faces touched to within curve resolution
        if (lo - mn).abs() > 1e-3*size + 1e-9 || (hi - mx).abs() > 1e-3*size + 1e-9 { if fails < 12 { println!("C06 tight FAIL {:?} box {:?} range {} {}", p, (mn,mx), lo, hi); } fails += 1; }
        for t in c.find_extremities() { if !(t > 0.0 && t <= 1.0) { println!("C06 extremity out of range {}", t); fails += 1; } }
    }
    println!("C06 1-D: {} curves, {} failures", total, fails);
}

pub fn c19() {
    let mut rng = Rng(7); let mut fails = 0; let mut total = 0;
    for it in 0..20000 {
        let mut pts = [Coord2(0.0,0.0); 4];
        for k in 0..4 { pts[k] = Coord2(rng.r(0.0,100.0), rng.r(0.0,100.0)); }
        if it % 5 == 1 { pts[1] = pts[0]; } if it % 5 == 2 { pts[3] = pts[0]; } if it % 5 == 3 { let d = pts[3]-pts[0]; pts[1] = pts[0] + d*rng.f(); pts[2] = pts[0]+d*rng.f(); }
        if it % 50 == 4 { pts = [pts[0]; 4]; }
        let c = Curve::from_points(pts[0], (pts[1], pts[2]), pts[3]);
        let chord = chord_length(&c); let poly = control_polygon_length(&c);
        let mut truth = 0.0; let mut last = c.point_at_pos(0.0);
        for k in 1..=20000 { let p = c.point_at_pos(k as f64/20000.0); truth += last.distance_to(&p); last = p; }
        for e in [1e-2, 1e-4, 1e-8] {
            total += 1;
            let l = curve_length(&c, e);
            let tol = if e == 1e-2 { 0.1 } else { 1e-3 };
            let mut bad = vec![];
            if l < chord - 1e-9 || l > poly + 1e-9 { bad.push("bracket"); }
            if e != 1e-4 && (l - truth).abs() > tol { bad.push("accuracy"); }
            let r: Curve<Coord2> = c.clone().reverse(); let lr = curve_length(&r, e);
            if (l - lr).abs() > 1e-9 { bad.push("reverse"); }
            let (a, b): (Curve<Coord2>, Curve<Coord2>) = c.subdivide(rng.r(0.1,0.9)); let ls = curve_length(&a, e) + curve_length(&b, e);
            if (l - ls).abs() > tol { bad.push("additive"); }
            if e == 1e-4 { bad.retain(|b| *b != "additive"); }
            if !bad.is_empty() { if fails < 10 { println!("C19 FAIL {:?} e={} len={} truth={} chord={} poly={} rev={} split={} {:?}", pts, e, l, truth, chord, poly, lr, ls, bad); } fails += 1; }
        }
    }
    println!("C19: {} evaluations, {} failures", total, fails);
}

pub fn c09() {
    let mut rng = Rng(11); let mut fails = 0; let mut total = 0;
    for it in 0..20000 {
        let mut pts = [Coord2(0.0,0.0); 4];
        for k in 0..4 { pts[k] = Coord2(rng.r(0.0,100.0), rng.r(0.0,100.0)); }
        if it % 7 == 1 { pts[1] = pts[0]; pts[2] = pts[3]; }
        if it % 7 == 2 { let d = pts[3]-pts[0]; pts[1] = pts[0] + d*rng.f(); pts[2] = pts[0]+d*rng.f(); }
        if it % 7 == 3 { pts[3] = pts[0]; }
        if it % 7 == 4 { let a = pts[1]; pts[1] = pts[2]; pts[2] = a; }
        let c = Curve::from_points(pts[0], (pts[1], pts[2]), pts[3]);
        let q = match it % 3 { 0 => Coord2(rng.r(-100.0,200.0), rng.r(-100.0,200.0)), 1 => c.point_at_pos(rng.f()), _ => Coord2(rng.r(0.0,100.0), rng.r(0.0,100.0)) };
        total += 1;
        let t = c.nearest_t(&q);
        let d = c.point_at_pos(t).distance_to(&q);
        let mut best = f64::MAX; let mut bt = 0.0;
        for k in 0..=4000 { let tt = k as f64/4000.0; let dd = c.point_at_pos(tt).distance_to(&q); if dd < best { best = dd; bt = tt; } }
        if !(t >= 0.0 && t <= 1.0) || d > best + 0.01 { if fails < 10 { println!("C09 FAIL curve {:?} q {:?}: t={} d={} brute t={} d={}", pts, q, t, d, bt, best); } fails += 1; }
    }
    println!("C09: {} queries, {} failures", total, fails);
}

