use flo_curves::*;
use flo_curves::geo::*;
use std::ops::Range;
mod c17;
mod misc;
mod paths;
mod more;
mod dbg;
mod more2;
mod c20;
mod tangent;
//mod c13;
mod c03;

// ---------- C18: Space1D exhaustive on small grid ----------
fn check_space(ranges: &Vec<Range<f64>>, grid: i32) -> Option<String> {
    let space = Space1D::from_data(ranges.iter().cloned().enumerate().map(|(i, r)| (r, i)));
    // all_regions sorted, non-overlapping, non-empty
    let regions: Vec<(Range<f64>, Vec<usize>)> = space.all_regions().map(|(r, d)| (r, d.into_iter().cloned().collect())).collect();
    for (r, _) in &regions { if !(r.start < r.end) { return Some(format!("empty/inverted region {:?}", r)); } }
    for w in regions.windows(2) { if !(w[0].0.end <= w[1].0.start) { return Some(format!("overlapping/unsorted regions {:?} {:?}", w[0].0, w[1].0)); } }
    // data_at_point at every half-grid point
    let mut x = -0.5;
    while x <= grid as f64 + 0.5 {
        let mut got: Vec<usize> = space.data_at_point(x).cloned().collect(); got.sort();
        let mut dup = got.clone(); dup.dedup();
        if dup.len() != got.len() { return Some(format!("duplicate at point {} {:?}", x, got)); }
        let want: Vec<usize> = (0..ranges.len()).filter(|i| ranges[*i].start <= x && x < ranges[*i].end).collect();
        if got != want { return Some(format!("data_at_point({}) = {:?} want {:?}", x, got, want)); }
        x += 0.5;
    }
    // data_in_region for all grid regions (incl half points)
    let mut a = -0.5;
    while a <= grid as f64 + 0.5 {
        let mut b = a + 0.5;
        while b <= grid as f64 + 1.0 {
            let got_v: Vec<usize> = space.data_in_region(a..b).cloned().collect();
            let mut got = got_v.clone(); got.sort();
            let mut dd = got.clone(); dd.dedup();
            if dd.len() != got.len() { return Some(format!("dup in region {}..{}: {:?}", a, b, got_v)); }
            let want: Vec<usize> = (0..ranges.len()).filter(|i| ranges[*i].start < b && a < ranges[*i].end && ranges[*i].start < ranges[*i].end).collect();
            if got != want { return Some(format!("data_in_region({}..{}) = {:?} want {:?}", a, b, got, want)); }
            b += 0.5;
        }
        a += 0.5;
    }
    None
}

fn c18_space() {
    let grid = 4;
    let mut all: Vec<Range<f64>> = vec![];
    for s in 0..=grid { for e in s..=grid { all.push((s as f64)..(e as f64)); } }
    let n = all.len();
    let mut fails = 0; let mut total = 0u64;
    let mut report = |rs: &Vec<Range<f64>>, msg: String, fails: &mut i32| { if *fails < 8 { println!("C18 FAIL {:?}: {}", rs, msg); } *fails += 1; };
    for a in 0..n { let rs = vec![all[a].clone()]; total+=1; if let Some(m) = check_space(&rs, grid) { report(&rs, m, &mut fails); } }
    for a in 0..n { for b in 0..n { let rs = vec![all[a].clone(), all[b].clone()]; total+=1; if let Some(m) = check_space(&rs, grid) { report(&rs, m, &mut fails); } } }
    for a in 0..n { for b in 0..n { for c in 0..n { let rs = vec![all[a].clone(), all[b].clone(), all[c].clone()]; total+=1; if let Some(m) = check_space(&rs, grid) { report(&rs, m, &mut fails); } } } }
    for a in 0..n { for b in a..n { for c in b..n { for d in c..n { let rs = vec![all[a].clone(), all[b].clone(), all[c].clone(), all[d].clone()]; total+=1; if let Some(m) = check_space(&rs, grid) { report(&rs, m, &mut fails); } } } } }
    println!("C18 space: {} collections, {} failures", total, fails);
}

// ---------- C18: sweeps ----------
#[derive(Clone, Copy, Debug, PartialEq)]
struct B(usize, f64, f64, f64, f64);
impl Geo for B { type Point = Coord2; }
impl HasBoundingBox for B { fn get_bounding_box<Bd: BoundingBox<Point=Coord2>>(&self) -> Bd { Bd::from_min_max(Coord2(self.1, self.3), Coord2(self.2, self.4)) } }
fn ov(a: &B, b: &B) -> bool { !(a.1 > b.2 || b.1 > a.2 || a.3 > b.4 || b.3 > a.4) }

fn c18_sweep() {
    // boxes on grid 0..3 in x, y in {0..2}
    let mut boxes = vec![];
    for x0 in 0..=3 { for x1 in x0..=3 { for y0 in 0..=1 { for y1 in y0..=1 { boxes.push((x0 as f64, x1 as f64, y0 as f64, y1 as f64)); } } } }
    let n = boxes.len();
    let mut fails = 0; let mut total = 0u64;
    let mut idxs = vec![0usize; 4];
    for k in 1..=4usize {
        let mut counter = vec![0usize; k];
        loop {
            let mut items: Vec<B> = counter.iter().enumerate().map(|(i, c)| { let b = boxes[*c]; B(i, b.0, b.1, b.2, b.3) }).collect();
            items.sort_by(|a, b| a.1.partial_cmp(&b.1).unwrap());
            total += 1;
            let mut got: Vec<(usize, usize)> = sweep_self(items.iter()).map(|(a, b)| (a.0.min(b.0), a.0.max(b.0))).collect(); got.sort();
            let mut want = vec![]; for i in 0..k { for j in (i+1)..k { if ov(&items[i], &items[j]) { want.push((items[i].0.min(items[j].0), items[i].0.max(items[j].0))); } } } want.sort();
            if got != want { if fails < 5 { println!("C18 sweep_self FAIL {:?} got {:?} want {:?}", items, got, want); } fails += 1; }
            // sweep_against: split items into src (even idx) tgt (odd idx)
            let src: Vec<B> = items.iter().cloned().filter(|b| b.0 % 2 == 0).collect();
            let tgt: Vec<B> = items.iter().cloned().filter(|b| b.0 % 2 == 1).collect();
            let mut got: Vec<(usize, usize)> = sweep_against(src.iter(), tgt.iter()).map(|(a, b)| (a.0, b.0)).collect(); got.sort();
            let mut want = vec![]; for s in &src { for t in &tgt { if ov(s, t) { want.push((s.0, t.0)); } } } want.sort();
            if got != want { if fails < 10 { println!("C18 sweep_against FAIL src {:?} tgt {:?} got {:?} want {:?}", src, tgt, got, want); } fails += 1; }
            // next
            let mut i = 0; loop { if i == k { break; } counter[i] += 1; if counter[i] < n { break; } counter[i] = 0; i += 1; }
            if i == k { break; }
            if k == 4 && total > 3_000_000 { break; }
        }
    }
    let _ = &mut idxs;
    println!("C18 sweeps: {} collections, {} failures", total, fails);
}

fn main() {
    let which = std::env::args().nth(1).unwrap_or_default();
    match which.as_str() { "space" => c18_space(), "sweep" => c18_sweep(), "c17" => c17::run(), "clip" => misc::c04_clip(), "lil" => misc::c04_lines(), "c06" => misc::c06(), "c19" => misc::c19(), "c09" => misc::c09(), "c01" => paths::c01(400, 5), "c07" => paths::c07(2000, 9), "c02" => more::c02(3000), "c16" => more::c16(600), "c08" => more::c08(700), "c15" => more::c15(2000), "dbg" => dbg::run(), "c20" => c20::run(), "tangent" => tangent::run(),  "c03" => c03::run(2000), "c11" => more2::c11_c12(150), "stars" => more2::c12_stars(), "c14" => more2::c14(300), "c10" => more2::c10(600), _ => {} }
}

