use flo_curves::*;
use flo_curves::bezier::*;
use flo_curves::bezier::path::*;
use flo_curves::bezier::rasterize::*;
use flo_curves::bezier::vectorize::*;
use crate::misc::Rng;
use crate::paths::*;

fn rand_curve(rng: &mut Rng, mode: u64) -> Curve<Coord2> {
    let mut p = [Coord2(0.0,0.0); 4]; for k in 0..4 { p[k] = Coord2(rng.r(0.0,100.0), rng.r(0.0,100.0)); }
    match mode { 1 => { let d = p[3]-p[0]; let n = Coord2(-d.1, d.0)*0.02; p[1] = p[0]+d*0.3+n*rng.r(-1.0,1.0); p[2] = p[0]+d*0.7+n*rng.r(-1.0,1.0); } 2 => { let a = p[1]; p[1] = p[2]; p[2] = a; } _ => {} }
    Curve::from_points(p[0], (p[1], p[2]), p[3])
}

// oracle: recursive subdivision on bounding boxes + newton
fn boxes_overlap(a: &Curve<Coord2>, b: &Curve<Coord2>) -> bool { let x: Bounds<Coord2> = a.fast_bounding_box(); let y: Bounds<Coord2> = b.fast_bounding_box(); x.overlaps(&y) }
fn find(a: &Curve<Coord2>, ta: (f64,f64), b: &Curve<Coord2>, tb: (f64,f64), depth: u32, out: &mut Vec<(f64,f64)>) {
    if !boxes_overlap(a, b) { return; }
    if depth == 16 { out.push(((ta.0+ta.1)/2.0, (tb.0+tb.1)/2.0)); return; }
    let (a1, a2): (Curve<Coord2>, Curve<Coord2>) = a.subdivide(0.5); let (b1, b2): (Curve<Coord2>, Curve<Coord2>) = b.subdivide(0.5);
    let (ma, mb) = ((ta.0+ta.1)/2.0, (tb.0+tb.1)/2.0);
    find(&a1, (ta.0,ma), &b1, (tb.0,mb), depth+1, out); find(&a1, (ta.0,ma), &b2, (mb,tb.1), depth+1, out);
    find(&a2, (ma,ta.1), &b1, (tb.0,mb), depth+1, out); find(&a2, (ma,ta.1), &b2, (mb,tb.1), depth+1, out);
}
fn newton(a: &Curve<Coord2>, b: &Curve<Coord2>, mut u: f64, mut v: f64) -> Option<(f64,f64,f64)> {
    for _ in 0..30 {
        let f = a.point_at_pos(u) - b.point_at_pos(v);
        let da = a.tangent_at_pos(u); let db = b.tangent_at_pos(v);
        let det = da.0*(-db.1) - (-db.0)*da.1; if det.abs() < 1e-12 { return None; }
        let du = (f.0*(-db.1) - (-db.0)*f.1)/det; let dv = (da.0*f.1 - da.1*f.0)/det;
        u -= du; v -= dv;
    }
    let f = a.point_at_pos(u) - b.point_at_pos(v); let r = f.dot(&f).sqrt();
    let da = a.tangent_at_pos(u).to_unit_vector(); let db = b.tangent_at_pos(v).to_unit_vector(); let cross = (da.0*db.1 - da.1*db.0).abs();
    if r < 1e-9 && u >= 0.0 && u <= 1.0 && v >= 0.0 && v <= 1.0 { Some((u, v, cross)) } else { None }
}
fn oracle(a: &Curve<Coord2>, b: &Curve<Coord2>) -> Vec<(f64,f64,f64)> {
    let mut cand = vec![]; find(a, (0.0,1.0), b, (0.0,1.0), 0, &mut cand);
    let mut out: Vec<(f64,f64,f64)> = vec![];
    for (u, v) in cand { if let Some((u, v, c)) = newton(a, b, u, v) { if !out.iter().any(|(x, y, _)| (x-u).abs() < 1e-7 && (y-v).abs() < 1e-7) { out.push((u, v, c)); } } }
    out
}

pub fn c02(n: usize) {
    let mut rng = Rng(21); let mut fails = 0; let mut total = 0; let mut crossings = 0; let mut skipped = 0;
    for it in 0..n {
        let a = rand_curve(&mut rng, rng_mode(it)); let b = rand_curve(&mut rng, rng_mode(it/3));
        let orc = oracle(&a, &b);
        for acc in [0.01, 0.001] { for order in 0..2 {
            total += 1;
            let got: Vec<(f64,f64)> = if order == 0 { curve_intersects_curve_clip(&a, &b, acc).into_iter().collect() } else { curve_intersects_curve_clip(&b, &a, acc).into_iter().map(|(x, y)| (y, x)).collect() };
            let mut bad = vec![];
            for (t1, t2) in &got { if !(*t1 >= 0.0 && *t1 <= 1.0 && *t2 >= 0.0 && *t2 <= 1.0) || a.point_at_pos(*t1).distance_to(&b.point_at_pos(*t2)) > 0.1 { bad.push(format!("unsound ({},{})", t1, t2)); } }
            for (u, v, cross) in &orc {
                if *cross < 0.05 || *u < 0.02 || *u > 0.98 || *v < 0.02 || *v > 0.98 { skipped += 1; continue; }
                let pu = a.point_at_pos(*u);
                if orc.iter().any(|(x, y, _)| (x, y) != (u, v) && a.point_at_pos(*x).distance_to(&pu) < 1.0) { skipped += 1; continue; }
                crossings += 1;
                if !got.iter().any(|(t1, _)| a.point_at_pos(*t1).distance_to(&pu) < 0.1) { bad.push(format!("missed ({},{}) cross={}", u, v, cross)); }
            }
            if !bad.is_empty() { if fails < 8 { println!("C02 FAIL acc={} order={} a={:?} b={:?} got={:?} {:?}", acc, order, a, b, got, bad); } fails += 1; }
        }}
    }
    println!("C02: {} calls, {} required crossings, {} skipped, {} failures", total, crossings, skipped, fails);
}
fn rng_mode(i: usize) -> u64 { (i % 3) as u64 }

pub fn c16(n: usize) {
    let mut rng = Rng(33); let mut fails = 0; let mut total = 0u64;
    for _ in 0..n {
        let a = rand_shape(&mut rng); let fa = vec![flatten(&a)];
        let contour = PathContour::from_path(vec![a.clone()], ContourSize(100, 100));
        let verts: Vec<Coord2> = a.to_curves::<Curve<Coord2>>().iter().map(|c| c.start_point()).collect();
        for k in 0..40 {
            let y = if k % 4 == 0 { verts[rng.i(verts.len() as u64) as usize].1 } else if k % 4 == 1 { rng.i(100) as f64 } else { rng.r(0.0, 100.0) };
            let ranges = contour.intercepts_on_line(y);
            let mut bad = vec![];
            for r in ranges.iter() { if !(r.start < r.end) || r.start < 0.0 || r.end > 100.0 { bad.push(format!("bad range {:?}", r)); } }
            for w in ranges.windows(2) { if w[0].end > w[1].start { bad.push(format!("overlap {:?} {:?}", w[0], w[1])); } }
            for _ in 0..20 { let x = rng.r(0.0, 100.0); let p = Coord2(x, y); if dist_poly(p, &fa[0]) < 0.05 { continue; } total += 1;
                let got = ranges.iter().any(|r| r.start <= x && x < r.end); let want = evenodd(p, &fa);
                if got != want { bad.push(format!("x={} got {} want {}", x, got, want)); break; } }
            if !bad.is_empty() { if fails < 8 { println!("C16 FAIL y={} ranges={:?} {:?} path={:?}", y, ranges, bad, a); } fails += 1; }
        }
    }
    println!("C16: {} samples, {} failing scanlines", total, fails);
}

pub fn c08(n: usize) {
    let mut rng = Rng(44); let mut fails = 0; let mut total = 0;
    for it in 0..n {
        let c = rand_curve(&mut rng, 0); let c2 = rand_curve(&mut rng, 0);
        let len = [2usize, 3, 5, 17, 64, 150, 199][it % 7];
        let noise = if it % 2 == 0 { 0.0 } else { rng.r(0.0, 0.5) };
        let mut pts: Vec<Coord2> = (0..len).map(|k| { let t = k as f64/(len-1) as f64; let p = if it % 3 == 2 && t > 0.5 { c2.point_at_pos(t) } else { c.point_at_pos(t) }; p + Coord2(rng.r(-noise,noise), rng.r(-noise,noise)) }).collect();
        if it % 11 == 3 && len > 4 { pts[2] = pts[1]; }
        let max_error = rng.r(0.05, 2.0);
        total += 1;
        let fit = match std::panic::catch_unwind(|| fit_curve::<Curve<Coord2>>(&pts, max_error)) { Ok(Some(f)) => f, Ok(None) => { println!("C08 None for len {}", len); fails += 1; continue; } Err(_) => { println!("C08 PANIC len={} it={}", len, it); fails += 1; continue; } };
        let mut bad = vec![];
        if fit.is_empty() { bad.push("empty".to_string()); } else {
            if fit[0].start_point() != pts[0] { bad.push("start".into()); } if fit[fit.len()-1].end_point() != pts[len-1] { bad.push("end".into()); }
            for w in fit.windows(2) { if w[0].end_point() != w[1].start_point() { bad.push("gap".into()); } }
            let mut worst: f64 = 0.0;
            for p in &pts { let mut d = f64::MAX; for cv in &fit { for k in 0..=400 { d = d.min(cv.point_at_pos(k as f64/400.0).distance_to(p)); } } worst = worst.max(d); }
            if worst > max_error + 0.02 { bad.push(format!("worst distance {} > max_error {}", worst, max_error)); }
        }
        if !bad.is_empty() { if fails < 8 { println!("C08 FAIL len={} noise={} max_error={} curves={} {:?}", len, noise, max_error, fit.len(), bad); } fails += 1; }
    }
    println!("C08: {} fits, {} failures", total, fails);
}

pub fn c15(n: usize) {
    let mut rng = Rng(55); let mut fails = 0; let mut total = 0;
    for it in 0..n {
        let c = rand_curve(&mut rng, (it % 3) as u64);
        let len = curve_length(&c, 0.01);
        let distance = len * rng.r(0.005, 2.0); let max_error = distance * rng.r(0.01, 0.25);
        total += 1;
        let mut secs = vec![]; let mut capped = false;
        for s in walk_curve_evenly(&c, distance, max_error) { secs.push(s.original_curve_t_values()); if secs.len() > 100000 { capped = true; break; } }
        let mut bad = vec![];
        if capped { bad.push("no termination within 100000 sections".to_string()); }
        if secs.is_empty() { bad.push("no sections".into()); } else {
            if secs[0].0 != 0.0 { bad.push("start".into()); } if !capped && secs[secs.len()-1].1 != 1.0 { bad.push(format!("end {}", secs[secs.len()-1].1)); }
            for w in secs.windows(2) { if w[0].1 != w[1].0 { bad.push("gap".into()); break; } }
            let mut nbad = 0; for s in &secs[..secs.len()-1] { let d = c.point_at_pos(s.0).distance_to(&c.point_at_pos(s.1)); if (d - distance).abs() > max_error { nbad += 1; } }
            if nbad > 0 { bad.push(format!("{} of {} sections off-distance", nbad, secs.len()-1)); }
        }
        if !bad.is_empty() { if fails < 8 { println!("C15 FAIL curve={:?} distance={} max_error={} {:?}", c, distance, max_error, bad); } fails += 1; }
    }
    println!("C15: {} walks, {} failures", total, fails);
}

