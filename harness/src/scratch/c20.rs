use flo_curves::*;
use flo_curves::arc::*;
use flo_curves::bezier::*;
use flo_curves::bezier::path::*;
use flo_curves::line::*;
use std::panic::catch_unwind as cu_inner;
fn catch_unwind<F: FnOnce() -> Result<(), String> + Send + std::panic::UnwindSafe + 'static>(f: F) -> Result<Result<(), String>, Box<dyn std::any::Any + Send>> {
    let (tx, rx) = std::sync::mpsc::channel();
    std::thread::spawn(move || { let r = cu_inner(f); let _ = tx.send(r.map_err(|_| ())); });
    match rx.recv_timeout(std::time::Duration::from_secs(3)) { Ok(Ok(r)) => Ok(r), Ok(Err(())) => Err(Box::new(())), Err(_) => Ok(Err("HANG (>3s)".to_string())) }
}

fn curves() -> Vec<(&'static str, Curve<Coord2>)> {
    let c = |a: (f64,f64), b: (f64,f64), cc: (f64,f64), d: (f64,f64)| Curve::from_points(Coord2(a.0,a.1), (Coord2(b.0,b.1), Coord2(cc.0,cc.1)), Coord2(d.0,d.1));
    vec![
        ("all-equal", c((5.0,5.0),(5.0,5.0),(5.0,5.0),(5.0,5.0))),
        ("three-equal", c((5.0,5.0),(5.0,5.0),(5.0,5.0),(9.0,7.0))),
        ("collinear", c((0.0,0.0),(1.0,1.0),(2.0,2.0),(3.0,3.0))),
        ("collinear-overshoot", c((0.0,0.0),(5.0,5.0),(-2.0,-2.0),(3.0,3.0))),
        ("closed-loop", c((0.0,0.0),(10.0,10.0),(-10.0,10.0),(0.0,0.0))),
        ("cusp", c((0.0,0.0),(10.0,10.0),(0.0,10.0),(10.0,0.0))),
        ("loop", c((0.0,0.0),(20.0,10.0),(-10.0,10.0),(10.0,0.0))),
        ("tiny", c((1e-9,1e-9),(2e-9,3e-9),(3e-9,1e-9),(4e-9,2e-9))),
        ("huge", c((1e6,1e6),(2e6,3e6),(3e6,1e6),(4e6,2e6))),
        ("cp-equal-ends", c((0.0,0.0),(0.0,0.0),(10.0,0.0),(10.0,0.0))),
        ("generic", c((1.0,2.0),(2.0,0.0),(3.0,5.0),(4.0,2.0))),
    ]
}
fn finite2(p: Coord2) -> bool { p.0.is_finite() && p.1.is_finite() }

pub fn run() {
    let cs = curves();
    let mut report = |name: String, r: Result<Result<(), String>, Box<dyn std::any::Any + Send>>| { match r { Ok(Ok(())) => {}, Ok(Err(m)) => println!("C20 NONFINITE {}: {}", name, m), Err(_) => println!("C20 PANIC {}", name) } };
    for (n, c) in &cs {
        let c = *c;
        report(format!("point_at_pos {}", n), catch_unwind(move || { for t in [0.0, 0.5, 1.0] { if !finite2(c.point_at_pos(t)) { return Err(format!("t={}", t)); } } Ok(()) }));
        report(format!("bounding_box {}", n), catch_unwind(move || { let Bounds(a, b) = c.bounding_box::<Bounds<Coord2>>(); if finite2(a) && finite2(b) { Ok(()) } else { Err(format!("{:?} {:?}", a, b)) } }));
        report(format!("nearest_t {}", n), catch_unwind(move || { for q in [Coord2(0.0,0.0), Coord2(5.0,5.0), Coord2(100.0,-3.0)] { let t = c.nearest_t(&q); if !t.is_finite() { return Err(format!("q={:?} t={}", q, t)); } } Ok(()) }));
        report(format!("curve_length {}", n), catch_unwind(move || { let l = curve_length(&c, 0.01); if l.is_finite() { Ok(()) } else { Err(format!("{}", l)) } }));
        report(format!("walk_evenly {}", n), catch_unwind(move || { let mut k = 0; for s in walk_curve_evenly(&c, 1.0, 0.1) { let (a, b) = s.original_curve_t_values(); if !a.is_finite() || !b.is_finite() { return Err(format!("section {} {}", a, b)); } k += 1; if k > 200000 { return Err("more than 200000 sections".into()); } } Ok(()) }));
        report(format!("offset {}", n), catch_unwind(move || { for cv in offset(&c, 2.0, 2.0) { let (a, (b, cc), d) = cv.all_points(); if !(finite2(a) && finite2(b) && finite2(cc) && finite2(d)) { return Err(format!("{:?}", cv)); } } Ok(()) }));
        report(format!("offset_scaling {}", n), catch_unwind(move || { for cv in offset_scaling(&c, 2.0, 2.0) { let (a, (b, cc), d) = cv.all_points(); if !(finite2(a) && finite2(b) && finite2(cc) && finite2(d)) { return Err(format!("{:?}", cv)); } } Ok(()) }));
        report(format!("section ends {}", n), catch_unwind(move || { for (a, b) in [(0.0,0.0),(0.0,1.0),(0.5,0.5),(1.0,1.0),(0.25,1.0)] { let s = c.section(a, b); let (p, q) = s.control_points(); if !(finite2(p) && finite2(q)) { return Err(format!("section({},{})", a, b)); } } Ok(()) }));
        report(format!("self_intersection {}", n), catch_unwind(move || { let r = find_self_intersection_point(&c, 0.01); if let Some((a, b)) = r { if !a.is_finite() || !b.is_finite() { return Err("nan".into()); } } Ok(()) }));
        report(format!("characteristics/features {}", n), catch_unwind(move || { let _ = c.characteristics(); let _ = c.features(0.01); Ok(()) }));
        let l = (Coord2(-5.0, 5.0), Coord2(20.0, 5.0));
        report(format!("curve_intersects_ray {}", n), catch_unwind(move || { for (t, s, p) in curve_intersects_ray(&c, &l) { if !(t.is_finite() && s.is_finite() && finite2(p)) { return Err(format!("{} {} {:?}", t, s, p)); } } for (t, s, p) in curve_intersects_ray(&c, &(Coord2(1.0,1.0), Coord2(1.0,1.0))) { if !(t.is_finite() && s.is_finite() && finite2(p)) { return Err(format!("pointline {} {} {:?}", t, s, p)); } } Ok(()) }));
        for (m, d) in &cs { let d = *d;
            report(format!("clip {} x {}", n, m), catch_unwind(move || { for (a, b) in curve_intersects_curve_clip(&c, &d, 0.01) { if !a.is_finite() || !b.is_finite() { return Err(format!("{} {}", a, b)); } } Ok(()) }));
        }
        report(format!("fit samples of {}", n), catch_unwind(move || { let pts: Vec<Coord2> = (0..20).map(|k| c.point_at_pos(k as f64/19.0)).collect(); if let Some(f) = fit_curve::<Curve<Coord2>>(&pts, 0.1) { for cv in f { let (a, (b, cc), d) = cv.all_points(); if !(finite2(a) && finite2(b) && finite2(cc) && finite2(d)) { return Err(format!("{:?}", cv)); } } } Ok(()) }));
    }
    // paths
    let rect = |x: f64, y: f64, w: f64, h: f64| BezierPathBuilder::<SimpleBezierPath>::start(Coord2(x,y)).line_to(Coord2(x+w,y)).line_to(Coord2(x+w,y+h)).line_to(Coord2(x,y+h)).line_to(Coord2(x,y)).build();
    let paths: Vec<(&str, SimpleBezierPath)> = vec![
        ("rect", rect(1.0,1.0,4.0,4.0)),
        ("rect-dup-points", BezierPathBuilder::<SimpleBezierPath>::start(Coord2(1.0,1.0)).line_to(Coord2(5.0,1.0)).line_to(Coord2(5.0,1.0)).line_to(Coord2(5.0,5.0)).line_to(Coord2(1.0,5.0)).line_to(Coord2(1.0,1.0)).build()),
        ("unclosed", BezierPathBuilder::<SimpleBezierPath>::start(Coord2(1.0,1.0)).line_to(Coord2(5.0,1.0)).line_to(Coord2(5.0,5.0)).build()),
        ("one-segment", BezierPathBuilder::<SimpleBezierPath>::start(Coord2(1.0,1.0)).line_to(Coord2(5.0,1.0)).build()),
        ("two-segment", BezierPathBuilder::<SimpleBezierPath>::start(Coord2(1.0,1.0)).line_to(Coord2(5.0,1.0)).line_to(Coord2(1.0,1.0)).build()),
        ("point-path", BezierPathBuilder::<SimpleBezierPath>::start(Coord2(1.0,1.0)).line_to(Coord2(1.0,1.0)).build()),
        ("empty-path", (Coord2(1.0,1.0), vec![])),
        ("circle", Circle::new(Coord2(3.0,3.0), 2.0).to_path::<SimpleBezierPath>()),
        ("tiny-circle", Circle::new(Coord2(3.0,3.0), 1e-9).to_path::<SimpleBezierPath>()),
        ("huge-circle", Circle::new(Coord2(3.0e6,3.0e6), 2.0e6).to_path::<SimpleBezierPath>()),
    ];
    for (n, a) in &paths { for (m, b) in &paths {
        for op in 0..3 { let (a, b) = (a.clone(), b.clone());
            report(format!("path op{} {} x {}", op, n, m), catch_unwind(move || { let r = match op { 0 => path_add::<SimpleBezierPath>(&vec![a], &vec![b], 0.01), 1 => path_sub::<SimpleBezierPath>(&vec![a], &vec![b], 0.01), _ => path_intersect::<SimpleBezierPath>(&vec![a], &vec![b], 0.01) };
                for p in r { if !finite2(p.0) || p.1.iter().any(|(x, y, z)| !(finite2(*x) && finite2(*y) && finite2(*z))) { return Err("non-finite output".into()); } } Ok(()) })); }
        }
        let a2 = a.clone();
        report(format!("path_contains_point {}", n), catch_unwind(move || { let _ = path_contains_point(&a2, &Coord2(3.0, 3.0)); let _ = path_contains_point(&a2, &Coord2(1.0, 1.0)); Ok(()) }));
        let a3 = a.clone();
        report(format!("remove_interior {}", n), catch_unwind(move || { let _ = path_remove_interior_points::<_, SimpleBezierPath>(&vec![a3.clone()], 0.01); let _ = path_remove_overlapped_points::<_, SimpleBezierPath>(&vec![a3], 0.01); Ok(()) }));
    }
    println!("C20 catalogue done");
}

