use flo_curves::*;
use flo_curves::arc::*;
use flo_curves::bezier::*;
use flo_curves::bezier::path::*;
use crate::misc::Rng;
use crate::paths::*;

fn circle(x: f64, y: f64, r: f64) -> P { Circle::new(Coord2(x, y), r).to_path::<P>() }
fn rot(p: &P, k: usize) -> P { // rotate start vertex by k
    let curves = p.to_curves::<Curve<Coord2>>(); let n = curves.len(); let k = k % n;
    let mut cs = curves.clone(); cs.rotate_left(k);
    P::from_connected_curves(cs)
}

pub fn run() {
    let mut rng = Rng(123);
    let mut cases: Vec<(String, Vec<P>, Vec<P>)> = vec![];
    // externally tangent circles: contact on a vertex (circle vertices at angle 0: (x+r, y)) and off vertex
    cases.push(("ext-tangent on vertex".into(), vec![circle(30.0, 50.0, 10.0)], vec![circle(50.0, 50.0, 10.0)]));
    cases.push(("ext-tangent off vertex".into(), vec![circle(30.0, 50.0, 10.0)], vec![circle(30.0 + 20.0*0.6, 50.0 + 20.0*0.8, 10.0)]));
    cases.push(("int-tangent on vertex".into(), vec![circle(50.0, 50.0, 20.0)], vec![circle(60.0, 50.0, 10.0)]));
    cases.push(("int-tangent off vertex".into(), vec![circle(50.0, 50.0, 20.0)], vec![circle(50.0 + 10.0*0.6, 50.0 + 10.0*0.8, 10.0)]));
    cases.push(("identical circles".into(), vec![circle(50.0, 50.0, 20.0)], vec![circle(50.0, 50.0, 20.0)]));
    cases.push(("concentric".into(), vec![circle(50.0, 50.0, 20.0)], vec![circle(50.0, 50.0, 10.0)]));
    cases.push(("identical rotated start".into(), vec![circle(50.0, 50.0, 20.0)], vec![rot(&circle(50.0, 50.0, 20.0), 2)]));
    cases.push(("identical reversed".into(), vec![circle(50.0, 50.0, 20.0)], vec![circle(50.0, 50.0, 20.0).reversed::<P>()]));
    cases.push(("circle centred on rect vertex".into(), vec![polygon(&vec![Coord2(20.0,20.0), Coord2(60.0,20.0), Coord2(60.0,60.0), Coord2(20.0,60.0)])], vec![circle(60.0, 60.0, 10.0)]));
    cases.push(("circle centred on circle vertex".into(), vec![circle(40.0, 50.0, 20.0)], vec![circle(60.0, 50.0, 8.0)]));
    cases.push(("rects share edge".into(), vec![polygon(&vec![Coord2(20.0,20.0), Coord2(40.0,20.0), Coord2(40.0,40.0), Coord2(20.0,40.0)])], vec![polygon(&vec![Coord2(40.0,20.0), Coord2(60.0,20.0), Coord2(60.0,40.0), Coord2(40.0,40.0)])]));
    cases.push(("rects share partial edge".into(), vec![polygon(&vec![Coord2(20.0,20.0), Coord2(40.0,20.0), Coord2(40.0,40.0), Coord2(20.0,40.0)])], vec![polygon(&vec![Coord2(40.0,30.0), Coord2(60.0,30.0), Coord2(60.0,50.0), Coord2(40.0,50.0)])]));
    cases.push(("rects share corner".into(), vec![polygon(&vec![Coord2(20.0,20.0), Coord2(40.0,20.0), Coord2(40.0,40.0), Coord2(20.0,40.0)])], vec![polygon(&vec![Coord2(40.0,40.0), Coord2(60.0,40.0), Coord2(60.0,60.0), Coord2(40.0,60.0)])]));
    cases.push(("rect with hole vs circle".into(), vec![polygon(&vec![Coord2(10.0,10.0), Coord2(90.0,10.0), Coord2(90.0,90.0), Coord2(10.0,90.0)]), circle(50.0,50.0,20.0)], vec![circle(70.0, 50.0, 15.0)]));
    cases.push(("two subpaths vs rect".into(), vec![circle(30.0,30.0,10.0), circle(70.0,70.0,10.0)], vec![polygon(&vec![Coord2(25.0,25.0), Coord2(75.0,25.0), Coord2(75.0,75.0), Coord2(25.0,75.0)])]));
    cases.push(("nested rect edge-aligned".into(), vec![polygon(&vec![Coord2(20.0,20.0), Coord2(60.0,20.0), Coord2(60.0,60.0), Coord2(20.0,60.0)])], vec![polygon(&vec![Coord2(20.0,20.0), Coord2(40.0,20.0), Coord2(40.0,40.0), Coord2(20.0,40.0)])]));
    let mut fails = 0; let mut total = 0;
    for (name, a, b) in &cases { for variant in 0..4 {
        let (a, b): (Vec<P>, Vec<P>) = match variant { 0 => (a.clone(), b.clone()), 1 => (a.iter().map(|p| p.reversed::<P>()).collect(), b.clone()), 2 => (a.clone(), b.iter().map(|p| rot(p, 1)).collect()), _ => (b.clone(), a.clone()) };
        let fa: Vec<_> = a.iter().map(flatten).collect(); let fb: Vec<_> = b.iter().map(flatten).collect();
        for op in 0..3 {
            total += 1;
            let (a2, b2) = (a.clone(), b.clone());
            let res = match std::panic::catch_unwind(move || match op { 0 => path_add::<P>(&a2, &b2, 0.01), 1 => path_sub::<P>(&a2, &b2, 0.01), _ => path_intersect::<P>(&a2, &b2, 0.01) }) { Ok(r) => r, Err(_) => { println!("C01 corpus PANIC {} variant {} op {}", name, variant, op); fails += 1; continue; } };
            let fr: Vec<_> = res.iter().map(flatten).collect();
            let mut nbad = 0; let mut first = None; let mut np = 0;
            for _ in 0..600 { let p = Coord2(rng.r(0.0,100.0), rng.r(0.0,100.0)); if fa.iter().chain(fb.iter()).any(|q| dist_poly(p, q) < 0.25) { continue; } np += 1;
                let (ia, ib, ir) = (evenodd(p, &fa), evenodd(p, &fb), evenodd(p, &fr)); let want = match op { 0 => ia || ib, 1 => ia && !ib, _ => ia && ib };
                if ir != want { nbad += 1; if first.is_none() { first = Some((p, ia, ib, ir)); } } }
            if nbad > 0 { println!("C01 corpus FAIL {:28} variant {} op {}: {}/{} probes wrong, e.g. {:?}; result has {} paths", name, variant, op, nbad, np, first.unwrap(), res.len()); fails += 1; }
        }
    }}
    println!("C01 corpus: {} operations, {} failures", total, fails);
}

