use flo_curves::*;
use flo_curves::bezier::*;
use flo_curves::bezier::verif_hooks::FatLine;
use crate::misc::Rng;

fn gen(rng: &mut Rng, mode: u64) -> Curve<Coord2> {
    let g = |rng: &mut Rng| if mode % 2 == 0 { Coord2(rng.r(0.0,100.0), rng.r(0.0,100.0)) } else { Coord2((rng.i(9) as f64)*12.5, (rng.i(9) as f64)*12.5) };
    let mut p = [g(rng), g(rng), g(rng), g(rng)];
    match mode / 2 % 5 { 1 => { p[3] = p[0]; } 2 => { let d = p[3]-p[0]; p[1] = p[0] + d*rng.f(); } 3 => { let d = p[3]-p[0]; p[1] = p[0] + d*rng.f(); p[2] = p[0] + d*rng.f(); } 4 => { let d = p[3]-p[0]; let n = Coord2(-d.1, d.0); p[1] = p[0]+d*0.3+n*0.2; p[2] = p[0]+d*0.7-n*0.2; } _ => {} }
    Curve::from_points(p[0], (p[1], p[2]), p[3])
}

pub fn run(n: usize) {
    let mut rng = Rng(1313); let mut fails = 0; let mut total = 0u64; let mut nnone = 0u64;
    for it in 0..n {
        let a = gen(&mut rng, it as u64); let b = gen(&mut rng, (it/7) as u64);
        // also sections
        let (lo, len) = (rng.f()*0.9, if it % 3 == 0 { 10f64.powf(rng.r(-6.0, 0.0)) } else { 1.0 });
        let bs = b.section(lo.min(1.0-len.min(1.0)).max(0.0), (lo+len).min(1.0));
        let bsec: Curve<Coord2> = Curve::from_curve(&bs);
        for (which, fl) in [(0, FatLine::from_curve(&a)), (1, FatLine::from_curve_perpendicular(&a))] {
            let (dmin, dmax) = (fl.verif_d_min(), fl.verif_d_max());
            if !dmin.is_finite() || !dmax.is_finite() { continue; }
            total += 1;
            // strip contains a (for which=0 when start != end)
            let mut bad = vec![];
            let tol = 1e-9 * 200.0;
            for k in 0..=1000 { let t = k as f64/1000.0; let d = fl.distance(&a.point_at_pos(t)); if d < dmin - tol || d > dmax + tol { bad.push(format!("own curve outside strip t={} d={} [{}, {}]", t, d, dmin, dmax)); break; } }
            // clip soundness on bsec
            let clip = fl.clip_t(&bsec);
            if clip.is_none() { nnone += 1; }
            for k in 0..=1000 { let t = k as f64/1000.0; let d = fl.distance(&bsec.point_at_pos(t));
                if d >= dmin + tol && d <= dmax - tol { match clip { None => { bad.push(format!("clip=None but t={} inside strip (d={} in [{}, {}])", t, d, dmin, dmax)); break; } Some((t1, t2)) => { if t < t1 - 1e-9 || t > t2 + 1e-9 { bad.push(format!("t={} inside strip (d={}) but outside clip ({}, {})", t, d, t1, t2)); break; } } } } }
            if !bad.is_empty() { if fails < 10 { println!("C13 FAIL which={} a={:?} b={:?} {:?}", which, a, bsec, bad); } fails += 1; }
        }
    }
    println!("C13: {} fat lines, {} clip=None, {} failures", total, nnone, fails);
}

