use flo_curves::bezier::vectorize::*;
use std::collections::HashMap;

fn sample(bm: &Vec<bool>, w: usize, h: usize, x: i64, y: i64) -> bool { if x < 0 || y < 0 || x >= w as i64 || y >= h as i64 { false } else { bm[(y as usize)*w + x as usize] } }

pub fn check(bm: &Vec<bool>, w: usize, h: usize) -> Option<String> {
    let contour = BoolSampledContour(ContourSize(w, h), bm.clone());
    // expected cells: position (x,y) for x in 0..=w, y in 0..=h ; corners tl=(x-1,y-1) tr=(x,y-1) bl=(x-1,y) br=(x,y)
    let mut want = vec![];
    for y in 0..=(h as i64) { for x in 0..=(w as i64) {
        let (tl, tr, bl, br) = (sample(bm,w,h,x-1,y-1), sample(bm,w,h,x,y-1), sample(bm,w,h,x-1,y), sample(bm,w,h,x,y));
        let c = ContourCell::from_corners(tl, tr, bl, br);
        if c.is_on_edge() { want.push((ContourPosition(x as usize, y as usize), c)); }
    }}
    let got: Vec<_> = contour.edge_cell_iterator().collect();
    if got != want { return Some(format!("cells differ: got {:?} want {:?}", got, want)); }
    // loops
    let loops = trace_contours_from_samples(&contour);
    let size = ContourSize(w, h);
    let mut used: HashMap<ContourEdge, usize> = HashMap::new();
    for l in &loops {
        if l.len() < 2 || l[0] != l[l.len()-1] { return Some(format!("loop not closed {:?}", l)); }
        for e in &l[..l.len()-1] { *used.entry(*e).or_insert(0) += 1; }
        // adjacency: consecutive edge midpoints within distance < 1.01 (share a cell)
        for wv in l.windows(2) {
            let a: flo_curves::Coord2 = wv[0].to_coords(size); let b: flo_curves::Coord2 = wv[1].to_coords(size);
            let d2 = (a.0-b.0)*(a.0-b.0)+(a.1-b.1)*(a.1-b.1);
            if d2 > 1.0001 || d2 == 0.0 { return Some(format!("non-adjacent {:?} {:?}", a, b)); }
        }
    }
    // every boundary edge exactly once; edge coords are in the contour's 'cell' coordinate system: to_contour_coords gives sample positions (shifted by 1: position p corresponds to sample p-1)
    let mut boundary = 0;
    for (e, n) in &used {
        if *n != 1 { return Some(format!("edge {:?} used {} times", e, n)); }
        let (p, q) = e.to_contour_coords(size);
        let (sa, sb) = (sample(bm,w,h,p.0 as i64 - 1, p.1 as i64 - 1), sample(bm,w,h,q.0 as i64 - 1, q.1 as i64 - 1));
        if sa == sb { return Some(format!("edge {:?} ({:?},{:?}) not between in/out samples", e, p, q)); }
    }
    // count boundary edges by brute force
    for y in -1..=(h as i64) { for x in -1..=(w as i64) {
        if sample(bm,w,h,x,y) != sample(bm,w,h,x+1,y) { boundary += 1; }
        if sample(bm,w,h,x,y) != sample(bm,w,h,x,y+1) { boundary += 1; }
    }}
    if boundary != used.len() { return Some(format!("boundary edges {} used {}", boundary, used.len())); }
    None
}

pub fn run() {
    let mut total = 0u64; let mut fails = 0;
    for (w, h) in [(1,1),(2,1),(1,2),(2,2),(3,2),(2,3),(3,3),(4,3),(3,4),(4,4)] {
        let n = w*h;
        for bits in 0u32..(1u32 << n) {
            let bm: Vec<bool> = (0..n).map(|i| (bits >> i) & 1 == 1).collect();
            total += 1;
            let r = std::panic::catch_unwind(|| check(&bm, w, h));
            match r { Ok(None) => {}, Ok(Some(m)) => { if fails < 6 { println!("C17 FAIL {}x{} {:b}: {}", w, h, bits, m); } fails += 1; }, Err(_) => { if fails < 6 { println!("C17 PANIC {}x{} {:b}", w, h, bits); } fails += 1; } }
        }
    }
    println!("C17: {} bitmaps, {} failures", total, fails);
}

