use flo_curves::*;
use flo_curves::arc::*;
use flo_curves::bezier::*;
use flo_curves::bezier::path::*;
use crate::misc::Rng;
use crate::paths::*;

pub fn c11_c12(n: usize) {
    let mut rng = Rng(77); let mut fails = 0; let mut total = 0;
    for it in 0..n {
        let a = vec![rand_shape(&mut rng)]; let b = vec![rand_shape(&mut rng)]; let c = vec![rand_shape(&mut rng)];
        let (fa, fb, fc): (Vec<_>, Vec<_>, Vec<_>) = (a.iter().map(flatten).collect(), b.iter().map(flatten).collect(), c.iter().map(flatten).collect());
        let probes: Vec<Coord2> = (0..150).map(|_| Coord2(rng.r(0.0,100.0), rng.r(0.0,100.0))).filter(|p| !fa.iter().chain(fb.iter()).chain(fc.iter()).any(|q| dist_poly(*p, q) < 0.25)).collect();
        let mut check = |name: &str, res: &Vec<P>, want: &dyn Fn(bool,bool,bool)->bool, fails: &mut i32| {
            let fr: Vec<_> = res.iter().map(flatten).collect();
            for p in &probes { let (ia, ib, ic) = (evenodd(*p,&fa), evenodd(*p,&fb), evenodd(*p,&fc)); if evenodd(*p,&fr) != want(ia,ib,ic) { if *fails < 8 { println!("{} FAIL it={} probe={:?} in=({},{},{}) A={:?} B={:?} C={:?}", name, it, p, ia, ib, ic, a, b, c); } *fails += 1; break; } }
        };
        total += 6;
        let cut = path_cut::<P>(&a, &b, 0.01);
        check("C11 cut.interior", &cut.interior_path, &|x,y,_| x&&y, &mut fails);
        check("C11 cut.exterior", &cut.exterior_path, &|x,y,_| x&&!y, &mut fails);
        let fi = path_full_intersect::<P>(&a, &b, 0.01);
        check("C11 full.intersecting", &fi.intersecting_path, &|x,y,_| x&&y, &mut fails);
        check("C11 full.ext0", &fi.exterior_paths[0], &|x,y,_| x&&!y, &mut fails);
        check("C11 full.ext1", &fi.exterior_paths[1], &|x,y,_| y&&!x, &mut fails);
        let chain = path_add_chain::<P>(&vec![a.clone(), b.clone(), c.clone()], 0.01);
        check("C11 chain3", &chain, &|x,y,z| x||y||z, &mut fails);
        total += 1;
        let comb = path_combine::<P>(PathCombine::Subtract(vec![PathCombine::Add(vec![PathCombine::Path(a.clone()), PathCombine::Path(b.clone())]), PathCombine::Path(c.clone())]), 0.01);
        check("C11 combine (A+B)-C", &comb, &|x,y,z| (x||y)&&!z, &mut fails);
        total += 1;
        let comb = path_combine::<P>(PathCombine::Intersect(vec![PathCombine::Path(a.clone()), PathCombine::Subtract(vec![PathCombine::Path(b.clone()), PathCombine::Path(c.clone())])]), 0.01);
        check("C11 combine A&(B-C)", &comb, &|x,y,z| x&&(y&&!z), &mut fails);
        // C12: overlapping set {a,b,c}: nonzero & evenodd
        total += 2;
        let all: Vec<P> = vec![a[0].clone(), b[0].clone(), c[0].clone()];
        let fall: Vec<_> = all.iter().map(flatten).collect();
        let ri = path_remove_interior_points::<P, P>(&all, 0.01); let fri: Vec<_> = ri.iter().map(flatten).collect();
        let ro = path_remove_overlapped_points::<P, P>(&all, 0.01); let fro: Vec<_> = ro.iter().map(flatten).collect();
        for p in &probes { let w: i32 = fall.iter().map(|q| winding(*p, q)).sum(); let nz = fall.iter().any(|q| winding(*p,q) != 0); let _ = w;
            // non-zero winding of the set where each path is oriented arbitrarily: library orients all clockwise, so "non-zero" = inside any
            if evenodd(*p, &fri) != nz { if fails < 12 { println!("C12 remove_interior FAIL it={} probe={:?}", it, p); } fails += 1; break; } }
        for p in &probes { if evenodd(*p, &fro) != evenodd(*p, &fall) { if fails < 12 { println!("C12 remove_overlapped FAIL it={} probe={:?}", it, p); } fails += 1; break; } }
    }
    println!("C11/C12: {} results checked, {} failures", total, fails);
}

pub fn c12_stars() {
    let mut fails = 0; let mut total = 0; let mut rng = Rng(3);
    for (k, m) in [(5,2),(7,2),(7,3),(8,3),(9,2),(9,4)] { for rot in 0..3 {
        let mut pts = vec![]; for i in 0..k { let a = ((i*m) % k) as f64 / k as f64 * std::f64::consts::TAU + rot as f64 * 0.1; pts.push(Coord2(50.0 + 30.0*a.cos(), 50.0 + 30.0*a.sin())); }
        let star = polygon(&pts); let fs = vec![flatten(&star)];
        total += 2;
        let ri = path_remove_interior_points::<P, P>(&vec![star.clone()], 0.01); let fri: Vec<_> = ri.iter().map(flatten).collect();
        let ro = path_remove_overlapped_points::<P, P>(&vec![star.clone()], 0.01); let fro: Vec<_> = ro.iter().map(flatten).collect();
        let mut b1 = false; let mut b2 = false;
        for _ in 0..400 { let p = Coord2(rng.r(10.0,90.0), rng.r(10.0,90.0)); if dist_poly(p, &fs[0]) < 0.25 { continue; }
            let w = winding(p, &fs[0]);
            // even-odd interior of a single self-crossing polygon = odd crossing number
            let n = fs[0].len(); let mut cr = 0; for i in 0..n { let (a, b) = (fs[0][i], fs[0][(i+1)%n]); if (a.1 > p.1) != (b.1 > p.1) { let x = a.0 + (p.1-a.1)/(b.1-a.1)*(b.0-a.0); if x > p.0 { cr += 1; } } }
            if evenodd(p, &fri) != (w != 0) { b1 = true; } if evenodd(p, &fro) != (cr % 2 == 1) { b2 = true; } }
        if b1 { println!("C12 star {{{}/{}}} rot {} remove_interior FAIL ({} paths)", k, m, rot, ri.len()); fails += 1; }
        if b2 { println!("C12 star {{{}/{}}} rot {} remove_overlapped FAIL ({} paths)", k, m, rot, ro.len()); fails += 1; }
    }}
    println!("C12 stars: {} results, {} failures", total, fails);
}

pub fn c14(n: usize) {
    let mut rng = Rng(88); let mut fails = 0; let mut total = 0; let mut excluded = 0;
    for _ in 0..n {
        let a = rand_shape(&mut rng); let b = rand_shape(&mut rng);
        let g = GraphPath::from_path(&a, PathLabel(0)).collide(GraphPath::from_path(&b, PathLabel(1)), 0.01);
        let verts: Vec<Coord2> = (0..g.num_points()).map(|i| g.point_position(i)).collect();
        for _ in 0..20 {
            let p1 = Coord2(rng.r(0.0,100.0), rng.r(0.0,100.0)); let p2 = if rng.i(3)==0 { Coord2(p1.0 + 10.0, p1.1) } else { Coord2(rng.r(0.0,100.0), rng.r(0.0,100.0)) };
            if p1.distance_to(&p2) < 1.0 { continue; }
            // line at least 0.1 from every vertex
            let d = (p2-p1).to_unit_vector(); let nrm = Coord2(-d.1, d.0);
            if verts.iter().any(|v| ((*v-p1).dot(&nrm)).abs() < 0.1) { excluded += 1; continue; }
            total += 1;
            let cols = g.ray_collisions(&(p1, p2));
            let mut bad = vec![];
            if cols.len() % 2 != 0 { bad.push(format!("odd count {}", cols.len())); }
            for w in cols.windows(2) { if w[0].2 > w[1].2 { bad.push("unsorted".into()); break; } }
            for (c, t, s, pos) in &cols { let e = g.get_edge(c.edge()); let q = e.point_at_pos(*t); let lp = p1 + (p2-p1)*(*s); if q.distance_to(pos) > 1e-6 || lp.distance_to(pos) > 1e-6 { bad.push(format!("off: curve {} line {}", q.distance_to(pos), lp.distance_to(pos))); break; } }
            // expected crossings count: brute force sign changes along each edge
            let mut want = 0; for e in g.all_edges() { let mut last = (e.point_at_pos(0.0)-p1).dot(&nrm); for k in 1..=2000 { let v = (e.point_at_pos(k as f64/2000.0)-p1).dot(&nrm); if (v > 0.0) != (last > 0.0) { want += 1; } last = v; } }
            if want != cols.len() { bad.push(format!("count {} want {}", cols.len(), want)); }
            if !bad.is_empty() { if fails < 8 { println!("C14 FAIL line {:?}-{:?} {:?}", p1, p2, bad); } fails += 1; }
        }
    }
    println!("C14: {} rays, {} excluded, {} failures", total, excluded, fails);
}

pub fn c10(n: usize) {
    let mut rng = Rng(99); let mut fails = 0; let mut total = 0; let mut excluded = 0;
    for it in 0..n {
        let mut p = [Coord2(0.0,0.0); 4]; for k in 0..4 { p[k] = Coord2(rng.r(0.0,100.0), rng.r(0.0,100.0)); }
        if it % 2 == 0 { // arch-like: control points on the same side, ordered
            let d = p[3]-p[0]; let nrm = Coord2(-d.1, d.0)*rng.r(0.1,0.4); p[1] = p[0]+d*0.3+nrm; p[2] = p[0]+d*0.7+nrm; }
        let c = Curve::from_points(p[0], (p[1], p[2]), p[3]);
        let d = rng.r(1.0, 8.0) * if rng.i(2)==0 { 1.0 } else { -1.0 };
        // regularity: speed nonvanishing and |d| * max curvature <= 1/2
        let mut kmax: f64 = 0.0; let mut smin = f64::MAX;
        for k in 0..=400 { let t = k as f64/400.0; let (d1a, d1b, d1c) = derivative4(p[0], p[1], p[2], p[3]); let v = de_casteljau3(t, d1a, d1b, d1c); let (d2a, d2b) = derivative3(d1a, d1b, d1c); let a = de_casteljau2(t, d2a, d2b); let s = v.magnitude(); smin = smin.min(s); if s > 1e-9 { kmax = kmax.max((v.0*a.1 - v.1*a.0).abs()/(s*s*s)); } }
        if smin < 1.0 || d.abs()*kmax > 0.5 { excluded += 1; continue; }
        let par: Vec<Coord2> = (0..=4000).map(|k| { let t = k as f64/4000.0; let tt = t.max(1e-9).min(1.0-1e-9); c.point_at_pos(t) + c.normal_at_pos(tt).to_unit_vector()*d }).collect();
        for which in 0..3 {
            total += 1;
            let res: Vec<Curve<Coord2>> = match which { 0 => offset(&c, d, d), 1 => offset_lms_sampling(&c, |_| d, |_| 0.0, 32, 0.1).unwrap_or(vec![]), _ => offset_scaling(&c, d, d) };
            let mut bad = vec![];
            if res.is_empty() { bad.push("empty".to_string()); } else {
                if res[0].start_point().distance_to(&par[0]) > 1e-6 { bad.push(format!("start off by {}", res[0].start_point().distance_to(&par[0]))); }
                if res[res.len()-1].end_point().distance_to(&par[4000]) > 1e-6 { bad.push(format!("end off by {}", res[res.len()-1].end_point().distance_to(&par[4000]))); }
                for w in res.windows(2) { if w[0].end_point().distance_to(&w[1].start_point()) > 1e-6 { bad.push("gap".into()); } }
                let chain: Vec<Coord2> = res.iter().flat_map(|cv| (0..=200).map(move |k| cv.point_at_pos(k as f64/200.0))).collect();
                let mut h1: f64 = 0.0; for q in &chain { let mut m = f64::MAX; for r in par.iter().step_by(4) { m = m.min(q.distance_to(r)); } h1 = h1.max(m); }
                let mut h2: f64 = 0.0; for r in par.iter().step_by(8) { let mut m = f64::MAX; for q in &chain { m = m.min(q.distance_to(r)); } h2 = h2.max(m); }
                if h1 > 1.5 || h2 > 1.5 { bad.push(format!("hausdorff chain->par {} par->chain {}", h1, h2)); }
            }
            if !bad.is_empty() { if fails < 8 { println!("C10 FAIL which={} d={} curve={:?} {:?}", which, d, c, bad); } fails += 1; }
        }
    }
    println!("C10: {} offsets, {} curves excluded, {} failures", total, excluded, fails);
}

