use flo_curves::*;
use flo_curves::bezier::*;
use flo_curves::bezier::path::*;
use crate::misc::Rng;
use crate::paths::*;

pub fn run(n: usize) {
    let mut rng = Rng(303); let mut fails = 0; let mut total = 0; let mut crossings_checked = 0u64;
    for it in 0..n {
        let a = rand_shape(&mut rng); let b = rand_shape(&mut rng);
        total += 1;
        let (a2, b2) = (a.clone(), b.clone());
        let g = match std::panic::catch_unwind(move || GraphPath::from_path(&a2, PathLabel(0)).collide(GraphPath::from_path(&b2, PathLabel(1)), 0.01)) { Ok(g) => g, Err(_) => { println!("C03 PANIC it={}", it); fails += 1; continue; } };
        let np = g.num_points(); let mut bad = vec![];
        let mut indeg = vec![0usize; np]; let mut outdeg = vec![0usize; np];
        for e in g.all_edges() { let (s, t) = (e.start_point_index(), e.end_point_index()); if t >= np { bad.push(format!("edge end {} out of range", t)); continue; } outdeg[s] += 1; indeg[t] += 1; }
        for p in 0..np { if indeg[p] != outdeg[p] { bad.push(format!("point {} in {} out {}", p, indeg[p], outdeg[p])); break; } let rev = g.reverse_edges_for_point(p).count(); if rev != indeg[p] { bad.push(format!("point {} reverse_edges {} vs indeg {}", p, rev, indeg[p])); break; } }
        // shape preservation
        let edges: Vec<(Curve<Coord2>, u32)> = g.all_edges().map(|e| (Curve::from_curve(&e), e.label().0)).collect();
        let flat_edges: Vec<(Vec<Coord2>, u32)> = edges.iter().map(|(c, l)| ((0..=32).map(|k| c.point_at_pos(k as f64/32.0)).collect(), *l)).collect();
        for (path, label) in [(&a, 0u32), (&b, 1u32)] {
            let fp = flatten(path);
            for q in fp.iter().step_by(3) { let mut d = f64::MAX; for (fe, l) in &flat_edges { if *l != label { continue; } for w in fe.windows(2) { d = d.min(dist_seg(*q, w[0], w[1])); } } if d > 0.05 { bad.push(format!("input point {:?} of path {} is {} from every edge with that label", q, label, d)); break; } }
            for (fe, l) in &flat_edges { if *l != label { continue; } for q in fe.iter().step_by(4) { if dist_poly(*q, &fp) > 0.05 { bad.push(format!("edge point {:?} label {} is {} from its input path", q, l, dist_poly(*q, &fp))); break; } } }
        }
        // planarity: segment-level crossing test between flattened edges, away from end points
        'outer: for i in 0..flat_edges.len() { for j in (i+1)..flat_edges.len() {
            let (ei, ej) = (&edges[i].0, &edges[j].0);
            let bi: Bounds<Coord2> = ei.fast_bounding_box(); let bj: Bounds<Coord2> = ej.fast_bounding_box(); if !bi.overlaps(&bj) { continue; }
            crossings_checked += 1;
            for wi in flat_edges[i].0.windows(2) { for wj in flat_edges[j].0.windows(2) {
                let (p, r) = (wi[0], wi[1]-wi[0]); let (q, s) = (wj[0], wj[1]-wj[0]);
                let den = r.0*s.1 - r.1*s.0; if den.abs() < 1e-12 { continue; }
                let t = ((q.0-p.0)*s.1 - (q.1-p.1)*s.0)/den; let u = ((q.0-p.0)*r.1 - (q.1-p.1)*r.0)/den;
                if t > 0.0 && t < 1.0 && u > 0.0 && u < 1.0 {
                    let x = p + r*t;
                    let near_end = [ei.start_point(), ei.end_point(), ej.start_point(), ej.end_point()].iter().any(|v| v.distance_to(&x) < 0.05);
                    let sinang = (den / (r.magnitude()*s.magnitude())).abs();
                    if !near_end && sinang > 0.05 { bad.push(format!("edges {} and {} cross at {:?} (sin={})", i, j, x, sinang)); break 'outer; }
                } } }
        } }
        if !bad.is_empty() { if fails < 8 { println!("C03 FAIL it={} {:?}\n   A={:?}\n   B={:?}", it, bad, a, b); } fails += 1; }
    }
    println!("C03: {} collisions, {} edge pairs tested, {} failures", total, crossings_checked, fails);
}

