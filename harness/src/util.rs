//! Shared helpers: one PRNG for every random choice, hex transport of f64, statistics.
use std::collections::{BTreeMap, HashSet};

pub struct Rng(pub u64);
impl Rng {
    pub fn next(&mut self) -> u64 {
        self.0 = self.0.wrapping_add(0x9E3779B97F4A7C15);
        let mut z = self.0;
        z = (z ^ (z >> 30)).wrapping_mul(0xBF58476D1CE4E5B9);
        z = (z ^ (z >> 27)).wrapping_mul(0x94D049BB133111EB);
        z ^ (z >> 31)
    }
    pub fn f(&mut self) -> f64 { (self.next() >> 11) as f64 / (1u64 << 53) as f64 }
    pub fn r(&mut self, a: f64, b: f64) -> f64 { a + (b - a) * self.f() }
    pub fn i(&mut self, n: u64) -> u64 { self.next() % n }
    pub fn b(&mut self) -> bool { self.next() & 1 == 1 }
    /// k/den with k uniform in [lo*den, hi*den]
    pub fn dyadic(&mut self, lo: i64, hi: i64, den: i64) -> f64 {
        let k = lo * den + (self.i(((hi - lo) * den + 1) as u64) as i64);
        k as f64 / den as f64
    }
}

/// NaN-aware comparisons for oracles: a NaN on either side counts as a violation of `a <= b` / `a >= b`
pub fn gt(a: f64, b: f64) -> bool { !(a <= b) }
pub fn lt(a: f64, b: f64) -> bool { !(a >= b) }
/// max that propagates NaN (f64::max drops it)
pub fn nmax(a: f64, b: f64) -> f64 { if a.is_nan() || b.is_nan() { f64::NAN } else { a.max(b) } }
pub fn hx(v: f64) -> String { format!("{:016x}", v.to_bits()) }
pub fn hxs(vs: &[f64]) -> String { vs.iter().map(|v| hx(*v)).collect::<Vec<_>>().join(" ") }

pub fn fnv(s: &str) -> u64 {
    let mut h: u64 = 0xcbf29ce484222325;
    for b in s.bytes() { h ^= b as u64; h = h.wrapping_mul(0x100000001b3); }
    h
}

#[derive(Default)]
pub struct Stats {
    pub evaluations: u64,
    pub nontrivial: HashSet<u64>,
    pub counters: BTreeMap<String, u64>,
    pub samples: Vec<String>,
    pub fails: u64,
    pub excluded: u64,
    pub fail_keys: BTreeMap<String, u64>,
}

impl Stats {
    pub fn new() -> Stats { Stats::default() }
    pub fn count(&mut self, key: &str) { *self.counters.entry(key.to_string()).or_insert(0) += 1; }
    pub fn add(&mut self, key: &str, n: u64) { *self.counters.entry(key.to_string()).or_insert(0) += n; }
    /// one case evaluated; `nontrivial` by the property's rule; `repr` identifies the case (for distinctness and samples)
    pub fn case(&mut self, repr: &str, nontrivial: bool) {
        self.evaluations += 1;
        // FV_TRACE_CASES=1: every case on stderr (to look at what a class generates)
        static TRACE: std::sync::OnceLock<bool> = std::sync::OnceLock::new();
        if *TRACE.get_or_init(|| std::env::var_os("FV_TRACE_CASES").is_some()) { eprintln!("CASE {}", repr); }
        if nontrivial { self.nontrivial.insert(fnv(repr)); }
        if self.samples.len() < 3 || (self.evaluations % 997 == 0 && self.samples.len() < 6) { self.samples.push(repr.chars().take(400).collect()); }
    }
    /// a failure of the property on the real code. `key` identifies the input class for known_findings.json
    pub fn fail(&mut self, prop: &str, key: &str, detail: &str) {
        self.fails += 1;
        let n = self.fail_keys.entry(key.to_string()).or_insert(0);
        *n += 1;
        if *n <= 5 { println!("FAIL {} key={} {}", prop, key, detail); }
    }
    pub fn print(&self, prop: &str, mode: &str) {
        let counters = self.counters.iter().map(|(k, v)| format!("\"{}\": {}", k, v)).collect::<Vec<_>>().join(", ");
        let keys = self.fail_keys.iter().map(|(k, v)| format!("\"{}\": {}", k, v)).collect::<Vec<_>>().join(", ");
        let samples = self.samples.iter().map(|s| format!("\"{}\"", s.replace('\\', "/").replace('"', "'"))).collect::<Vec<_>>().join(", ");
        println!("STATS {{\"property\": \"{}\", \"mode\": \"{}\", \"evaluations\": {}, \"distinct_nontrivial\": {}, \"fails\": {}, \"excluded\": {}, \"fail_keys\": {{{}}}, \"counters\": {{{}}}, \"samples\": [{}]}}",
            prop, mode, self.evaluations, self.nontrivial.len(), self.fails, self.excluded, keys, counters, samples);
    }
}
