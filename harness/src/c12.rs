//! C12: path_remove_interior_points implements the non-zero fill rule, path_remove_overlapped_points the even-odd rule.
//! Oracle: total winding number of the input (sum over the sub-paths of the winding number of the flattening; for the
//! straight-edged bow-ties and star polygons the flattening is the vertex list itself, so the winding number is exact).
use crate::shapes::*;
use crate::util::*;
use flo_curves::bezier::path::*;
use flo_curves::*;

const PROP: &str = "C12";
const ACC: f64 = 0.01;

fn signed_area(q: &Poly) -> f64 { let n = q.len(); (0..n).map(|i| cross(q[i], q[(i + 1) % n])).sum::<f64>() * 0.5 }

fn check_set(stats: &mut Stats, rng: &mut Rng, set: &Vec<P>, class: &str, n_uniform: usize, n_near: usize) {
    let o = Operand::new(set);
    let pr = probes(rng, &[&o], n_uniform, n_near);
    let detail = || format!("input={:?}", set);
    let mut hist = [0u64; 4];
    for p in &pr { let w = o.winding(*p, false).unsigned_abs() as usize; hist[w.min(3)] += 1; }
    for (w, c) in hist.iter().enumerate() { stats.add(&format!("probes_winding_{}{}", w, if w == 3 { "_or_more" } else { "" }), *c); }
    stats.count("op.remove_interior_points");
    let s2 = set.clone();
    if let Some(res) = run_guarded(stats, PROP, "path_remove_interior_points", &detail, move || path_remove_interior_points::<P, P>(&s2, ACC)) {
        check_output_paths(stats, PROP, "remove_interior", &res, &detail);
        // diagnostic for the report: does the result equal the union of the sub-paths (= non-zero winding after every
        // sub-path has been given the same direction)? The statement's oracle is the plain winding number of the input.
        let (w_union, _) = wrong_probes(stats, &res, &pr, &|p, f| (if f { &o.fine } else { &o.flat }).iter().any(|q| winding(p, q) != 0));
        // The statement's "non-zero winding (the outer silhouette …)": every sub-path's winding is taken relative to that
        // sub-path's own direction (sign of its signed area), which is what "outer silhouette" means for sub-paths given in
        // either direction and what the library does by re-orienting each sub-path. For sub-paths of one direction this is
        // the plain winding number. (A clockwise and an anticlockwise shape overlapping have plain winding 0 in the overlap.)
        let norm_winding = |p: Coord2, f: bool| -> i32 {
            (if f { &o.fine } else { &o.flat }).iter().map(|q| { let w = winding(p, q); if signed_area(q) < 0.0 { -w } else { w } }).sum()
        };
        let ok = check_membership(stats, PROP, &format!("remove_interior.probe_membership.{}", class), &res, &pr, &|p, f| norm_winding(p, f) != 0, &|| format!("expected = non-zero (direction-normalised) winding; [against the union of the sub-paths taken one by one the result is wrong at {} probes] {}", w_union, detail()));
        if !ok { stats.count(if w_union == 0 { "remove_interior.failing_result_equals_union_of_subpaths" } else { "remove_interior.failing_result_differs_from_union_of_subpaths" }); }
    }
    stats.count("op.remove_overlapped_points");
    let s2 = set.clone();
    if let Some(res) = run_guarded(stats, PROP, "path_remove_overlapped_points", &detail, move || path_remove_overlapped_points::<P, P>(&s2, ACC)) {
        check_output_paths(stats, PROP, "remove_overlapped", &res, &detail);
        check_membership(stats, PROP, &format!("remove_overlapped.probe_membership.{}", class), &res, &pr, &|p, f| o.winding(p, f).rem_euclid(2) == 1, &|| format!("expected = odd winding; {}", detail()));
    }
}

/// the cubic's own double point in closed form: B(t1) = B(t2), t1 != t2, gives s = t1 + t2 and p = t1 t2 from two linear equations
/// (the parameters may lie outside [0,1])
fn double_point(w: &[Coord2; 4]) -> Option<(f64, f64)> {
    let (ca, cb, cc) = (w[3] - w[0] + (w[1] - w[2]) * 3.0, (w[0] - w[1] * 2.0 + w[2]) * 3.0, (w[1] - w[0]) * 3.0);
    let ab = cross(ca, cb);
    if ab.abs() < 1e-9 { return None; }
    let sum = -cross(ca, cc) / ab;
    let prod = sum * sum - cross(cb, cc) / ab;
    let disc = sum * sum - 4.0 * prod;
    if !(disc > 0.0) { return None; }
    Some(((sum - disc.sqrt()) * 0.5, (sum + disc.sqrt()) * 0.5))
}

/// a quadrilateral frame whose first edge is a cubic that crosses itself (a curl); `two`: the cubic is cut in two near its middle.
/// Returns the path and the curl cubic
fn curl_frame(rng: &mut Rng, two: bool) -> (P, [Coord2; 4]) {
    use flo_curves::bezier::{BezierCurve, BezierCurveFactory, Curve};
    let c = Coord2(rng.r(35.0, 65.0), rng.r(35.0, 65.0));
    let r = rng.r(15.0, 30.0);
    let a0 = rng.r(0.0, TAU);
    let v: Vec<Coord2> = (0..4).map(|k| { let a = a0 + (k as f64 + rng.r(-0.2, 0.2)) * TAU / 4.0; c + Coord2(a.cos(), a.sin()) * r }).collect();
    let line = |p: Coord2, q: Coord2| (p + (q - p) * 0.33, p + (q - p) * 0.66, q);
    let (p, q) = (v[0], v[1]);
    let d = q - p;
    let out = { let m = (p + q) * 0.5 - c; let l = (m.0 * m.0 + m.1 * m.1).sqrt(); Coord2(m.0 / l, m.1 / l) };
    // two in three curl INTO the body: the loop then has winding number 2 (non-zero rule: inside; even-odd rule: a hole)
    let out = if rng.i(3) == 0 { out } else { out * -0.7 };
    let k = rng.r(0.9, 1.6);
    let (c1, c2) = (p + d * k + out * (r * rng.r(0.3, 0.8)), q - d * k + out * (r * rng.r(0.3, 0.8)));
    let mut sections = vec![];
    if two {
        let whole = Curve::from_points(p, (c1, c2), q);
        // cut between the two parameters of the cubic's double point (when it has one inside the curve), so that the two halves cross
        let cut = match double_point(&[p, c1, c2, q]) { Some((u1, u2)) if u1 > 0.0 && u2 < 1.0 => u1 + (u2 - u1) * rng.r(0.3, 0.7), _ => rng.r(0.35, 0.65) };
        let (l, rr): (Curve<Coord2>, Curve<Coord2>) = whole.subdivide(cut);
        sections.push((l.control_points().0, l.control_points().1, l.end_point()));
        sections.push((rr.control_points().0, rr.control_points().1, q));
    } else {
        sections.push((c1, c2, q));
    }
    sections.extend([line(v[1], v[2]), line(v[2], v[3]), line(v[3], v[0])]);
    let path: P = (p, sections);
    (redirect(rng, &path), [p, c1, c2, q])
}

pub const STARS: [(usize, usize); 6] = [(5, 2), (7, 2), (7, 3), (8, 3), (9, 2), (9, 4)];

/// a quadrilateral whose two diagonals are used as edges: crosses itself once
fn bowtie(a: Coord2, b: Coord2, c: Coord2, d: Coord2) -> P { polygon(&[a, c, b, d]) }

pub fn search(seed: u64, n: u64) {
    quiet_panics();
    let mut rng = Rng(seed ^ 0x5EA2C12);
    let mut stats = Stats::new();
    // fixed corpus: bow-ties and star polygons, several rotations, both directions, another start vertex
    let bowties = vec![
        ("bowtie", bowtie(Coord2(20.0, 20.0), Coord2(80.0, 20.0), Coord2(80.0, 80.0), Coord2(20.0, 80.0))),
        ("bowtie", bowtie(Coord2(20.0, 30.0), Coord2(70.0, 20.0), Coord2(85.0, 75.0), Coord2(30.0, 60.0))),
        ("bowtie", bowtie(Coord2(10.0, 50.0), Coord2(50.0, 10.0), Coord2(90.0, 50.0), Coord2(50.0, 90.0))),
    ];
    for (name, p) in &bowties {
        for variant in 0..3 {
            let q = match variant { 0 => p.clone(), 1 => reversed(p), _ => rotate_start(p, 1) };
            stats.case(&format!("corpus {} {:?}", name, q), true);
            stats.count("corpus.bowtie");
            check_set(&mut stats, &mut rng, &vec![q], name, 300, 300);
        }
    }
    // regression inputs of repair F19 (exterior_paths' point comparator was not transitive: sort_by panicked on these)
    let f19: Vec<P> = vec![
        (Coord2(45.009812415532025, 67.8012754312126), vec![(Coord2(39.14142705817911, 70.2285169900182), Coord2(33.274801864400686, 72.65503052196155), Coord2(27.40817667062226, 75.08154405390489)), (Coord2(29.841432785613097, 69.21565000729555), Coord2(32.27395906973561, 63.35151537701693), Coord2(34.70648535385812, 57.48738074673831)), (Coord2(37.13372691266373, 63.355766104091224), Coord2(39.56024044460707, 69.22239129786965), Coord2(41.98675397655041, 75.08901649164807)), (Coord2(36.12085992994107, 72.65576037665724), Coord2(30.256725299662445, 70.22323409253472), Coord2(24.39259066938382, 67.79070780841222)), (Coord2(30.260976026736735, 65.3634662496066), Coord2(36.12760122051516, 62.93695271766327), Coord2(41.99422641429358, 60.510439185719925)), (Coord2(39.560970299302745, 66.37633323232927), Coord2(37.128444015180236, 72.24046786260789), Coord2(34.695917731057726, 78.10460249288651)), (Coord2(32.268676172252114, 72.2362171355336), Coord2(29.842162640308775, 66.36959194175517), Coord2(27.415649108365436, 60.50296674797675)), (Coord2(33.28154315497478, 62.93622286296758), Coord2(39.1456777852534, 65.3687491470901), Coord2(45.009812415532025, 67.8012754312126))]),
        (Coord2(62.55269336885537, 76.08691429555698), vec![(Coord2(59.77770192507332, 68.31422607800006), Coord2(57.00271048129128, 60.54153786044314), Coord2(54.22688645681803, 52.76651760321699)), (Coord2(54.1761095010895, 61.01955833625464), Coord2(54.12533254536097, 69.2725990692923), Coord2(54.07454035502226, 77.52811596216584)), (Coord2(56.94496126001245, 69.79016122796075), Coord2(59.815382165002646, 62.05220649375565), Coord2(62.68666428238557, 54.311930140968435)), (Coord2(57.342814552176314, 60.601487335346604), Coord2(51.998964821967064, 66.89104452972478), Coord2(46.653511776507216, 73.18248877996685)), (Coord2(53.82624318764984, 69.09994254703577), Coord2(60.99897459879246, 65.01739631410469), Coord2(68.17385804456188, 60.933625194815086)), (Coord2(60.03738221891111, 62.316745138642204), Coord2(51.90090639326034, 63.69986508246932), Coord2(43.76198938074319, 65.08340000377734)), (Coord2(51.88083055473449, 66.5665310269561), Coord2(59.999671728725794, 68.04966205013484), Coord2(68.12094879865889, 69.53323805711894)), (Coord2(60.9989943432448, 65.36274355701237), Coord2(53.87703988783072, 61.192249056905794), Coord2(46.752948632400006, 57.02050328332184)), (Coord2(52.01900355306058, 63.37533807369981), Coord2(57.28505847372115, 69.73017286407779), Coord2(62.55269336885537, 76.08691429555698))]),
    ];
    let mut rng_f19 = Rng(0xF19);   // its own stream: the inputs generated below stay what they were before these cases existed
    for q in &f19 {
        stats.case(&format!("corpus f19 {:?}", q), true);
        stats.count("corpus.f19_regression");
        check_set(&mut stats, &mut rng_f19, &vec![q.clone()], "f19_regression", 200, 200);
    }
    // closed paths one of whose cubic edges crosses ITSELF (a curl): the crossing is found by find_self_intersection_point, not by the
    // edge-against-edge collision; a stream of its own, so that the random inputs below stay what they were
    let mut rng_curl = Rng(seed ^ 0xC0271);
    for _ in 0..(6 + n / 40) {
        let c = Coord2(rng_curl.r(35.0, 65.0), rng_curl.r(35.0, 65.0));
        let r = rng_curl.r(15.0, 30.0);
        let a0 = rng_curl.r(0.0, TAU);
        let v: Vec<Coord2> = (0..4).map(|k| { let a = a0 + (k as f64 + rng_curl.r(-0.2, 0.2)) * TAU / 4.0; c + Coord2(a.cos(), a.sin()) * r }).collect();
        let line = |p: Coord2, q: Coord2| (p + (q - p) * 0.33, p + (q - p) * 0.66, q);
        // the edge v0 -> v1 curls: its control points are pushed past each other along the edge and out of the body
        let (p, q) = (v[0], v[1]);
        let d = q - p;
        let out = { let m = (p + q) * 0.5 - c; let l = (m.0 * m.0 + m.1 * m.1).sqrt(); Coord2(m.0 / l, m.1 / l) };
        let k = rng_curl.r(0.9, 1.6);
        let curl = (p + d * k + out * (r * rng_curl.r(0.3, 0.8)), q - d * k + out * (r * rng_curl.r(0.3, 0.8)), q);
        let path: P = (p, vec![curl, line(v[1], v[2]), line(v[2], v[3]), line(v[3], v[0])]);
        let path = redirect(&mut rng_curl, &path);
        stats.case(&format!("curl {:?}", path), true);
        stats.count("input.curl_edge_crosses_itself");
        check_set(&mut stats, &mut rng_curl, &vec![path], "curl_edge_crosses_itself", 200, 200);
    }
    // the same curl drawn with TWO consecutive sections (the cubic cut in two near its middle): neither section has a loop of its own, the
    // second one crosses back over the first - a crossing between two ADJACENT edges, away from their joint (own stream)
    let mut rng_c2 = Rng(seed ^ 0x25EC7);
    for _ in 0..(4 + n / 60) {
        let (path, _) = curl_frame(&mut rng_c2, true);
        stats.case(&format!("two-section curl {:?}", path), true);
        stats.count("input.curl_drawn_with_two_sections");
        check_set(&mut stats, &mut rng_c2, &vec![path], "curl_drawn_with_two_sections", 200, 200);
    }
    // directed search among many curls (own stream): find_self_intersection_point is asked directly, which costs microseconds, and the
    // property is evaluated on the curls whose answer looks wrong (none, two parameters that are not a crossing, or a point pair apart)
    let mut rng_sip = Rng(seed ^ 0x51B12);
    let mut suspicious = 0;
    for _ in 0..(50 * n) {
        let (path, curl) = curl_frame(&mut rng_sip, false);
        stats.count("curls_screened");
        let c = flo_curves::bezier::Curve::from_points(curl[0], (curl[1], curl[2]), curl[3]);
        let (u1, u2) = match double_point(&curl) { Some(u) => u, None => { stats.count("curls_screened.no_double_point"); continue; } };
        if !(u1 > 0.02 && u2 < 0.98 && u2 - u1 > 0.05) { stats.count("curls_screened.double_point_outside_or_near_ends"); continue; }
        stats.count("curls_screened.with_double_point");
        let dp = c.point_at_pos(u1);
        let looks_wrong = match std::panic::catch_unwind(|| flo_curves::bezier::find_self_intersection_point(&c, ACC)) {
            Ok(Some((t1, t2))) => { let (a, b) = (c.point_at_pos(t1), c.point_at_pos(t2)); !(dist(a, dp) <= 0.1 && dist(b, dp) <= 0.1) || !((t2 - t1).abs() >= 0.04) }
            Ok(None) => true,
            Err(_) => true,
        };
        if !looks_wrong { continue; }
        stats.count("curls_screened.self_intersection_looks_wrong");
        suspicious += 1;
        if suspicious > 40 { continue; }
        stats.case(&format!("screened curl {:?}", path), true);
        stats.count("input.curl_edge_crosses_itself");
        check_set(&mut stats, &mut rng_sip, &vec![path], "curl_edge_crosses_itself", 200, 200);
    }
    // an edge that is a loop nearly cusped at t = 0.5 (F25: both halves of the edge are characterised as loops; find_self_collisions asks
    // find_self_intersection_point about every edge), closed by its chord (own stream)
    let mut rng_cusp = Rng(seed ^ 0xF25C12);
    for it in 0..(30 + n / 4) {
        let (a, c) = (rng_cusp.r(15.0, 45.0), rng_cusp.r(20.0, 45.0));
        let e = [1e-3, 1e-5, 1e-7, 1e-9, 1e-11, 1e-13, 1e-15][(it % 7) as usize] * rng_cusp.r(0.5, 1.5);
        let b = a * (1.0 + e);
        let (ox, oy) = (50.0 + rng_cusp.r(-3.0, 3.0), 20.0 + rng_cusp.r(-3.0, 3.0));
        let (p3, p0) = (Coord2(a + ox, oy), Coord2(-a + ox, oy));
        let path: P = (p0, vec![(Coord2(b + ox, c + oy), Coord2(-b + ox, c + oy), p3), (p3 + (p0 - p3) * 0.33, p3 + (p0 - p3) * 0.66, p0)]);
        stats.case(&format!("nearly cusped edge {:?}", path), true);
        stats.count("input.nearly_cusped_loop_edge");
        check_set(&mut stats, &mut rng_cusp, &vec![path], "nearly_cusped_loop_edge", 120, 120);
    }
    // a vertex of one shape exactly ON an edge of another shape, the outline leaving through that edge there (a T-junction that is a
    // crossing), and the same with the vertex a few thousandths inside / outside the edge, so that the crossing lies within 0.01 of the
    // vertex but not at it; also one path piercing its own edge at / next to its own vertex (own stream)
    let mut rng_t = Rng(seed ^ 0x7C12C12);
    for k in 0..(6 + n / 30) {
        let (x0, y0, w, h) = (rng_t.r(10.0, 25.0), rng_t.r(10.0, 25.0), rng_t.r(30.0, 45.0), rng_t.r(30.0, 45.0));
        let xe = (x0 + w).round();
        let d = match k % 3 { 0 => 0.0, 1 => rng_t.r(0.002, 0.0065), _ => -rng_t.r(0.002, 0.0065) };
        let yv = (y0 + h * rng_t.r(0.3, 0.7)).round();
        let square = vec![Coord2(x0, y0), Coord2(xe, y0), Coord2(xe, y0 + h), Coord2(x0, y0 + h)];
        let quad = vec![Coord2(xe - rng_t.r(15.0, 25.0), yv - rng_t.r(10.0, 20.0)), Coord2(xe + d, yv), Coord2(xe + rng_t.r(20.0, 30.0), yv + rng_t.r(15.0, 30.0)), Coord2(xe - rng_t.r(10.0, 20.0), yv + rng_t.r(32.0, 40.0))];
        let class = if d == 0.0 { "pierced_at_vertex" } else { "pierced_just_off_vertex" };
        let set: Vec<P> = if k % 4 == 3 {
            // one path: the square's outline continued into a flag that leaves through the edge x = xe at (xe + d, yv)
            vec![polygon(&[Coord2(x0, y0), Coord2(xe, y0), Coord2(xe, y0 + h), Coord2(x0 + w * 0.4, y0 + h), Coord2(x0 + w * 0.4, yv), Coord2(xe + d, yv), Coord2(xe + 20.0, yv + 12.0), Coord2(xe + 20.0, y0 + h + 20.0), Coord2(x0, y0 + h + 20.0)])]
        } else if k % 2 == 0 { vec![polygon(&square), polygon(&quad)] } else { vec![redirect(&mut rng_t, &polygon(&quad)), redirect(&mut rng_t, &polygon(&square))] };
        stats.case(&format!("{} d={} {:?}", class, d, set), true);
        stats.count(&format!("input.{}", class));
        check_set(&mut stats, &mut rng_t, &set, class, 200, 200);
    }
    for (k, m) in STARS {
        for rot in [0.0, 0.1, TAU / 4.0] {
            for variant in 0..2 {
                let p = polygon(&star_points(k, m, Coord2(50.0, 50.0), 30.0, rot));
                let q = if variant == 0 { p } else { rotate_start(&reversed(&p), 2) };
                stats.case(&format!("corpus star {{{}/{}}} rot={} {:?}", k, m, rot, q), true);
                stats.count(&format!("corpus.star_{}_{}", k, m));
                check_set(&mut stats, &mut rng, &vec![q], &format!("star_{}_{}", k, m), 400, 400);
            }
        }
    }
    for _ in 0..n {
        match rng.i(10) {
            0 => {
                let (k, m) = STARS[rng.i(6) as usize];
                let p = polygon(&star_points(k, m, rand_centre(&mut rng), rng.r(10.0, 30.0), rng.r(0.0, TAU)));
                let q = redirect(&mut rng, &p);
                stats.count(&format!("input.star_{}_{}", k, m));
                stats.case(&format!("star {{{}/{}}} {:?}", k, m, q), true);
                check_set(&mut stats, &mut rng, &vec![q], &format!("star_{}_{}", k, m), 200, 200);
            }
            1 => {
                // random self-crossing quadrilateral
                let c = rand_centre(&mut rng);
                let r = rng.r(10.0, 30.0);
                let pts: Vec<Coord2> = (0..4).map(|k| { let a = (k as f64 + rng.r(0.2, 0.8)) / 4.0 * TAU; Coord2(c.0 + r * rng.r(0.5, 1.0) * a.cos(), c.1 + r * rng.r(0.5, 1.0) * a.sin()) }).collect();
                let q = redirect(&mut rng, &bowtie(pts[0], pts[1], pts[2], pts[3]));
                stats.count("input.bowtie");
                stats.case(&format!("bowtie {:?}", q), true);
                check_set(&mut stats, &mut rng, &vec![q], "bowtie", 200, 200);
            }
            _ => {
                // 1..4 simple shapes that overlap each other, either direction
                let k = 1 + rng.i(4) as usize;
                let mut set = vec![];
                let mut kinds = vec![];
                for _ in 0..k { let s = rand_shape(&mut rng); kinds.push(s.kind); set.push(redirect(&mut rng, &s.path)); }
                let dirs: Vec<bool> = set.iter().map(|p| signed_area(&flatten(p)) > 0.0).collect();
                let mixed = dirs.iter().any(|d| *d != dirs[0]);
                // recognisable special configurations of the input (as for C01): a vertex of one sub-path exactly on / within 0.1 of another's boundary
                let singles: Vec<Vec<P>> = set.iter().map(|p| vec![p.clone()]).collect();
                let contact = contact_suffix_all(&singles.iter().collect::<Vec<_>>());
                let contact = if contact.is_empty() && k >= 3 { close_crossings_suffix(&singles.iter().collect::<Vec<_>>()) } else { contact };
                let class = if k == 1 { "single_simple_shape".to_string() } else { format!("set_of_{}.{}{}", k, if mixed { "mixed_directions" } else { "same_direction" }, contact) };
                stats.count(&format!("input.{}", class));
                for kd in &kinds { stats.count(&format!("kind.{}", kd)); }
                let o = Operand::new(&set);
                // non-trivial: some region is covered more than once
                let overlap = o.flat.iter().enumerate().any(|(i, q)| q.iter().any(|p| o.flat.iter().enumerate().any(|(j, r)| i != j && winding(*p, r) != 0)));
                if overlap { stats.count("input.shapes_overlap"); }
                stats.case(&format!("{} {:?}", class, set), overlap);
                check_set(&mut stats, &mut rng, &set, &class, 150, 150);
            }
        }
    }
    stats.print(PROP, "search");
}
