//! C12: path_remove_interior_points implements the non-zero fill rule, path_remove_overlapped_points the even-odd rule.
//! Oracle: total winding number of the input (sum over the sub-paths of the winding number of the flattening; for the
//! straight-edged bow-ties and star polygons the flattening is the vertex list itself, so the winding number is exact).
use crate::shapes::*;
use crate::util::*;
use flo_curves::bezier::path::*;
use flo_curves::*;

const PROP: &str = "C12";
const ACC: f64 = 0.01;

fn signed_area(q: &Poly) -> f64 { let n = q.len(); (0..n).map(|i| cross(q[i], q[(i + 1) % n])).sum::<f64>() * 0.5 }

fn check_set(stats: &mut Stats, rng: &mut Rng, set: &Vec<P>, class: &str, n_uniform: usize, n_near: usize) {
    let o = Operand::new(set);
    let pr = probes(rng, &[&o], n_uniform, n_near);
    let detail = || format!("input={:?}", set);
    let mut hist = [0u64; 4];
    for p in &pr { let w = o.winding(*p, false).unsigned_abs() as usize; hist[w.min(3)] += 1; }
    for (w, c) in hist.iter().enumerate() { stats.add(&format!("probes_winding_{}{}", w, if w == 3 { "_or_more" } else { "" }), *c); }
    stats.count("op.remove_interior_points");
    let s2 = set.clone();
    if let Some(res) = run_guarded(stats, PROP, "path_remove_interior_points", &detail, move || path_remove_interior_points::<P, P>(&s2, ACC)) {
        check_output_paths(stats, PROP, "remove_interior", &res, &detail);
        // diagnostic for the report: does the result equal the union of the sub-paths (= non-zero winding after every
        // sub-path has been given the same direction)? The statement's oracle is the plain winding number of the input.
        let (w_union, _) = wrong_probes(stats, &res, &pr, &|p, f| (if f { &o.fine } else { &o.flat }).iter().any(|q| winding(p, q) != 0));
        // The statement's "non-zero winding (the outer silhouette …)": every sub-path's winding is taken relative to that
        // sub-path's own direction (sign of its signed area), which is what "outer silhouette" means for sub-paths given in
        // either direction and what the library does by re-orienting each sub-path. For sub-paths of one direction this is
        // the plain winding number. (A clockwise and an anticlockwise shape overlapping have plain winding 0 in the overlap.)
        let norm_winding = |p: Coord2, f: bool| -> i32 {
            (if f { &o.fine } else { &o.flat }).iter().map(|q| { let w = winding(p, q); if signed_area(q) < 0.0 { -w } else { w } }).sum()
        };
        let ok = check_membership(stats, PROP, &format!("remove_interior.probe_membership.{}", class), &res, &pr, &|p, f| norm_winding(p, f) != 0, &|| format!("expected = non-zero (direction-normalised) winding; [against the union of the sub-paths taken one by one the result is wrong at {} probes] {}", w_union, detail()));
        if !ok { stats.count(if w_union == 0 { "remove_interior.failing_result_equals_union_of_subpaths" } else { "remove_interior.failing_result_differs_from_union_of_subpaths" }); }
    }
    stats.count("op.remove_overlapped_points");
    let s2 = set.clone();
    if let Some(res) = run_guarded(stats, PROP, "path_remove_overlapped_points", &detail, move || path_remove_overlapped_points::<P, P>(&s2, ACC)) {
        check_output_paths(stats, PROP, "remove_overlapped", &res, &detail);
        check_membership(stats, PROP, &format!("remove_overlapped.probe_membership.{}", class), &res, &pr, &|p, f| o.winding(p, f).rem_euclid(2) == 1, &|| format!("expected = odd winding; {}", detail()));
    }
}

pub const STARS: [(usize, usize); 6] = [(5, 2), (7, 2), (7, 3), (8, 3), (9, 2), (9, 4)];

/// a quadrilateral whose two diagonals are used as edges: crosses itself once
fn bowtie(a: Coord2, b: Coord2, c: Coord2, d: Coord2) -> P { polygon(&[a, c, b, d]) }

pub fn search(seed: u64, n: u64) {
    quiet_panics();
    let mut rng = Rng(seed ^ 0x5EA2C12);
    let mut stats = Stats::new();
    // fixed corpus: bow-ties and star polygons, several rotations, both directions, another start vertex
    let bowties = vec![
        ("bowtie", bowtie(Coord2(20.0, 20.0), Coord2(80.0, 20.0), Coord2(80.0, 80.0), Coord2(20.0, 80.0))),
        ("bowtie", bowtie(Coord2(20.0, 30.0), Coord2(70.0, 20.0), Coord2(85.0, 75.0), Coord2(30.0, 60.0))),
        ("bowtie", bowtie(Coord2(10.0, 50.0), Coord2(50.0, 10.0), Coord2(90.0, 50.0), Coord2(50.0, 90.0))),
    ];
    for (name, p) in &bowties {
        for variant in 0..3 {
            let q = match variant { 0 => p.clone(), 1 => reversed(p), _ => rotate_start(p, 1) };
            stats.case(&format!("corpus {} {:?}", name, q), true);
            stats.count("corpus.bowtie");
            check_set(&mut stats, &mut rng, &vec![q], name, 300, 300);
        }
    }
    for (k, m) in STARS {
        for rot in [0.0, 0.1, TAU / 4.0] {
            for variant in 0..2 {
                let p = polygon(&star_points(k, m, Coord2(50.0, 50.0), 30.0, rot));
                let q = if variant == 0 { p } else { rotate_start(&reversed(&p), 2) };
                stats.case(&format!("corpus star {{{}/{}}} rot={} {:?}", k, m, rot, q), true);
                stats.count(&format!("corpus.star_{}_{}", k, m));
                check_set(&mut stats, &mut rng, &vec![q], &format!("star_{}_{}", k, m), 400, 400);
            }
        }
    }
    for _ in 0..n {
        match rng.i(10) {
            0 => {
                let (k, m) = STARS[rng.i(6) as usize];
                let p = polygon(&star_points(k, m, rand_centre(&mut rng), rng.r(10.0, 30.0), rng.r(0.0, TAU)));
                let q = redirect(&mut rng, &p);
                stats.count(&format!("input.star_{}_{}", k, m));
                stats.case(&format!("star {{{}/{}}} {:?}", k, m, q), true);
                check_set(&mut stats, &mut rng, &vec![q], &format!("star_{}_{}", k, m), 200, 200);
            }
            1 => {
                // random self-crossing quadrilateral
                let c = rand_centre(&mut rng);
                let r = rng.r(10.0, 30.0);
                let pts: Vec<Coord2> = (0..4).map(|k| { let a = (k as f64 + rng.r(0.2, 0.8)) / 4.0 * TAU; Coord2(c.0 + r * rng.r(0.5, 1.0) * a.cos(), c.1 + r * rng.r(0.5, 1.0) * a.sin()) }).collect();
                let q = redirect(&mut rng, &bowtie(pts[0], pts[1], pts[2], pts[3]));
                stats.count("input.bowtie");
                stats.case(&format!("bowtie {:?}", q), true);
                check_set(&mut stats, &mut rng, &vec![q], "bowtie", 200, 200);
            }
            _ => {
                // 1..4 simple shapes that overlap each other, either direction
                let k = 1 + rng.i(4) as usize;
                let mut set = vec![];
                let mut kinds = vec![];
                for _ in 0..k { let s = rand_shape(&mut rng); kinds.push(s.kind); set.push(redirect(&mut rng, &s.path)); }
                let dirs: Vec<bool> = set.iter().map(|p| signed_area(&flatten(p)) > 0.0).collect();
                let mixed = dirs.iter().any(|d| *d != dirs[0]);
                // recognisable special configurations of the input (as for C01): a vertex of one sub-path exactly on / within 0.1 of another's boundary
                let singles: Vec<Vec<P>> = set.iter().map(|p| vec![p.clone()]).collect();
                let contact = contact_suffix_all(&singles.iter().collect::<Vec<_>>());
                let contact = if contact.is_empty() && k >= 3 { close_crossings_suffix(&singles.iter().collect::<Vec<_>>()) } else { contact };
                let class = if k == 1 { "single_simple_shape".to_string() } else { format!("set_of_{}.{}{}", k, if mixed { "mixed_directions" } else { "same_direction" }, contact) };
                stats.count(&format!("input.{}", class));
                for kd in &kinds { stats.count(&format!("kind.{}", kd)); }
                let o = Operand::new(&set);
                // non-trivial: some region is covered more than once
                let overlap = o.flat.iter().enumerate().any(|(i, q)| q.iter().any(|p| o.flat.iter().enumerate().any(|(j, r)| i != j && winding(*p, r) != 0)));
                if overlap { stats.count("input.shapes_overlap"); }
                stats.case(&format!("{} {:?}", class, set), overlap);
                check_set(&mut stats, &mut rng, &set, &class, 150, 150);
            }
        }
    }
    stats.print(PROP, "search");
}
