//! C19: curve_length(curve, e) is bracketed by chord and control polygon, accurate (0.1 for e = 0.01, 1e-3 for e = 1e-8),
//! invariant under reversal and additive over a subdivision. True length: 20000-segment polyline on an independent evaluation.
use crate::guard::*;
use crate::cshapes::*;
use crate::util::*;
use flo_curves::bezier::*;

const TIMEOUT: f64 = 5.0;
const ERRORS: [(f64, &str, Option<f64>); 3] = [(1e-2, "e0.01", Some(0.1)), (1e-4, "e1e-4", None), (1e-8, "e1e-8", Some(1e-3))];

fn subdivide(w: &Cub, t: f64) -> (Cub, Cub) {
    let l = |a: Coord2, b: Coord2| a + (b - a) * t;
    let (a, b, c) = (l(w[0], w[1]), l(w[1], w[2]), l(w[2], w[3]));
    let (d, e) = (l(a, b), l(b, c));
    let m = l(d, e);
    ([w[0], a, d, m], [m, e, c, w[3]])
}

pub fn check_curve(stats: &mut Stats, w: &Cub, class: &str, split_t: f64) {
    let truth = polyline_length(w, 20000);
    let (ch, poly) = (chord(w), polygon(w));
    let (rl, rr) = subdivide(w, split_t);
    for (e, ename, acc) in ERRORS.iter() {
        let desc = format!("curve={} class={} e={:e} split_t={:?}", fmt_cub(w), class, e, split_t);
        stats.case(&desc, class != "point");
        stats.count(&format!("curve.{}", class));
        stats.count(&format!("error.{}", ename));
        let (c, e2, t2) = (lib_curve(w), *e, split_t);
        // length of the curve, of its reverse, of the two halves of the library's subdivision and of an independent one
        let r = guarded(TIMEOUT, move || {
            let len = curve_length(&c, e2);
            let rev: Curve<Coord2> = c.clone().reverse();
            let lrev = curve_length(&rev, e2);
            let (a, b): (Curve<Coord2>, Curve<Coord2>) = c.subdivide(t2);
            let lsplit = curve_length(&a, e2) + curve_length(&b, e2);
            let lsplit_own = curve_length(&lib_curve(&rl), e2) + curve_length(&lib_curve(&rr), e2);
            (len, lrev, lsplit, lsplit_own, chord_length(&c), control_polygon_length(&c))
        });
        let (len, lrev, lsplit, lsplit_own, lch, lpoly) = match r {
            Outcome::Done(v) => v,
            Outcome::Panic(m) => { stats.fail("C19", &format!("panic.curve_length.{}", class), &format!("{} panic={}", desc, m)); continue; }
            Outcome::Hang => { stats.fail("C19", &format!("hang.curve_length.{}", class), &format!("{} no result after {} s", desc, TIMEOUT)); continue; }
        };
        if !len.is_finite() { stats.fail("C19", &format!("length.non_finite.{}", class), &format!("{} length={:?}", desc, len)); continue; }
        if gt((lch - ch).abs(), 1e-9) || gt((lpoly - poly).abs(), 1e-9) { stats.fail("C19", &format!("length.chord_or_polygon_helper_wrong.{}", class), &format!("{} chord_length={:?} want {:?} control_polygon_length={:?} want {:?}", desc, lch, ch, lpoly, poly)); }
        if lt(len, ch - 1e-9) { stats.fail("C19", &format!("length.below_chord.{}.{}", ename, class), &format!("{} length={:?} chord={:?} (true length {:?})", desc, len, ch, truth)); }
        if gt(len, poly + 1e-9) { stats.fail("C19", &format!("length.above_polygon.{}.{}", ename, class), &format!("{} length={:?} polygon={:?} (true length {:?})", desc, len, poly, truth)); }
        if gt((len - lrev).abs(), 1e-9) { stats.fail("C19", &format!("length.reverse.{}.{}", ename, class), &format!("{} length={:?} reversed={:?} difference={:e}", desc, len, lrev, len - lrev)); }
        match acc {
            Some(tol) => {
                // the polyline is a lower bound of the arc length with an error far below the tolerances (re-checked with 4x the segments before a failure is reported)
                if (len - truth).abs() > *tol {
                    let finer = polyline_length(w, 80000);
                    if gt((len - finer).abs(), *tol) { stats.fail("C19", &format!("length.accuracy_{}.{}", ename, class), &format!("{} length={:?} true={:?} (80000 segments: {:?}) error={:e} allowed={:e}", desc, len, truth, finer, len - finer, tol)); }
                }
                if gt((len - lsplit).abs(), *tol) { stats.fail("C19", &format!("length.additivity.{}.{}", ename, class), &format!("{} length={:?} sum of halves={:?} difference={:e} allowed={:e}", desc, len, lsplit, len - lsplit, tol)); }
                else if gt((len - lsplit_own).abs(), *tol) { stats.fail("C19", &format!("length.additivity.{}.{}", ename, class), &format!("{} length={:?} sum of halves (de Casteljau halves {} and {})={:?} difference={:e} allowed={:e}", desc, len, fmt_cub(&rl), fmt_cub(&rr), lsplit_own, len - lsplit_own, tol)); }
                stats.count(&format!("abs_error.{}.{}", ename, if (len - truth).abs() <= tol / 100.0 { "le_1pct_of_allowed" } else if (len - truth).abs() <= tol / 10.0 { "le_10pct_of_allowed" } else if (len - truth).abs() <= *tol { "le_allowed" } else { "gt_allowed" }));
            }
            None => stats.count("e1e-4.bracket_and_reverse_only"),
        }
    }
}

pub fn search(seed: u64, n: u64) {
    let mut rng = Rng(seed ^ 0x5EA2C19);
    let mut stats = Stats::new();
    install_silent_hook();
    // corpus: classic cusp, a full-box S, a closed loop, a point
    let corpus: [(Cub, &str); 4] = [
        ([Coord2(0.0, 0.0), Coord2(100.0, 100.0), Coord2(0.0, 100.0), Coord2(100.0, 0.0)], "cusp"),
        ([Coord2(0.0, 0.0), Coord2(100.0, 0.0), Coord2(0.0, 100.0), Coord2(100.0, 100.0)], "s_curve"),
        ([Coord2(50.0, 0.0), Coord2(100.0, 100.0), Coord2(0.0, 100.0), Coord2(50.0, 0.0)], "closed"),
        ([Coord2(5.0, 5.0), Coord2(5.0, 5.0), Coord2(5.0, 5.0), Coord2(5.0, 5.0)], "point"),
    ];
    for (w, class) in corpus.iter() { check_curve(&mut stats, w, class, 0.5); }
    for _ in 0..n {
        let class = CURVE_CLASSES[rng.i(CURVE_CLASSES.len() as u64) as usize];
        let mut w = gen_class(&mut rng, class);
        // a share of the curves spans the whole box (the accuracy bound is absolute, so the largest curves are the hardest)
        if rng.i(3) == 0 && class != "point" {
            let (mut lo, mut hi) = (Coord2(f64::MAX, f64::MAX), Coord2(f64::MIN, f64::MIN));
            for p in w.iter() { lo = Coord2(lo.0.min(p.0), lo.1.min(p.1)); hi = Coord2(hi.0.max(p.0), hi.1.max(p.1)); }
            let s = (100.0 / (hi.0 - lo.0).max(hi.1 - lo.1).max(1e-9)).min(50.0);
            for p in w.iter_mut() { *p = (*p - lo) * s; }
            stats.count("scaled_to_full_box");
        }
        let split_t = match rng.i(8) { 0 => 0.5, 1 => 10f64.powf(rng.r(-6.0, -2.0)), 2 => 1.0 - 10f64.powf(rng.r(-6.0, -2.0)), _ => rng.r(0.02, 0.98) };
        check_curve(&mut stats, &w, class, split_t);
    }
    stats.print("C19", "search");
    finish();
}

/// Correspondence transcript: `curve_length` (with `chord_length`, `control_polygon_length`) on every curve class of the
/// search generator plus the corpus, a share scaled to the full box, a share scaled far out of the box (these reach the
/// `max_error <= MIN_ERROR` acceptance), each at all three tolerances. The Lean side runs the GENERATED `curve_length`
/// at `Float` and must reproduce every number bit for bit.
pub fn corr(seed: u64, n: u64) {
    let mut rng = Rng(seed ^ 0xC19);
    let mut stats = Stats::new();
    let hxw = |w: &Cub| w.iter().map(|p| format!("{} {}", hx(p.0), hx(p.1))).collect::<Vec<_>>().join(" ");
    let mut emit = |stats: &mut Stats, w: &Cub, class: &str| {
        let c = lib_curve(w);
        for (e, ename, _) in ERRORS.iter() {
            let line = format!("C19 len R {} {} | {} {} {}", hxw(w), hx(*e), hx(curve_length(&c, *e)), hx(chord_length(&c)), hx(control_polygon_length(&c)));
            stats.case(&line, !class.ends_with("point"));
            stats.count(&format!("len.{}.{}", class, ename));
            println!("{}", line);
        }
    };
    let corpus: [(Cub, &str); 4] = [
        ([Coord2(0.0, 0.0), Coord2(100.0, 100.0), Coord2(0.0, 100.0), Coord2(100.0, 0.0)], "corpus_cusp"),
        ([Coord2(0.0, 0.0), Coord2(100.0, 0.0), Coord2(0.0, 100.0), Coord2(100.0, 100.0)], "corpus_s_curve"),
        ([Coord2(50.0, 0.0), Coord2(100.0, 100.0), Coord2(0.0, 100.0), Coord2(50.0, 0.0)], "corpus_closed"),
        ([Coord2(5.0, 5.0), Coord2(5.0, 5.0), Coord2(5.0, 5.0), Coord2(5.0, 5.0)], "corpus_point"),
    ];
    for (w, class) in corpus.iter() { emit(&mut stats, w, class); }
    for i in 0..n {
        let class = CURVE_CLASSES[rng.i(CURVE_CLASSES.len() as u64) as usize];
        let mut w = gen_class(&mut rng, class);
        match rng.i(40) {
            // spans the whole box
            0..=9 if class != "point" => {
                let (mut lo, mut hi) = (Coord2(f64::MAX, f64::MAX), Coord2(f64::MIN, f64::MIN));
                for p in w.iter() { lo = Coord2(lo.0.min(p.0), lo.1.min(p.1)); hi = Coord2(hi.0.max(p.0), hi.1.max(p.1)); }
                let s = (100.0 / (hi.0 - lo.0).max(hi.1 - lo.1).max(1e-9)).min(50.0);
                for p in w.iter_mut() { *p = (*p - lo) * s; }
                stats.count("scaled_to_full_box");
            }
            // far larger than the box (at most one in 200 curves: tens of thousands of pieces, all accepted by the MIN_ERROR floor)
            10 if i % 5 == 0 => { let s = 10f64.powf(rng.r(3.0, 6.0)); for p in w.iter_mut() { *p = *p * s; } stats.count("scaled_up_1e3_to_1e6"); }
            // far smaller than the box (accepted at once)
            11 => { let s = 10f64.powf(rng.r(-9.0, -3.0)); for p in w.iter_mut() { *p = *p * s; } stats.count("scaled_down_1e-9_to_1e-3"); }
            _ => {}
        }
        emit(&mut stats, &w, class);
    }
    stats.print("C19", "corr");
}
