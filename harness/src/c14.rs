//! C14: GraphPath::ray_collisions against a closed path or a collided graph: one collision per geometric crossing, each on
//! its edge and on the line, sorted along the line, even in number.
use crate::c02::from_curve;
use crate::shapes::*;
use crate::util::*;
use flo_curves::bezier::path::*;
use flo_curves::*;
use std::collections::HashMap;
use flo_curves::bezier::curve_intersects_ray;

const PROP: &str = "C14";
const ACC: f64 = 0.01;
const GRID: usize = 2000;
type G = GraphPath<Coord2, PathLabel>;

struct Edge { cubic: Cubic, straight: bool, grid: Vec<Coord2>, shared: bool }

fn edges_of(g: &G) -> (Vec<Edge>, HashMap<GraphEdgeRef, usize>) {
    let mut edges: Vec<Edge> = g.all_edges().map(|e| {
        let cubic = from_curve(&e);
        let grid = (0..=GRID).map(|k| bez(&cubic, k as f64 / GRID as f64)).collect();
        Edge { cubic, straight: is_straight(&cubic), grid, shared: false }
    }).collect();
    let refs: HashMap<GraphEdgeRef, usize> = g.all_edge_refs().enumerate().map(|(i, r)| (r, i)).collect();
    // overlapping (shared) edges: three interior points of the edge lie on one other edge
    let n = edges.len();
    for i in 0..n { for j in 0..n {
        if i == j || edges[i].shared { continue; }
        if dist(edges[i].cubic[0], edges[i].cubic[3]) <= 0.001 { continue; }
        if [0.25, 0.5, 0.75].iter().all(|t| on_edge(&edges[j], bez(&edges[i].cubic, *t), 0.001)) { edges[i].shared = true; }
    } }
    (edges, refs)
}

/// the point is within `tol` of the edge (on its 1/2000 polyline)
fn on_edge(e: &Edge, q: Coord2, tol: f64) -> bool {
    let (mn, mx) = bbox_of(&[e.cubic.to_vec()]);
    if q.0 < mn.0 - tol || q.0 > mx.0 + tol || q.1 < mn.1 - tol || q.1 > mx.1 + tol { return false; }
    e.grid.windows(2).any(|w| dist_seg(q, w[0], w[1]) <= tol)
}

/// the two edges run on top of each other around their collisions at ta / tb (both neighbours of the collision point
/// on edge a lie on edge b): a transversal crossing of two edges fails this
fn overlap_near(a: &Edge, ta: f64, b: &Edge) -> bool {
    let lo = bez(&a.cubic, (ta - 0.02).max(0.0));
    let hi = bez(&a.cubic, (ta + 0.02).min(1.0));
    // the code's tie window is 0.001 in x and in y, i.e. up to 0.0015 apart
    dist(lo, hi) > 0.004 && on_edge(b, lo, 0.0015) && on_edge(b, hi, 0.0015)
}

fn gen_line(rng: &mut Rng, g: &G, edges: &[Edge], want_class: u64) -> ((Coord2, Coord2), &'static str) {
    let np = g.num_points();
    let along = |rng: &mut Rng, q: Coord2, d: Coord2| -> (Coord2, Coord2) {
        // two points of the line through q with direction d, anywhere along it, either orientation
        let d = d * (1.0 / len(d));
        let s1 = rng.r(-80.0, 80.0);
        let mut s2 = rng.r(-80.0, 80.0);
        if (s2 - s1).abs() < 1.0 { s2 = s1 + 1.0 + rng.r(0.0, 50.0); }
        (q + d * s1, q + d * s2)
    };
    match want_class {
        0 | 1 => loop {
            let (a, b) = (Coord2(rng.r(0.0, 100.0), rng.r(0.0, 100.0)), Coord2(rng.r(0.0, 100.0), rng.r(0.0, 100.0)));
            if dist(a, b) >= 1.0 { return ((a, b), "random"); }
        },
        2 => {
            let q = Coord2(rng.r(10.0, 90.0), rng.r(10.0, 90.0));
            let d = if rng.b() { Coord2(1.0, 0.0) } else { Coord2(0.0, 1.0) };
            (along(rng, q, d), "axis_parallel")
        }
        3 => {
            // along one coordinate of a vertex, offset from it by 0.1 .. 0.5
            let v = g.point_position(rng.i(np as u64) as usize);
            let off = rng.r(0.1, 0.5) * if rng.b() { 1.0 } else { -1.0 };
            if rng.b() { (along(rng, Coord2(v.0, v.1 + off), Coord2(1.0, 0.0)), "offset_from_vertex_coordinate") } else { (along(rng, Coord2(v.0 + off, v.1), Coord2(0.0, 1.0)), "offset_from_vertex_coordinate") }
        }
        _ => {
            // through the interior of a shared edge if the graph has one, else of any edge
            let shared: Vec<usize> = (0..edges.len()).filter(|i| edges[*i].shared).collect();
            let (i, class) = if shared.is_empty() { (rng.i(edges.len() as u64) as usize, "through_edge_interior") } else { (shared[rng.i(shared.len() as u64) as usize], "through_shared_edge_interior") };
            let t = rng.r(0.15, 0.85);
            let q = bez(&edges[i].cubic, t);
            let tan = bez_d(&edges[i].cubic, t);
            let base = tan.1.atan2(tan.0);
            let ang = base + rng.r(0.2, TAU / 2.0 - 0.2);
            (along(rng, q, Coord2(ang.cos(), ang.sin())), class)
        }
    }
}

fn check_line(stats: &mut Stats, g: &G, edges: &[Edge], refs: &HashMap<GraphEdgeRef, usize>, line: (Coord2, Coord2), gclass: &str, lclass: &str, detail: &dyn Fn() -> String) {
    let (p1, p2) = line;
    let d = p2 - p1;
    let l = len(d);
    let nrm = Coord2(-d.1 / l, d.0 / l);
    let sd = |q: Coord2| dot(q - p1, nrm);
    // precondition: at least 0.1 from every vertex of the graph
    for i in 0..g.num_points() { if sd(g.point_position(i)).abs() < 0.1 { stats.excluded += 1; stats.count("excluded.line_within_0.1_of_vertex"); return; } }
    // precondition: nowhere (near-)tangent; and the expected crossings per edge
    let mut want = vec![0usize; edges.len()];
    let mut min_sin: f64 = 1.0;
    // the shallow classes are decided on a 200000-point evaluation of every edge (two crossings 1 unit apart on a 1500-long arc fall between
    // the points of the coarse grid), and are not subject to the coarse grid's near-tangent exclusion: their crossing angle is known to be > 0
    let dense = lclass.starts_with("shallow_") || lclass.starts_with("large_");
    if dense {
        const N: usize = 200000;
        for (i, e) in edges.iter().enumerate() {
            let mut prev = sd(bez(&e.cubic, 0.0));
            for k in 1..=N {
                let t = k as f64 / N as f64;
                let cur = sd(bez(&e.cubic, t));
                if (cur > 0.0) != (prev > 0.0) {
                    want[i] += 1;
                    let tv = bez_d(&e.cubic, t);
                    if len(tv) > 0.0 { min_sin = min_sin.min((cross(tv, d) / (len(tv) * l)).abs()); }
                }
                prev = cur;
            }
        }
    }
    for (i, e) in edges.iter().enumerate() {
        if dense { break; }
        let ds: Vec<f64> = e.grid.iter().map(|q| sd(*q)).collect();
        for k in 1..=GRID {
            if (ds[k] > 0.0) != (ds[k - 1] > 0.0) {
                want[i] += 1;
                let t = bez_d(&e.cubic, (k as f64 - 0.5) / GRID as f64);
                if len(t) > 0.0 { min_sin = min_sin.min((cross(t, d) / (len(t) * l)).abs()); }
            }
            if !e.straight && k < GRID && ds[k].abs() < 0.1 && (ds[k] - ds[k - 1]) * (ds[k + 1] - ds[k]) <= 0.0 { stats.excluded += 1; stats.count("excluded.line_near_tangent_to_edge"); return; }
        }
    }
    stats.count(&format!("line.{}", lclass));
    let total: usize = want.iter().sum();
    stats.count(&format!("crossings.{}", if total > 6 { "7_or_more".to_string() } else { total.to_string() }));
    if edges.iter().enumerate().any(|(i, e)| e.shared && want[i] > 0) { stats.count("line_crosses_shared_edge"); }
    // keys name the graph and line classes and the input itself (a finding listed for one input does not cover another)
    let cfg = format!("{}.{}{}.input_{:016x}", gclass, lclass, if min_sin < 0.05 { ".glancing" } else { "" }, fnv(&format!("{:?} {}", line, detail())));
    let cols = match run_caught(stats, PROP, "ray_collisions", detail, || g.ray_collisions(&line)) { Some(c) => c, None => return };
    stats.count("lines_evaluated");
    let show = || format!("line={:?} collisions(edge,t,line_t,pos)={:?} expected_crossings_per_edge={:?} {}", line, cols.iter().map(|(c, t, s, p)| (refs.get(&c.edge()).cloned(), *t, *s, *p)).collect::<Vec<_>>(), want, detail());
    if cols.len() % 2 != 0 { stats.fail(PROP, &format!("odd_collision_count.{}", cfg), &format!("{} collisions; {}", cols.len(), show())); }
    let mut got = vec![0usize; edges.len()];
    let mut idx: Vec<Option<usize>> = vec![];
    for (c, t, s, pos) in &cols {
        let r = c.edge();
        let ei = refs.get(&r).or_else(|| refs.get(&r.reversed())).cloned();
        idx.push(ei);
        let ei = match ei { Some(i) => i, None => { stats.fail(PROP, &format!("collision_unknown_edge.{}", cfg), &format!("edge ref {:?}; {}", r, show())); continue; } };
        got[ei] += 1;
        if !(*t >= 0.0 && *t <= 1.0) { stats.fail(PROP, &format!("collision_t_out_of_range.{}", cfg), &format!("t={}; {}", t, show())); continue; }
        let on_edge = bez(&edges[ei].cubic, *t);
        if !(dist(on_edge, *pos) <= 1e-6) { stats.fail(PROP, &format!("collision_off_edge.{}", cfg), &format!("edge {} at t={} is {:?}, reported position {:?} ({:e} apart); {}", ei, t, on_edge, pos, dist(on_edge, *pos), show())); }
        let on_line = p1 + d * *s;
        if !(dist(on_line, *pos) <= 1e-6) { stats.fail(PROP, &format!("collision_off_line.{}", cfg), &format!("line at {} is {:?}, reported position {:?} ({:e} apart, {:e} from the line); {}", s, on_line, pos, dist(on_line, *pos), sd(*pos).abs(), show())); }
    }
    for k in 1..cols.len() {
        let (s0, s1) = (cols[k - 1].2, cols[k].2);
        if s0 <= s1 { continue; }
        // a tie: positions within 0.001 of each other in x and in y (the window of the code's comparator) on overlapping edges
        let (pa, pb) = (cols[k - 1].3, cols[k].3);
        let tie = (pa.0 - pb.0).abs() <= 0.001 && (pa.1 - pb.1).abs() <= 0.001 && match (idx[k - 1], idx[k]) { (Some(a), Some(b)) => a != b && (overlap_near(&edges[a], cols[k - 1].1, &edges[b]) || overlap_near(&edges[b], cols[k].1, &edges[a])), _ => false };
        if tie { stats.count("ties_on_shared_edges"); continue; }
        // graphs of a shape welded to its own displaced copy: two edges cross the line within the comparator's 0.001 window and count as
        // overlapping for the code (its test compares control-point distances), not for this oracle's `overlap_near`; the order inside
        // the window is the comparator's business (C14's theorems say what it is), so it is not judged on these graphs
        if (cfg.contains("welded_graph") || cfg.contains("coarsely_collided_graph")) && (pa.0 - pb.0).abs() <= 0.001 && (pa.1 - pb.1).abs() <= 0.001 { stats.count("ties_on_welded_graphs"); continue; }
        stats.fail(PROP, &format!("unsorted.{}", cfg), &format!("collision {} at line position {} comes before collision {} at {}; {}", k - 1, s0, k, s1, show()));
        break;
    }
    for i in 0..edges.len() {
        if got[i] == want[i] { continue; }
        let shared = if edges[i].shared { ".on_shared_edge" } else { "" };
        let key = if got[i] < want[i] { "missing_collision" } else { "extra_collision" };
        stats.fail(PROP, &format!("count_vs_crossings.{}{}.{}", key, shared, cfg), &format!("edge {} ({:?}) is crossed {} times (sign changes of the distance on a 1/{} grid), {} collisions reported on it; {}", i, edges[i].cubic, want[i], GRID, got[i], show()));
        break;
    }
}

fn check_graph(stats: &mut Stats, rng: &mut Rng, g: &G, gclass: &str, n_lines: usize, detail: &dyn Fn() -> String) {
    let (edges, refs) = edges_of(g);
    if edges.is_empty() { return; }
    if edges.iter().any(|e| e.shared) { stats.count("graph_has_shared_edge"); }
    for k in 0..n_lines {
        let (line, lclass) = gen_line(rng, g, &edges, (k % 5) as u64);
        check_line(stats, g, &edges, &refs, line, gclass, lclass, detail);
    }
}

fn collided(stats: &mut Stats, a: &Vec<P>, b: &Vec<P>) -> Option<G> {
    let (a2, b2) = (a.clone(), b.clone());
    // a panic or hang here belongs to C03; it is reported there
    match guarded(HANG_SECS, move || {
        let ga = GraphPath::from_merged_paths(a2.iter().map(|p| (p, PathLabel(0))));
        let gb = GraphPath::from_merged_paths(b2.iter().map(|p| (p, PathLabel(1))));
        ga.collide(gb, ACC)
    }) { Guard::Done(g) => Some(g), _ => { stats.excluded += 1; stats.count("excluded.collide_panicked_or_hung"); None } }
}

pub fn search(seed: u64, n: u64) {
    quiet_panics();
    let mut rng = Rng(seed ^ 0x5EA2C14);
    let mut stats = Stats::new();
    // fixed corpus: graphs with shared edges (grid rectangles), tangent circles, plain circle and square
    for (name, a, b) in tangent_corpus() {
        let detail = || format!("graph=collide(A,B) A={:?} B={:?}", a, b);
        stats.case(&format!("corpus {} {}", name, detail()), true);
        stats.count("corpus_case");
        if let Some(g) = collided(&mut stats, &a, &b) { check_graph(&mut stats, &mut rng, &g, "collided_graph", 25, &detail); }
    }
    for p in [circle(50.0, 50.0, 20.0), circle45(50.0, 50.0, 20.0), rect(20.0, 30.0, 60.0, 70.0)] {
        let detail = || format!("graph=from_path({:?})", p);
        stats.case(&format!("corpus {}", detail()), true);
        let g = GraphPath::from_path(&p, PathLabel(0));
        check_graph(&mut stats, &mut rng, &g, "plain_path", 25, &detail);
    }
    // regression inputs of repair ca41cec: a short, almost straight edge (a piece of a smooth curve, as the collision stage produces them) in
    // a triangle-like path, crossed in its middle by the recorded line
    let short_edges: [([Coord2; 4], (Coord2, Coord2), [Coord2; 2]); 2] = [
        ([Coord2(30.401237216906033, 53.74612452605386), Coord2(30.500472658824105, 53.75021216917833), Coord2(30.600440300680898, 53.752623620754285), Coord2(30.701117361068853, 53.75344481963659)],
         (Coord2(27.636417767290794, 64.03989485775425), Coord2(19.365841595660566, 93.32384569681716)), [Coord2(60.0, 20.0), Coord2(10.0, 20.0)]),
        ([Coord2(20.23903371159554, 62.52588669633538), Coord2(20.23734451093884, 62.61166612053081), Coord2(20.23625797773748, 62.697712251579176), Coord2(20.236257977737484, 62.78401215605426)],
         (Coord2(69.47173285306698, 61.09557514901203), Coord2(55.48957548276799, 61.53252056313267)), [Coord2(5.0, 90.0), Coord2(5.0, 30.0)]),
    ];
    for (e, line, far) in short_edges.iter() {
        let third = |a: Coord2, b: Coord2| (a + (b - a) * (1.0 / 3.0), a + (b - a) * (2.0 / 3.0), b);
        let path: P = (e[0], vec![(e[1], e[2], e[3]), third(e[3], far[0]), third(far[0], far[1]), third(far[1], e[0])]);
        let detail_owner = format!("graph=from_path({:?})", path);
        let detail = || detail_owner.clone();
        stats.case(&format!("corpus short edge {:?} {}", line, detail()), true);
        stats.count("corpus.short_nearly_straight_edge");
        let g = GraphPath::from_path(&path, PathLabel(0));
        let (edges, refs) = edges_of(&g);
        check_line(&mut stats, &g, &edges, &refs, *line, "plain_path", "through_short_nearly_straight_edge", &detail);
    }
    // shallow but transversal crossings: 600..1500-long wedges whose sides have slope 0.00025 .. 0.003, cut lengthwise by a line that stays
    // 0.1 clear of the three vertices; and large circles (radius 500 .. 1500) cut by a chord of depth 1e-4 .. 0.3 through the middle of an arc
    let mut rng_s = Rng(seed ^ 0x5A110);
    for k in 0..(6 + n / 100) {
        let detail_owner: String;
        let (g, line, cls) = if k % 2 == 0 {
            let l = rng_s.r(600.0, 1500.0);
            let a = (l * 10f64.powf(rng_s.r(-3.6, -2.5))).max(0.32);
            let rot = [0.0, std::f64::consts::FRAC_PI_2, 0.7][(k / 2 % 3) as usize];
            let r = |p: Coord2| Coord2(p.0 * rot.cos() - p.1 * rot.sin(), p.0 * rot.sin() + p.1 * rot.cos());
            let wedge = polygon(&[r(Coord2(0.0, 0.0)), r(Coord2(l, a)), r(Coord2(l, -a))]);
            let c = (a - 0.12).min(a * 0.5).max(0.11) * if rng_s.b() { 1.0 } else { -1.0 };
            detail_owner = format!("graph=from_path({:?})", wedge);
            (GraphPath::from_path(&wedge, PathLabel(0)), (r(Coord2(-10.0, c)), r(Coord2(l + 10.0, c))), "shallow_wedge")
        } else {
            let rad = rng_s.r(500.0, 1500.0);
            let circ = circle(0.0, 0.0, rad);
            let depth = 10f64.powf(rng_s.r(-4.0, -0.5));
            // cut the cap around the middle of the first arc, far from every vertex
            let gg = GraphPath::from_path(&circ, PathLabel(0));
            let (v0, v1) = (gg.point_position(0), gg.point_position(1));
            let mid = v0 + v1; let ml = len(mid);
            let (ux, uy) = (mid.0 / ml, mid.1 / ml);
            let m = Coord2(ux, uy) * (rad - depth);
            detail_owner = format!("graph=from_path({:?})", circ);
            (GraphPath::from_path(&circ, PathLabel(0)), (m + Coord2(-uy, ux) * 200.0, m + Coord2(uy, -ux) * 200.0), "shallow_cap")
        };
        let detail = || detail_owner.clone();
        stats.case(&format!("{} {:?} {}", cls, line, detail()), true);
        stats.count(&format!("graph.{}", cls));
        let (edges, refs) = edges_of(&g);
        check_line(&mut stats, &g, &edges, &refs, line, "plain_path", cls, &detail);
    }
    // large shapes (edges 100s to 1000s of units long, own random stream): lines that cut across a corner or cross an edge close to its end
    // vertex, at a distance from the vertex that is small RELATIVE to the edge (chord/5000 .. chord/1100) but still more than 0.1 units
    let mut rng_l = Rng(seed ^ 0x1A26E14);
    for k in 0..(6 + n / 50) {
        let scale = [300.0, 1000.0, 3000.0][(k % 3) as usize];
        let nv = 3 + rng_l.i(3) as usize;
        let (cx, cy) = (50.0 * scale, 50.0 * scale);
        let a0 = rng_l.r(0.0, TAU);
        let pts: Vec<Coord2> = (0..nv).map(|i| { let a = a0 + TAU * (i as f64 + rng_l.r(-0.2, 0.2)) / nv as f64; let r = scale * rng_l.r(25.0, 45.0); Coord2(cx + r * a.cos(), cy + r * a.sin()) }).collect();
        let poly = polygon(&pts);
        let g = GraphPath::from_path(&poly, PathLabel(0));
        let detail_owner = format!("graph=from_path({:?})", poly);
        let detail = || detail_owner.clone();
        let (edges, refs) = edges_of(&g);
        for j in 0..4 {
            let i = rng_l.i(nv as u64) as usize;
            let (prev, v, next) = (pts[(i + nv - 1) % nv], pts[i], pts[(i + 1) % nv]);
            let (e1, e2) = (prev - v, next - v);
            let (l1, l2) = (len(e1), len(e2));
            let chord = l1.min(l2);
            let (u1, u2) = (e1 * (1.0 / l1), e2 * (1.0 / l2));
            let r = (chord * rng_l.r(0.0002, 0.0009)).max(0.25);
            let (line, cls) = if j % 2 == 0 {
                // across the corner: through the two points at distance r from the vertex on its two edges
                let (p, q) = (v + u1 * r, v + u2 * r);
                let dir = q - p; let dl = len(dir);
                let dir = dir * (1.0 / dl);
                (( p - dir * (50.0 + rng_l.r(0.0, 100.0)), q + dir * (50.0 + rng_l.r(0.0, 100.0))), "large_corner_cut")
            } else {
                // perpendicular to one edge, at distance r from its end vertex
                let u = if rng_l.b() { u1 } else { u2 };
                let p = v + u * r;
                let nrm = Coord2(-u.1, u.0);
                ((p - nrm * (30.0 + rng_l.r(0.0, 100.0)), p + nrm * (30.0 + rng_l.r(0.0, 100.0))), "large_edge_end_crossing")
            };
            stats.case(&format!("{} scale={} {:?} {}", cls, scale, line, detail()), true);
            stats.count(&format!("graph.{}", cls));
            check_line(&mut stats, &g, &edges, &refs, line, "plain_path", cls, &detail);
        }
    }
    // a symmetric arch (its cubic-coefficient vector w4 - 3 w3 + 3 w2 - w1 is horizontal) cut just below its top by an almost horizontal line:
    // a cap 0.01 .. 0.04 deep, crossed at about 0.01 .. 0.02 rad - the cubic term of the distance polynomial is small against the others but
    // not against the depth of the cap (own stream)
    let mut rng_a = Rng(seed ^ 0xA2C4C14);
    for _ in 0..(6 + n / 50) {
        let (wd, ht) = (rng_a.r(300.0, 500.0), rng_a.r(100.0, 200.0));
        let inset = wd * rng_a.r(0.2, 0.3);
        let (x0, y0) = (rng_a.r(0.0, 50.0), rng_a.r(0.0, 20.0));
        let arch: P = (Coord2(x0, y0), vec![(Coord2(x0 + inset, y0 + ht), Coord2(x0 + wd - inset, y0 + ht), Coord2(x0 + wd, y0)),
            { let (a, b) = (Coord2(x0 + wd, y0), Coord2(x0, y0)); (a + (b - a) * (1.0 / 3.0), a + (b - a) * (2.0 / 3.0), b) }]);
        let top = y0 + ht * 0.75;
        let depth = rng_a.r(0.01, 0.04);
        let rise = rng_a.r(0.3, 1.5) * if rng_a.b() { 1.0 } else { -1.0 };
        let mid = Coord2(x0 + wd * 0.5, top - depth);
        let line = (Coord2(mid.0 - 250.0, mid.1 - rise * 0.5), Coord2(mid.0 + 250.0, mid.1 + rise * 0.5));
        let g = GraphPath::from_path(&arch, PathLabel(0));
        let detail_owner = format!("graph=from_path({:?})", arch);
        let detail = || detail_owner.clone();
        stats.case(&format!("shallow_arch_cap {:?} {}", line, detail()), true);
        stats.count("graph.shallow_arch_cap");
        let (edges, refs) = edges_of(&g);
        check_line(&mut stats, &g, &edges, &refs, line, "plain_path", "shallow_arch_cap", &detail);
    }
    // shapes FAR FROM THE ORIGIN (translated by 1e5 .. 1e7) cut by lines given as two close points (0.01 .. 1 apart): the line equation
    // must not lose the line to cancellation (own stream; from seeded change C14-m9, an algebraically identical rewrite of its constant term)
    let mut rng_f = Rng(seed ^ 0xFA2C14);
    for k in 0..(6 + n / 40) {
        let s0 = rand_shape(&mut rng_f);
        let t = [1e5, 1e6, 1e7][(k % 3) as usize];
        let off = Coord2(t * rng_f.r(0.5, 1.0), t * rng_f.r(0.5, 1.0) * if k % 2 == 0 { 1.0 } else { -1.0 });
        let p: P = (s0.path.0 + off, s0.path.1.iter().map(|(a, b, c)| (*a + off, *b + off, *c + off)).collect());
        let g = GraphPath::from_path(&p, PathLabel(0));
        let detail_owner = format!("graph=from_path({:?})", p);
        let detail = || detail_owner.clone();
        let (edges, refs) = edges_of(&g);
        if edges.is_empty() { continue; }
        stats.count("graph.far_from_origin");
        stats.case(&format!("far_from_origin {}", detail()), true);
        for _ in 0..12 {
            let m = off + Coord2(rng_f.r(20.0, 80.0), rng_f.r(20.0, 80.0));
            let a = rng_f.r(0.0, TAU);
            let d = Coord2(a.cos(), a.sin()) * 10f64.powf(rng_f.r(-2.0, 0.0));
            check_line(&mut stats, &g, &edges, &refs, (m, m + d), "plain_path", "far_from_origin_short_ray", &detail);
        }
    }
    // graphs whose vertices were MOVED after their edges had been looked at: collided (or merged, ray cast, then welded with
    // `combine_overlapping_points`) with a coarse accuracy of 0.3 .. 0.8, so that vertices move by tenths of a unit - whatever a graph
    // caches per edge (bounding boxes) must not be used stale by the ray casting (own stream; from seeded change C14-m10)
    let mut rng_w = Rng(seed ^ 0x3E1DC14);
    for k in 0..(6 + n / 40) {
        let (sa, mut sb) = (rand_shape(&mut rng_w), rand_shape(&mut rng_w));
        let acc = rng_w.r(0.3, 0.8);
        if k % 4 < 3 {
            // the second shape is the first one with every vertex (and its control points) displaced by 0.15 .. 0.9 x accuracy: every vertex has
            // a partner to be welded to, so the weld really moves vertices
            let mut jit = |rng: &mut Rng| { let a = rng.r(0.0, TAU); Coord2(a.cos(), a.sin()) * (acc * rng.r(0.15, 0.9)) };
            let j0 = jit(&mut rng_w);
            let n = sa.path.1.len();
            let js: Vec<Coord2> = (0..n).map(|i| if i + 1 == n { j0 } else { jit(&mut rng_w) }).collect();
            let mut prev = j0;
            let secs: Vec<(Coord2, Coord2, Coord2)> = sa.path.1.iter().enumerate().map(|(i, (c1, c2, e))| { let r = (*c1 + prev, *c2 + js[i], *e + js[i]); prev = js[i]; r }).collect();
            sb.path = (sa.path.0 + j0, secs);
        }
        let (pa, pb) = (sa.path.clone(), sb.path.clone());
        let weld = k % 2 == 0;
        let lines: Vec<(Coord2, Coord2)> = (0..8).map(|_| (Coord2(rng_w.r(0.0, 100.0), rng_w.r(0.0, 100.0)), Coord2(rng_w.r(0.0, 100.0), rng_w.r(0.0, 100.0)))).collect();
        let built = guarded(HANG_SECS, move || {
            let ga = GraphPath::from_path(&pa, PathLabel(0));
            let gb = GraphPath::from_path(&pb, PathLabel(1));
            if weld {
                let mut g = ga.merge(gb);
                for l in &lines { let _ = g.ray_collisions(l); }
                g.combine_overlapping_points(acc);
                g
            } else {
                let g0 = ga.clone().merge(gb.clone());
                for l in &lines { let _ = g0.ray_collisions(l); }
                ga.collide(gb, acc)
            }
        });
        let g = match built { Guard::Done(g) => g, _ => { stats.excluded += 1; stats.count("excluded.coarse_weld_panicked_or_hung"); continue; } };
        let cls = if weld { "welded_graph" } else { "coarsely_collided_graph" };
        let detail_owner = format!("graph={}(A,B, accuracy {:?}) A={:?} B={:?}", cls, acc, sa.path, sb.path);
        let detail = || detail_owner.clone();
        stats.count(&format!("graph.{}", cls));
        stats.case(&format!("{} {}", cls, detail()), true);
        check_graph(&mut stats, &mut rng_w, &g, cls, 60, &detail);
    }
    for it in 0..n {
        if it % 5 == 4 {
            let (a, b) = nearly_coincident_pair(&mut rng, it % 25 == 4);
            stats.count("graph.nearly_coincident_collided_graph");
            let detail = || format!("graph=collide(A,B) A={:?} B={:?}", a, b);
            stats.case(&detail(), true);
            if let Some(g) = collided(&mut stats, &vec![a.clone()], &vec![b.clone()]) { check_graph(&mut stats, &mut rng, &g, "nearly_coincident_collided_graph", 20, &detail); }
        } else if it % 2 == 0 {
            let s = rand_shape(&mut rng);
            let p = redirect(&mut rng, &s.path);
            stats.count(&format!("kind.{}", s.kind));
            stats.count("graph.plain_path");
            let detail = || format!("graph=from_path({:?})", p);
            stats.case(&detail(), true);
            let g = GraphPath::from_path(&p, PathLabel(0));
            check_graph(&mut stats, &mut rng, &g, "plain_path", 20, &detail);
        } else {
            let pair = gen_pair(&mut rng);
            count_pair(&mut stats, &pair);
            stats.count("graph.collided_graph");
            let detail = || format!("graph=collide(A,B) A={:?} B={:?}", pair.a, pair.b);
            stats.case(&detail(), true);
            if let Some(g) = collided(&mut stats, &pair.a, &pair.b) { check_graph(&mut stats, &mut rng, &g, "collided_graph", 20, &detail); }
        }
    }
    stats.print(PROP, "search");
}

// ------------------------------------------------------------------------------------------------ correspondence

/// (start_idx, edge_idx, reverse) of an edge reference (its fields are crate-private; `Debug` prints them)
fn ref_fields(r: &GraphEdgeRef) -> (usize, usize, bool) {
    let s = format!("{:?}", r);
    let num = |key: &str| -> usize { let i = s.find(key).expect("edge ref field") + key.len(); s[i..].trim_start().chars().take_while(|c| c.is_ascii_digit()).collect::<String>().parse().expect("edge ref number") };
    (num("start_idx:"), num("edge_idx:"), s.contains("reverse: true"))
}

/// the graph as the `RayPath` interface exposes it: per point its position, its forward edges (control points, end point,
/// following edge), the points it is connected from (reconstructed from the order of `reverse_edges_for_point`), and the
/// reverse edges themselves
fn dump_graph(g: &G) -> String {
    let np = g.num_points();
    let mut out = vec![format!("#{}", np)];
    for p in 0..np {
        let pos = g.point_position(p);
        out.push(hx(pos.0)); out.push(hx(pos.1));
        let refs: Vec<GraphEdgeRef> = g.edge_refs_for_point(p).collect();
        out.push(format!("#{}", refs.len()));
        for r in &refs {
            let e = g.get_edge(*r);
            let (cp1, cp2) = e.control_points();
            let (_, following, _) = ref_fields(&g.following_edge_ref(*r));
            out.push(hxs(&[cp1.0, cp1.1, cp2.0, cp2.1]));
            out.push(format!("#{} #{}", e.end_point_index(), following));
        }
        let rev: Vec<(usize, usize, bool)> = g.reverse_edges_for_point(p).map(|e| ref_fields(&GraphEdgeRef::from(e))).collect();
        // `connected_from`: a new entry starts whenever the start point changes or the edge index does not increase
        let mut cf: Vec<usize> = vec![];
        for (k, (s, e, _)) in rev.iter().enumerate() { if k == 0 || rev[k - 1].0 != *s || rev[k - 1].1 >= *e { cf.push(*s); } }
        out.push(format!("#{}", cf.len()));
        for c in &cf { out.push(format!("#{}", c)); }
        out.push(format!("#{}", rev.len()));
        for (s, e, r) in &rev { out.push(format!("#{} #{} #{}", s, e, *r as u8)); }
    }
    out.join(" ")
}

/// lines outside the property's precondition as well: through vertices, along straight edges, tangent to an edge
fn gen_line_corr(rng: &mut Rng, g: &G, edges: &[Edge], k: u64) -> ((Coord2, Coord2), &'static str) {
    let np = g.num_points();
    let span = |rng: &mut Rng, q: Coord2, d: Coord2| -> (Coord2, Coord2) {
        let d = d * (1.0 / len(d));
        let s1 = rng.r(-80.0, 80.0);
        let mut s2 = rng.r(-80.0, 80.0);
        if (s2 - s1).abs() < 1.0 { s2 = s1 + 1.0 + rng.r(0.0, 50.0); }
        (q + d * s1, q + d * s2)
    };
    match k % 10 {
        0..=4 => gen_line(rng, g, edges, k % 5),
        5 => {
            let v = g.point_position(rng.i(np as u64) as usize);
            let a = rng.r(0.0, TAU);
            (span(rng, v, Coord2(a.cos(), a.sin())), "through_vertex")
        }
        6 => {
            let v = g.point_position(rng.i(np as u64) as usize);
            let d = if rng.b() { Coord2(1.0, 0.0) } else { Coord2(0.0, 1.0) };
            (span(rng, v, d), "through_vertex_axis_parallel")
        }
        7 => {
            let (v, w) = (g.point_position(rng.i(np as u64) as usize), g.point_position(rng.i(np as u64) as usize));
            if dist(v, w) < 1e-6 { return gen_line(rng, g, edges, 0); }
            if rng.b() { ((v, w), "through_two_vertices") } else { (span(rng, v, w - v), "through_two_vertices") }
        }
        8 => {
            let straight: Vec<usize> = (0..edges.len()).filter(|i| edges[*i].straight && dist(edges[*i].cubic[0], edges[*i].cubic[3]) > 1e-6).collect();
            if straight.is_empty() { return gen_line(rng, g, edges, 4); }
            let c = &edges[straight[rng.i(straight.len() as u64) as usize]].cubic;
            (span(rng, c[0], c[3] - c[0]), "along_straight_edge")
        }
        _ => {
            let i = rng.i(edges.len() as u64) as usize;
            let t = rng.r(0.05, 0.95);
            let (q, d) = (bez(&edges[i].cubic, t), bez_d(&edges[i].cubic, t));
            if len(d) < 1e-9 { return gen_line(rng, g, edges, 0); }
            (span(rng, q, d), "tangent_to_edge")
        }
    }
}

fn corr_line(stats: &mut Stats, g: &G, graph_dump: &str, gclass: &str, line: (Coord2, Coord2), lclass: &str) {
    let mut ins = vec![graph_dump.to_string(), hxs(&[line.0 .0, line.0 .1, line.1 .0, line.1 .1])];
    let mut n_hits = 0;
    for r in g.all_edge_refs() {
        let e = g.get_edge(r);
        let hits = curve_intersects_ray(&e, &line);
        n_hits += hits.len();
        ins.push(format!("#{}", hits.len()));
        for (t, s, pos) in hits { ins.push(hxs(&[t, s, pos.0, pos.1])); }
    }
    quiet_panics();
    let res = std::panic::catch_unwind(std::panic::AssertUnwindSafe(|| g.ray_collisions(&line)));
    let outs = match &res {
        Err(_) => { stats.count(&format!("panic{}", panic_class(&last_panic()))); format!("#0 #{}", if last_panic().contains("total order") { 1 } else { 0 }) }
        Ok(cols) => {
            let mut o = vec![format!("#1 #{}", cols.len())];
            for (c, t, s, pos) in cols {
                let (si, ei, rv) = ref_fields(&c.edge());
                o.push(format!("#{} #{} #{} #{} {}", c.is_intersection() as u8, si, ei, rv as u8, hxs(&[*t, *s, pos.0, pos.1])));
            }
            stats.count(&format!("collisions.{}", if cols.len() > 6 { "7_or_more".to_string() } else { cols.len().to_string() }));
            if cols.len() % 2 == 1 { stats.count("odd_number_of_collisions"); }
            if cols.iter().any(|(c, _, _, _)| c.is_intersection()) { stats.count("has_intersection_collision"); }
            o.join(" ")
        }
    };
    let text = format!("C14 ray R {} | {}", ins.join(" "), outs);
    stats.case(&text, n_hits > 0);
    stats.count(&format!("line.{}", lclass));
    stats.count(&format!("graph.{}", gclass));
    println!("{}", text);
}

/// a shape and a copy moved / scaled by a few hundredths; `fixed`: the pair of the known total-order panic of path arithmetic
fn nearly_coincident_pair(rng: &mut Rng, fixed: bool) -> (P, P) {
    if fixed { return (circle45(50.0, 50.0, 11.879), circle(49.963, 50.002, 11.917)); }
    let k = ["circle", "circle45", "blob", "polygon_convex", "grid_rect"][rng.i(5) as usize];
    let c = rand_centre(rng);
    let r = rng.r(8.0, 20.0);
    let s = shape_of_kind(rng, k, c, r);
    let (dx, dy, f) = (rng.r(-0.05, 0.05), rng.r(-0.05, 0.05), 1.0 + rng.r(-0.004, 0.004));
    let t: P = map_path(&s.path, &|q| c + (q - c) * f + Coord2(dx, dy));
    let t = if k == "circle" && rng.b() { rotated_about(&t, c, TAU / 8.0) } else { t };
    (s.path, t)
}

/// the two circles of the known unsorted output (see `corr`)
fn unsorted_instance() -> (P, P) {
    let a: P = (Coord2(60.172239260256475, 50.0), vec![
        (Coord2(60.172239260256475, 55.61797261506971), Coord2(55.61797261506972, 60.17223926025647), Coord2(50.0, 60.172239260256475)),
        (Coord2(44.38202738493028, 60.17223926025647), Coord2(39.82776073974353, 55.61797261506972), Coord2(39.827760739743525, 50.0)),
        (Coord2(39.82776073974353, 44.38202738493028), Coord2(44.38202738493028, 39.82776073974353), Coord2(50.0, 39.827760739743525)),
        (Coord2(55.61797261506971, 39.827760739743525), Coord2(60.17223926025647, 44.38202738493028), Coord2(60.172239260256475, 50.0))]);
    let b: P = (Coord2(41.97745730837193, 42.3415055753628), vec![
        (Coord2(37.81197780517014, 46.5069850785646), Coord2(37.81197780517014, 53.260561737786375), Coord2(41.977457308371925, 57.42604124098816)),
        (Coord2(46.14293681157372, 61.59152074418996), Coord2(52.8965134707955, 61.59152074418996), Coord2(57.06199297399729, 57.42604124098816)),
        (Coord2(61.22747247719908, 53.260561737786375), Coord2(61.22747247719908, 46.5069850785646), Coord2(57.06199297399729, 42.34150557536281)),
        (Coord2(52.8965134707955, 38.176026072161015), Coord2(46.14293681157372, 38.176026072161015), Coord2(41.97745730837193, 42.3415055753628))]);
    (a, b)
}

/// transcript for the Lean driver: the graph as `RayPath` sees it, the ray, the real `curve_intersects_ray` result for every
/// edge (the solver is C04's business) and the real `ray_collisions` output; the model (Float) must reproduce it exactly
pub fn corr(seed: u64, n: u64) {
    quiet_panics();
    let mut rng = Rng(seed ^ 0xC0221C14);
    let mut stats = Stats::new();
    let corpus = tangent_corpus();
    let mut done = 0u64;
    let mut it = 0u64;
    const PER_GRAPH: u64 = 10;
    // a fixed instance of the comparator defect (found by `search C14 1 20000`): two arcs of different circles between the same two
    // intersection points count as overlapping edges, and the tie-break puts the collision with the larger line position first
    {
        let (a, b) = unsorted_instance();
        if let Some(g) = collided(&mut stats, &vec![a], &vec![b]) {
            let dump = dump_graph(&g);
            let line = (Coord2(13.595172672628564, -10.384315809124125), Coord2(39.80243558841849, 25.071558803627074));
            corr_line(&mut stats, &g, &dump, "corpus_collided_graph", line, "known_unsorted_instance");
            done += 1;
        }
    }
    while done < n {
        let (g, gclass): (Option<G>, &str) = if it < 2 * corpus.len() as u64 && it % 2 == 0 {
            let (_, a, b) = &corpus[(it / 2) as usize];
            (collided(&mut stats, a, b), "corpus_collided_graph")
        } else if it % 5 == 1 {
            // nearly coincident boundaries: a shape and a copy moved / scaled by a few hundredths (the tie-break of the sort
            // comparator and the overlap test are exercised; the known total-order panic lives here)
            let (a, b) = nearly_coincident_pair(&mut rng, it % 25 == 1);
            (collided(&mut stats, &vec![a], &vec![b]), "nearly_coincident_collided_graph")
        } else if it % 3 == 0 {
            let s = rand_shape(&mut rng);
            let p = redirect(&mut rng, &s.path);
            stats.count(&format!("kind.{}", s.kind));
            (Some(GraphPath::from_path(&p, PathLabel(0))), "plain_path")
        } else {
            let pair = gen_pair(&mut rng);
            count_pair(&mut stats, &pair);
            (collided(&mut stats, &pair.a, &pair.b), "collided_graph")
        };
        it += 1;
        let g = match g { Some(g) => g, None => continue };
        let (edges, _) = edges_of(&g);
        if edges.is_empty() { continue; }
        if edges.iter().any(|e| e.shared) { stats.count("graph_has_shared_edge"); }
        let dump = dump_graph(&g);
        for k in 0..PER_GRAPH {
            if done >= n { break; }
            let (line, lclass) = gen_line_corr(&mut rng, &g, &edges, k + it);
            corr_line(&mut stats, &g, &dump, gclass, line, lclass);
            done += 1;
        }
    }
    stats.print(PROP, "corr");
}
