//! C01: path_add / path_sub / path_intersect have exact set semantics. The result of the real code is probed with the
//! flatten-and-winding-number oracle of `shapes` at points that keep the property's margin from every input boundary.
use crate::shapes::*;
use crate::util::*;
use flo_curves::bezier::path::*;
use flo_curves::*;

pub const ACC: f64 = 0.01;
pub const OPS: [&str; 3] = ["add", "sub", "intersect"];

pub fn apply(op: &str, a: &Vec<P>, b: &Vec<P>) -> Vec<P> {
    match op { "add" => path_add::<P>(a, b, ACC), "sub" => path_sub::<P>(a, b, ACC), _ => path_intersect::<P>(a, b, ACC) }
}
pub fn expected(op: &str, ia: bool, ib: bool) -> bool { match op { "add" => ia || ib, "sub" => ia && !ib, _ => ia && ib } }

pub fn run_op(stats: &mut Stats, prop: &str, op: &'static str, a: &Vec<P>, b: &Vec<P>) -> Option<Vec<P>> {
    let (a2, b2) = (a.clone(), b.clone());
    let res = run_guarded(stats, prop, &format!("path_{}", op), &|| format!("A={:?} B={:?}", a, b), move || apply(op, &a2, &b2));
    if let Some(r) = &res { check_output_paths(stats, prop, op, r, &|| format!("A={:?} B={:?}", a, b)); }
    res
}

/// boundaries of the two sets come within `d` of each other (sampled on the flattening)
pub fn boundaries_within(a: &Operand, b: &Operand, d: f64) -> bool {
    a.flat.iter().any(|q| q.iter().any(|p| dist_polys(*p, &b.flat) < d)) || b.flat.iter().any(|q| q.iter().any(|p| dist_polys(*p, &a.flat) < d))
}

/// the three operations on (A,B), and add / intersect on (B,A), probed for membership. `class` names the input class in the keys
fn check_pair(stats: &mut Stats, rng: &mut Rng, a: &Vec<P>, b: &Vec<P>, class: &str, n_uniform: usize, n_near: usize) { check_pair_x(stats, rng, a, b, class, n_uniform, n_near, true) }

/// `contact_suffix`: append the contact class computed from the input (`.vertex_near_boundary`, ...) to the key; structured classes that
/// construct their contact on purpose and are right on the unchanged code are keyed by their own name only
fn check_pair_x(stats: &mut Stats, rng: &mut Rng, a: &Vec<P>, b: &Vec<P>, class: &str, n_uniform: usize, n_near: usize, contact_suffix: bool) {
    let (oa, ob) = (Operand::new(a), Operand::new(b));
    let pr = probes(rng, &[&oa, &ob], n_uniform, n_near);
    let class = &format!("{}{}", class, if contact_suffix { near_contact_suffix(&[a, b]) } else { "" });
    if class.ends_with(".vertex_near_boundary") { stats.count("pair.vertex_near_boundary"); }
    let detail = || format!("A={:?} B={:?}", a, b);
    let (mut n_in_a, mut n_in_b, mut n_in_both) = (0, 0, 0);
    for p in &pr { let (ia, ib) = (oa.contains(*p, false), ob.contains(*p, false)); if ia { n_in_a += 1; } if ib { n_in_b += 1; } if ia && ib { n_in_both += 1; } }
    stats.add("probes_in_a", n_in_a); stats.add("probes_in_b", n_in_b); stats.add("probes_in_both", n_in_both);
    for op in OPS {
        stats.count(&format!("op.{}", op));
        let res = match run_op(stats, "C01", op, a, b) { Some(r) => r, None => continue };
        check_membership(stats, "C01", &format!("{}.probe_membership.{}", op, class), &res, &pr, &|p, fine| expected(op, oa.contains(p, fine), ob.contains(p, fine)), &|| format!("op={} {}", op, detail()));
        if op != "sub" {
            // add and intersect do not depend on the order of the operands
            let swapped = match run_op(stats, "C01", op, b, a) { Some(r) => r, None => continue };
            let (f1, f2) = (flatten_set(&res), flatten_set(&swapped));
            let mut first = None;
            let mut wrong = 0;
            for p in &pr {
                if evenodd(*p, &f1) == evenodd(*p, &f2) { continue; }
                let (g1, g2) = (evenodd(*p, &flatten_set_fine(&res)), evenodd(*p, &flatten_set_fine(&swapped)));
                if g1 == g2 { continue; }
                wrong += 1;
                if first.is_none() { first = Some((*p, g1, g2)); }
            }
            if let Some((p, g1, g2)) = first {
                stats.fail("C01", &format!("{}.operand_order.{}", op, class), &format!("{} of {} probes differ; probe={:?} in {}(A,B)={} in {}(B,A)={} expected={} {} {}(A,B)={:?} {}(B,A)={:?}", wrong, pr.len(), p, op, g1, op, g2, expected(op, oa.contains(p, true), ob.contains(p, true)), detail(), op, res, op, swapped));
            }
        }
    }
}

/// A+0=A, 0+B=B, A-0=A, 0-B=0, A&0=0=0&B, and the three operations on two empty sets
fn empty_operand_laws(stats: &mut Stats, rng: &mut Rng) {
    let sets: Vec<(&str, Vec<P>)> = vec![
        ("circle", vec![circle(50.0, 50.0, 20.0)]),
        ("rect", vec![rect(20.0, 30.0, 60.0, 70.0)]),
        ("rect_with_hole", vec![rect(10.0, 10.0, 90.0, 90.0), circle(50.0, 50.0, 20.0)]),
        ("two_circles", vec![circle(30.0, 30.0, 10.0), reversed(&circle(70.0, 70.0, 10.0))]),
        ("blob", vec![blob(rng, Coord2(50.0, 50.0), 25.0)]),
    ];
    let empty: Vec<P> = vec![];
    for (name, s) in &sets {
        let os = Operand::new(s);
        let pr = probes(rng, &[&os], 200, 200);
        for op in OPS {
            for side in ["empty_second_operand", "empty_first_operand"] {
                let (a, b) = if side == "empty_second_operand" { (s, &empty) } else { (&empty, s) };
                let repr = format!("law {}.{} set={} A={:?} B={:?}", op, side, name, a, b);
                stats.case(&repr, true);
                stats.count(&format!("law.{}.{}", op, side));
                let res = match run_op(stats, "C01", op, a, b) { Some(r) => r, None => continue };
                let first_is_s = side == "empty_second_operand";
                check_membership(stats, "C01", &format!("{}.{}", op, side), &res, &pr,
                    &|p, fine| { let i = os.contains(p, fine); if first_is_s { expected(op, i, false) } else { expected(op, false, i) } },
                    &|| format!("set={} A={:?} B={:?}", name, a, b));
            }
        }
    }
    for op in OPS {
        stats.case(&format!("law {}.empty_both_operands", op), false);
        if let Some(res) = run_op(stats, "C01", op, &empty, &empty) {
            let pr: Vec<Coord2> = (0..50).map(|_| Coord2(rng.r(0.0, 100.0), rng.r(0.0, 100.0))).collect();
            check_membership(stats, "C01", &format!("{}.empty_both_operands", op), &res, &pr, &|_, _| false, &|| "A=[] B=[]".to_string());
        }
    }
}

pub fn search(seed: u64, n: u64) {
    quiet_panics();
    let mut rng = Rng(seed ^ 0x5EA2C01);
    let mut stats = Stats::new();
    empty_operand_laws(&mut stats, &mut rng);
    // exact tangential / identical / shared-edge contacts x 4 variants x 3 operations (+ swapped add / intersect)
    for (name, a, b) in tangent_corpus() {
        for v in 0..4 {
            let (a, b) = corpus_variant(&a, &b, v);
            stats.case(&format!("corpus {} {} A={:?} B={:?}", name, VARIANTS[v], a, b), true);
            stats.count("corpus_case");
            check_pair(&mut stats, &mut rng, &a, &b, &format!("corpus.{}.{}", name, VARIANTS[v]), 300, 300);
        }
    }
    // operands enclosed by only one or two curve sections (teardrop, two-arc lens) against ordinary shapes, in both operand positions: a
    // stream of its own, so that the pairs below stay what they were before these shapes existed
    let mut rng_few = Rng(seed ^ 0xFE3);
    for k in 0..(6 + n / 20) {
        let few = vec![few_section_shape(&mut rng_few)];
        let other = vec![rand_shape(&mut rng_few).path];
        let (a, b) = if k % 2 == 0 { (few, other) } else { (other, few) };
        stats.count("pair.with_few_section_shape");
        stats.case(&format!("few_section A={:?} B={:?}", a, b), true);
        let class = format!("few_section_shape{}", near_contact_suffix(&[&a, &b]));
        check_pair(&mut stats, &mut rng_few, &a, &b, &class, 150, 150);
    }
    // a classification ray crossing an edge of the other operand at a SHALLOW but transversal angle (own stream): A is a rectangle, B a polygon
    // around it with one long edge that runs almost along the normal through the middle of one of A's edges (angle 1.8e-4 .. 6e-4 rad: the
    // ray-caster's tangent filter treats |cos| within 1e-8 of 1, i.e. angles below 1.41e-4 rad, as tangent), 9 units or more away from A
    let mut rng_sh = Rng(seed ^ 0x5A77C01);
    for k in 0..(4 + n / 25) {
        let (w, h) = (rng_sh.r(6.0, 14.0), rng_sh.r(6.0, 14.0));
        let theta = rng_sh.r(1.8e-4, 6e-4);
        let d = 30.0 * theta;
        let mx = w * 0.5;
        let mut ra = vec![Coord2(0.0, 0.0), Coord2(w, 0.0), Coord2(w, h), Coord2(0.0, h)];
        let start = rng_sh.i(4) as usize;
        ra.rotate_left(start);
        if rng_sh.b() { ra.reverse(); }
        let rb = vec![Coord2(-10.0, -10.0), Coord2(w + 30.0, -10.0), Coord2(w + 30.0, h + 70.0), Coord2(mx + d, h + 70.0), Coord2(mx - d, h + 10.0), Coord2(-10.0, h + 10.3)];
        let phi = match k % 3 { 0 => 0.0, 1 => std::f64::consts::FRAC_PI_2, _ => rng_sh.r(0.0, TAU) };
        let off = Coord2(rng_sh.r(30.0, 40.0), rng_sh.r(20.0, 30.0));
        let tr = |p: &Coord2| Coord2(p.0 * phi.cos() - p.1 * phi.sin(), p.0 * phi.sin() + p.1 * phi.cos()) + off;
        let a = vec![polygon(&ra.iter().map(tr).collect::<Vec<_>>())];
        let b = vec![polygon(&rb.iter().map(tr).collect::<Vec<_>>())];
        let (a, b) = if k % 2 == 0 { (a, b) } else { (b, a) };
        stats.count("pair.shallow_ray_crossing");
        stats.case(&format!("shallow_ray_crossing theta={} A={:?} B={:?}", theta, a, b), true);
        check_pair(&mut stats, &mut rng_sh, &a, &b, "shallow_ray_crossing", 150, 150);
    }
    // an edge of the second operand crossing an edge of the first one a few thousandths SHORT OF THAT EDGE'S END VERTEX (and not touching the
    // following edge): the crossing is real, 0.002 .. 0.008 from the vertex (own stream; a rectangle and a triangle entering through its top
    // edge next to the corner, all windings and start vertices; keyed on its own - the unchanged code is right on these)
    let mut rng_c = Rng(seed ^ 0xC02E2C01);
    for k in 0..(4 + n / 25) {
        let (x0, y0, w, h) = (rng_c.r(10.0, 30.0), rng_c.r(10.0, 30.0), rng_c.r(20.0, 40.0), rng_c.r(20.0, 40.0));
        let d = rng_c.r(0.002, 0.008);
        let mut ra = vec![Coord2(x0, y0), Coord2(x0 + w, y0), Coord2(x0 + w, y0 + h), Coord2(x0, y0 + h)];
        ra.rotate_left(rng_c.i(4) as usize);
        if rng_c.b() { ra.reverse(); }
        // the triangle's apex is inside the rectangle; one of its sides leaves through the top edge at (x0 + w - d, y0 + h), the other far away
        let enter = Coord2(x0 + w - d, y0 + h);
        let apex = Coord2(x0 + w * rng_c.r(0.4, 0.7), y0 + h * rng_c.r(0.3, 0.7));
        let dir = enter - apex;
        let out1 = apex + dir * rng_c.r(1.5, 2.2);
        let out2 = Coord2(x0 + w * rng_c.r(0.05, 0.3), y0 + h + rng_c.r(8.0, 20.0));
        let mut tb = vec![apex, out1, out2];
        tb.rotate_left(rng_c.i(3) as usize);
        if rng_c.b() { tb.reverse(); }
        let (a, b) = (vec![polygon(&ra)], vec![polygon(&tb)]);
        let (a, b) = if k % 2 == 0 { (a, b) } else { (b, a) };
        stats.count("pair.crossing_just_before_vertex");
        stats.case(&format!("crossing_just_before_vertex d={} A={:?} B={:?}", d, a, b), true);
        check_pair_x(&mut stats, &mut rng_c, &a, &b, "crossing_just_before_vertex", 150, 150, false);
    }
    // a classification ray that runs ALONG a straight edge which the collision stage has cut into two or three collinear pieces: an
    // L-shaped rectilinear operand on the integer grid whose step edge is crossed transversally by the other operand, with an edge of the
    // L whose mid point is level with the step edge (the ray cast from that mid point follows the step edge through its cut points); no
    // shared vertices or edges, no tangency (own stream; from seeded change C01-m9; the unchanged code is right on these)
    let mut rng_l = Rng(seed ^ 0x57E9C01);
    for k in 0..(4 + n / 25) {
        let g = |rng: &mut Rng, lo: i64, hi: i64| (lo + rng.i((hi - lo + 1) as u64) as i64) as f64;
        let (x0, y0) = (g(&mut rng_l, 5, 15), g(&mut rng_l, 5, 15));
        let half = g(&mut rng_l, 6, 12);                  // the left edge runs from y0 to y0 + 2*half: its mid point is level with the step
        let (xa, xb) = (x0 + g(&mut rng_l, 6, 12), x0 + g(&mut rng_l, 28, 40));
        let ys = y0 + half;
        let l = vec![Coord2(x0, y0), Coord2(x0, y0 + 2.0 * half), Coord2(xa, y0 + 2.0 * half), Coord2(xa, ys), Coord2(xb, ys), Coord2(xb, y0)];
        // the other operand crosses the step edge with one or two of its edges, well inside it
        let cx = xa + (xb - xa) * rng_l.r(0.35, 0.65);
        let wq = rng_l.r(2.0, 4.0);
        let q = if k % 3 == 0 {
            vec![Coord2(cx - wq, ys - rng_l.r(3.0, 5.0)), Coord2(cx + wq, ys - rng_l.r(3.0, 5.0)), Coord2(cx + wq * 1.3, ys + rng_l.r(3.0, 5.5)), Coord2(cx - wq * 1.4, ys + rng_l.r(3.0, 5.5))]
        } else {
            vec![Coord2(cx - wq, ys - rng_l.r(3.0, 5.0)), Coord2(cx + wq, ys - rng_l.r(3.0, 5.0)), Coord2(cx + rng_l.r(-0.5, 0.5), ys + rng_l.r(3.0, 5.5))]
        };
        let mut la = l.clone(); if k % 2 == 1 { la.reverse(); }
        let mut qb = q.clone(); let rot = rng_l.i(q.len() as u64) as usize; qb.rotate_left(rot); if rng_l.b() { qb.reverse(); }
        let mirror = k % 4 >= 2;
        let mm = |v: Vec<Coord2>| -> Vec<Coord2> { if mirror { v.into_iter().map(|p| Coord2(p.1, p.0)).collect() } else { v } };
        let (a, b) = (vec![polygon(&mm(la))], vec![polygon(&mm(qb))]);
        let (a, b) = if k % 8 < 4 { (a, b) } else { (b, a) };
        stats.count("pair.ray_along_cut_step_edge");
        stats.case(&format!("ray_along_cut_step_edge A={:?} B={:?}", a, b), true);
        check_pair_x(&mut stats, &mut rng_l, &a, &b, "ray_along_cut_step_edge", 200, 200, false);
    }
    // a straight side of one operand cutting a SHALLOW CAP off a circle (depth 7 .. 25 % of the radius, the cap towards +x, -x, +y or -y,
    // inside one cubic section of the circle or across a joint of two): the chord and the arc join the same two crossing points, and
    // whether they are "overlapping edges" must be decided by where the ray meets them, not by their end points alone (own stream;
    // from seeded change C01-m10)
    let mut rng_cap = Rng(seed ^ 0xCA9C01);
    for k in 0..(60 + n / 8) {
        let c = Coord2(rng_cap.r(30.0, 70.0), rng_cap.r(30.0, 70.0));
        let r = rng_cap.r(4.0, 20.0);
        let circ = if rng_cap.b() { circle(c.0, c.1, r) } else { circle45(c.0, c.1, r) };
        let dir = [0.0, std::f64::consts::FRAC_PI_2, std::f64::consts::PI, 1.5 * std::f64::consts::PI][(k % 4) as usize] + rng_cap.r(-0.09, 0.09);
        let (ux, uy) = (dir.cos(), dir.sin());
        let dist = r * rng_cap.r(0.75, 0.93);
        // the quadrilateral: the half plane behind the cutting side, closed far behind the circle, slightly irregular
        let side_mid = Coord2(c.0 + ux * dist, c.1 + uy * dist);
        let t = Coord2(-uy, ux);
        let ext = r * rng_cap.r(1.3, 1.7);
        let back = r * rng_cap.r(1.4, 2.2);
        let j = |rng: &mut Rng| rng.r(-0.08, 0.08) * r;
        let q = vec![side_mid + t * ext + Coord2(j(&mut rng_cap), j(&mut rng_cap)), side_mid - t * ext + Coord2(j(&mut rng_cap), j(&mut rng_cap)),
                     side_mid - t * ext - Coord2(ux, uy) * (dist + back) + Coord2(j(&mut rng_cap), j(&mut rng_cap)), side_mid + t * ext - Coord2(ux, uy) * (dist + back) + Coord2(j(&mut rng_cap), j(&mut rng_cap))];
        let mut qq = q.clone(); let rot = rng_cap.i(4) as usize; qq.rotate_left(rot); if rng_cap.b() { qq.reverse(); }
        let (a, b) = (vec![redirect(&mut rng_cap, &circ)], vec![polygon(&qq)]);
        let (a, b) = if k % 8 < 4 { (a, b) } else { (b, a) };
        stats.count("pair.side_cuts_shallow_cap");
        stats.case(&format!("side_cuts_shallow_cap A={:?} B={:?}", a, b), true);
        check_pair_x(&mut stats, &mut rng_cap, &a, &b, "side_cuts_shallow_cap", 120, 120, false);
    }
    // rectilinear operands (rectangles, L shapes) on PARITY-SEPARATED integer grids: every coordinate of the first operand is even, every
    // coordinate of the second one odd - they never share a vertex or a line, every contact is a transversal crossing inside two edges,
    // but the mid points of edges of one operand are often level with edges of the other one, so that classification rays run ALONG edges
    // (and along the collinear pieces into which the collision stage has cut them) (own stream; from the round-5 change to crossing_edges)
    let mut rng_p = Rng(seed ^ 0x9A217C01);
    for k in 0..(240 + n / 4) {
        let rectilinear = |rng: &mut Rng, par: f64| -> Vec<Coord2> {
            let c = |rng: &mut Rng, lo: u64, hi: u64| 2.0 * (lo + rng.i(hi - lo + 1)) as f64 + par;
            let (x0, y0) = (c(rng, 0, 4), c(rng, 0, 4));
            let (x1, y1) = (x0 + 2.0 * (2 + rng.i(5)) as f64, y0 + 2.0 * (2 + rng.i(5)) as f64);
            if rng.i(3) == 0 { vec![Coord2(x0, y0), Coord2(x0, y1), Coord2(x1, y1), Coord2(x1, y0)] } else {
                // an L: the rectangle minus one of its corners
                let (xm, ym) = (x0 + 2.0 * (1 + rng.i(((x1 - x0) / 2.0) as u64 - 1)) as f64, y0 + 2.0 * (1 + rng.i(((y1 - y0) / 2.0) as u64 - 1)) as f64);
                match rng.i(4) {
                    0 => vec![Coord2(x0, y0), Coord2(x0, y1), Coord2(xm, y1), Coord2(xm, ym), Coord2(x1, ym), Coord2(x1, y0)],
                    1 => vec![Coord2(x0, y0), Coord2(x0, ym), Coord2(xm, ym), Coord2(xm, y1), Coord2(x1, y1), Coord2(x1, y0)],
                    2 => vec![Coord2(x0, y0), Coord2(x0, y1), Coord2(x1, y1), Coord2(x1, ym), Coord2(xm, ym), Coord2(xm, y0)],
                    _ => vec![Coord2(xm, y0), Coord2(xm, ym), Coord2(x0, ym), Coord2(x0, y1), Coord2(x1, y1), Coord2(x1, y0)],
                }
            }
        };
        let mut pa = rectilinear(&mut rng_p, 0.0);
        let mut pb = rectilinear(&mut rng_p, 1.0);
        let ra = rng_p.i(pa.len() as u64) as usize; pa.rotate_left(ra); if rng_p.b() { pa.reverse(); }
        let rb = rng_p.i(pb.len() as u64) as usize; pb.rotate_left(rb); if rng_p.b() { pb.reverse(); }
        let (a, b) = (vec![polygon(&pa)], vec![polygon(&pb)]);
        let (a, b) = if k % 2 == 0 { (a, b) } else { (b, a) };
        stats.count("pair.parity_separated_rectilinear");
        stats.case(&format!("parity_separated_rectilinear A={:?} B={:?}", a, b), true);
        check_pair_x(&mut stats, &mut rng_p, &a, &b, "parity_separated_rectilinear", 80, 80, false);
    }
    for _ in 0..n {
        let pair = gen_pair(&mut rng);
        count_pair(&mut stats, &pair);
        let (oa, ob) = (Operand::new(&pair.a), Operand::new(&pair.b));
        let meet = boundaries_within(&oa, &ob, 0.05);
        if meet { stats.count("boundaries_meet"); }
        stats.case(&format!("{} A={:?} B={:?}", pair.relation, pair.a, pair.b), meet);
        check_pair(&mut stats, &mut rng, &pair.a, &pair.b, &pair.class, 150, 150);
    }
    stats.print("C01", "search");
}
