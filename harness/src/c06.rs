//! C06: bounding boxes contain the curve and are tight.
use crate::util::*;
use flo_curves::bezier::path::*;
use flo_curves::bezier::*;
use flo_curves::*;

fn comps<P: Coordinate>(p: &P) -> Vec<f64> { (0..P::len()).map(|i| p.get(i)).collect() }
fn flat<P: Coordinate>(ps: &[P]) -> Vec<f64> { ps.iter().flat_map(|p| comps(p)).collect() }

/// control points incl. the ill-conditioned regime: derivative leading coefficient zero or tiny (1e-17..1e-8)
pub fn gen_points<P: Coordinate>(rng: &mut Rng) -> ([P; 4], &'static str) {
    let d = P::len();
    let mut pts: Vec<Vec<f64>> = (0..4).map(|_| (0..d).map(|_| rng.r(0.0, 100.0)).collect()).collect();
    let kind = match rng.i(10) {
        0 => { for c in 0..d { let eps = 10f64.powf(rng.r(-17.0, -8.0)) * if rng.b() { 1.0 } else { -1.0 }; pts[3][c] = pts[0][c] - 3.0 * pts[1][c] + 3.0 * pts[2][c] + eps * 3.0; } "tiny_leading" }
        1 => { for c in 0..d { pts[3][c] = pts[0][c] - 3.0 * pts[1][c] + 3.0 * pts[2][c]; } "zero_leading" }
        2 => { for k in 0..4 { for c in 0..d { pts[k][c] = (pts[k][c] / 12.5).round() * 12.5; } } "grid" }
        3 => { let (a, b) = (pts[0].clone(), pts[3].clone()); for c in 0..d { let (s, t) = (rng.f(), rng.f()); pts[1][c] = a[c] + (b[c] - a[c]) * s; pts[2][c] = a[c] + (b[c] - a[c]) * t; } "monotone_flat" }
        4 => { pts[3] = pts[0].clone(); "loop" }
        5 => { let p = pts[1].clone(); pts[1] = pts[2].clone(); pts[2] = p; for c in 0..d { pts[1][c] = pts[3][c]; pts[2][c] = pts[0][c]; } "cusp" }
        6 => { let p = pts[0].clone(); for k in 0..4 { pts[k] = p.clone(); } "point" }
        _ => "random",
    };
    ([P::from_components(&pts[0]), P::from_components(&pts[1]), P::from_components(&pts[2]), P::from_components(&pts[3])], kind)
}

fn corr_dim<P: Coordinate>(rng: &mut Rng, stats: &mut Stats) {
    let d = P::len();
    let (w, kind) = gen_points::<P>(rng);
    let c = Curve::from_points(w[0], (w[1], w[2]), w[3]);
    let b: Bounds<P> = c.bounding_box();
    let f: Bounds<P> = c.fast_bounding_box();
    let ext = c.find_extremities();
    let line = format!("C06 box R {} {} | {} {} {} {} {} {}", d, hxs(&flat(&w)), hxs(&comps(&b.min())), hxs(&comps(&b.max())), hxs(&comps(&f.min())), hxs(&comps(&f.max())), ext.len(), hxs(&ext));
    stats.case(&line, ext.len() > 1);
    stats.count(&format!("box.{}d.{}", d, kind));
    println!("{}", line);
}

pub fn corr(seed: u64, n: u64) {
    let mut rng = Rng(seed ^ 0xC06);
    let mut stats = Stats::new();
    for _ in 0..n {
        match rng.i(5) {
            4 => {
                // path-level boxes of a 1-D path (the generic code at Point = f64): 0..5 curves, constant pieces forced in
                let k = rng.i(6) as usize;
                let val = |rng: &mut Rng| if rng.i(5) == 0 { 5.0 } else { rng.r(0.0, 100.0) };
                let start = val(&mut rng);
                let mut pts: Vec<(f64, f64, f64)> = vec![];
                let mut prev = start;
                for _ in 0..k {
                    let c = if rng.i(6) == 0 { (prev, prev, prev) } else { (val(&mut rng), val(&mut rng), val(&mut rng)) };
                    prev = c.2; pts.push(c);
                }
                let path: (f64, Vec<(f64, f64, f64)>) = (start, pts.clone());
                let b: Bounds<f64> = path.bounding_box();
                let f: Bounds<f64> = path.fast_bounding_box();
                let mut flat = vec![start];
                for (a, b2, c) in &pts { flat.extend_from_slice(&[*a, *b2, *c]); }
                let line = format!("C06 pbox R #{} {} | {} {} {} {}", k, hxs(&flat), hx(b.min()), hx(b.max()), hx(f.min()), hx(f.max()));
                stats.case(&line, k > 1);
                stats.count(&format!("pbox.curves_{}", k));
                println!("{}", line);
            }
            0 => corr_dim::<f64>(&mut rng, &mut stats),
            1 => corr_dim::<Coord2>(&mut rng, &mut stats),
            2 => corr_dim::<Coord3>(&mut rng, &mut stats),
            _ => {
                let v: Vec<f64> = (0..4).map(|_| if rng.i(4) == 0 { 5.0 } else { rng.r(0.0, 100.0) }).collect();
                let (a, b) = (Bounds::from_min_max(v[0].min(v[1]), v[0].max(v[1])), Bounds::from_min_max(v[2].min(v[3]), v[2].max(v[3])));
                let u: Bounds<f64> = a.union_bounds(b);
                let line = format!("C06 union R {} {} {} {} | {} {}", hx(a.min()), hx(a.max()), hx(b.min()), hx(b.max()), hx(u.min()), hx(u.max()));
                stats.case(&line, a.min() != a.max() && b.min() != b.max());
                stats.count("union");
                println!("{}", line);
            }
        }
    }
    // 2-D paths (own stream): the per-curve boxes of the real curves go into the transcript, the model folds them with the generated 2-D union
    // (a box is empty only when its corners are the same point: vertical / horizontal lines take part, point sections do not)
    let mut rng2 = Rng(seed ^ 0x2D0C06);
    for _ in 0..n / 10 {
        let k = rng2.i(6) as usize;
        let val = |rng: &mut Rng| if rng.i(5) == 0 { 5.0 } else { rng.r(0.0, 100.0) };
        let start = Coord2(val(&mut rng2), val(&mut rng2));
        let mut pts: Vec<(Coord2, Coord2, Coord2)> = vec![];
        let mut prev = start;
        for _ in 0..k {
            let c = match rng2.i(6) {
                0 => (prev, prev, prev),
                1 => { let e = Coord2(prev.0, val(&mut rng2)); (prev + (e - prev) * 0.33, prev + (e - prev) * 0.66, e) }
                2 => { let e = Coord2(val(&mut rng2), prev.1); (prev + (e - prev) * 0.33, prev + (e - prev) * 0.66, e) }
                _ => (Coord2(val(&mut rng2), val(&mut rng2)), Coord2(val(&mut rng2), val(&mut rng2)), Coord2(val(&mut rng2), val(&mut rng2))),
            };
            prev = c.2; pts.push(c);
        }
        let path: SimpleBezierPath = (start, pts);
        let curves: Vec<Curve<Coord2>> = path.to_curves();
        let pb: Bounds<Coord2> = path.bounding_box();
        let pf: Bounds<Coord2> = path.fast_bounding_box();
        let mut line = format!("C06 pbox2 R #{}", curves.len());
        for c in &curves { let b: Bounds<Coord2> = c.bounding_box(); line += &format!(" {} {} {} {}", hx(b.min().0), hx(b.min().1), hx(b.max().0), hx(b.max().1)); }
        for c in &curves { let b: Bounds<Coord2> = c.fast_bounding_box(); line += &format!(" {} {} {} {}", hx(b.min().0), hx(b.min().1), hx(b.max().0), hx(b.max().1)); }
        line += &format!(" | {} {} {} {} {} {} {} {}", hx(pb.min().0), hx(pb.min().1), hx(pb.max().0), hx(pb.max().1), hx(pf.min().0), hx(pf.min().1), hx(pf.max().0), hx(pf.max().1));
        stats.case(&line, curves.len() > 1);
        stats.count(&format!("pbox2.curves_{}", curves.len()));
        println!("{}", line);
    }
    stats.print("C06", "corr");
}

/// golden-section refinement of the extremum of one component near a grid point
fn refine<P: Coordinate>(c: &Curve<P>, comp: usize, t0: f64, sign: f64) -> f64 {
    let (mut lo, mut hi) = ((t0 - 1.0 / 2000.0).max(0.0), (t0 + 1.0 / 2000.0).min(1.0));
    for _ in 0..60 {
        let (m1, m2) = (lo + (hi - lo) / 3.0, hi - (hi - lo) / 3.0);
        if sign * c.point_at_pos(m1).get(comp) < sign * c.point_at_pos(m2).get(comp) { lo = m1; } else { hi = m2; }
    }
    c.point_at_pos((lo + hi) / 2.0).get(comp)
}

fn search_dim<P: Coordinate>(rng: &mut Rng, stats: &mut Stats) {
    let d = P::len();
    let (w, kind) = gen_points::<P>(rng);
    let c = Curve::from_points(w[0], (w[1], w[2]), w[3]);
    let b: Bounds<P> = c.bounding_box();
    let f: Bounds<P> = c.fast_bounding_box();
    let vals = flat(&w);
    let desc = format!("dim={} kind={} w={:?}", d, kind, vals);
    stats.case(&desc, kind != "point");
    stats.count(&format!("{}d.{}", d, kind));
    for comp in 0..d {
        let cv: Vec<f64> = (0..4).map(|k| w[k].get(comp)).collect();
        let size = cv.iter().cloned().fold(f64::MIN, f64::max) - cv.iter().cloned().fold(f64::MAX, f64::min);
        let scale = cv.iter().fold(0.0f64, |m, v| m.max(v.abs()));
        // 1e-9 of the control polygon size, with a 16-ulp floor (a point curve evaluates to within a few ulps of itself)
        let tol = (1e-9 * size).max(16.0 * f64::EPSILON * scale);
        let (mn, mx) = (b.min().get(comp), b.max().get(comp));
        let grid: Vec<f64> = (0..=2000).map(|k| c.point_at_pos(k as f64 / 2000.0).get(comp)).collect();
        let (mut lo, mut hi) = (f64::MAX, f64::MIN);
        for k in 0..=2000usize {
            let v = grid[k];
            lo = lo.min(v); hi = hi.max(v);
            let (l, r) = (if k > 0 { grid[k - 1] } else { v }, if k < 2000 { grid[k + 1] } else { v });
            // refine around every local extremum of the grid (ends included)
            if v >= l && v >= r && (v > l || v > r || k == 0 || k == 2000) { hi = hi.max(refine(&c, comp, k as f64 / 2000.0, 1.0)); }
            if v <= l && v <= r && (v < l || v < r || k == 0 || k == 2000) { lo = lo.min(refine(&c, comp, k as f64 / 2000.0, -1.0)); }
        }
        if lt(lo, mn - tol) || gt(hi, mx + tol) { stats.fail("C06", "bounding_box_does_not_contain_curve", &format!("{} axis={} box=[{},{}] curve range=[{},{}] tol={:e}", desc, comp, mn, mx, lo, hi, tol)); }
        // tight: each face touched (to the resolution of the refined scan)
        let ttol = tol.max(1e-9 * size);
        if gt((lo - mn).abs(), ttol * 10.0) || gt((hi - mx).abs(), ttol * 10.0) { stats.fail("C06", "bounding_box_not_tight", &format!("{} axis={} box=[{},{}] curve range=[{},{}]", desc, comp, mn, mx, lo, hi)); }
        if gt(f.min().get(comp), mn + tol) || lt(f.max().get(comp), mx - tol) { stats.fail("C06", "fast_box_does_not_contain_box", &format!("{} axis={}", desc, comp)); }
    }
    for t in c.find_extremities() { if !(t > 0.0 && t <= 1.0) { stats.fail("C06", "extremity_out_of_range", &format!("{} t={}", desc, t)); } }
}

fn search_path(rng: &mut Rng, stats: &mut Stats) {
    // a path's (fast) bounding box is the union of its curves' boxes
    let n = 1 + rng.i(6) as usize;
    let mut pos = Coord2(rng.r(0.0, 100.0), rng.r(0.0, 100.0));
    let start = pos;
    let mut pts = vec![];
    for k in 0..n {
        let (a, b) = (Coord2(rng.r(0.0, 100.0), rng.r(0.0, 100.0)), Coord2(rng.r(0.0, 100.0), rng.r(0.0, 100.0)));
        // sometimes a zero-length (point) segment: its box has min = max and is skipped by union_bounds
        let kind = rng.i(6);
        let e = if kind <= 1 { pos } else { Coord2(rng.r(0.0, 100.0), rng.r(0.0, 100.0)) };
        // kind 0: a zero-length section; kind 1: a section that returns to its own start (teardrop): not empty although its end points coincide
        if kind == 0 { pts.push((pos, pos, pos)); } else { pts.push((a, b, e)); }
        pos = e;
        let _ = k;
    }
    let path: SimpleBezierPath = (start, pts);
    let desc = format!("path={:?}", path);
    stats.case(&desc, n > 1);
    stats.count("path");
    let pb: Bounds<Coord2> = path.bounding_box();
    let pf: Bounds<Coord2> = path.fast_bounding_box();
    let curves: Vec<Curve<Coord2>> = path.to_curves();
    let (mut mn, mut mx, mut fmn, mut fmx) = (Coord2(f64::MAX, f64::MAX), Coord2(f64::MIN, f64::MIN), Coord2(f64::MAX, f64::MAX), Coord2(f64::MIN, f64::MIN));
    for c in &curves {
        let b: Bounds<Coord2> = c.bounding_box();
        let f: Bounds<Coord2> = c.fast_bounding_box();
        mn = Coord2::from_smallest_components(mn, b.min()); mx = Coord2::from_biggest_components(mx, b.max());
        fmn = Coord2::from_smallest_components(fmn, f.min()); fmx = Coord2::from_biggest_components(fmx, f.max());
    }
    if pb.min() != mn || pb.max() != mx { stats.fail("C06", "path_box_not_union", &format!("{} got={:?} want={:?}", desc, pb, (mn, mx))); }
    if pf.min() != fmn || pf.max() != fmx { stats.fail("C06", "path_fast_box_not_union", &format!("{} got={:?} want={:?}", desc, pf, (fmn, fmx))); }
}

fn search_path_scales(rng: &mut Rng, stats: &mut Stats) {
    let n = 1 + rng.i(5) as usize;
    let all_small = rng.i(3) == 0;
    let mut pos = Coord2(rng.r(0.0, 100.0), rng.r(0.0, 100.0));
    let start = pos;
    let mut pts = vec![];
    for _ in 0..n {
        let s = if all_small { [1e-4, 3e-4, 6e-4][rng.i(3) as usize] } else { [1e-4, 3e-4, 1e-3, 1e-2, 1.0, 10.0][rng.i(6) as usize] };
        let d = |rng: &mut Rng| Coord2(rng.r(-s, s), rng.r(-s, s));
        let (a, b, e) = (pos + d(rng), pos + d(rng), pos + d(rng));
        pts.push((a, b, e));
        pos = e;
    }
    let path: SimpleBezierPath = (start, pts);
    let desc = format!("path={:?}", path);
    stats.case(&desc, n > 1);
    stats.count(if all_small { "path.all_sections_tiny" } else { "path.mixed_section_sizes" });
    let pb: Bounds<Coord2> = path.bounding_box();
    let pf: Bounds<Coord2> = path.fast_bounding_box();
    let curves: Vec<Curve<Coord2>> = path.to_curves();
    let (mut mn, mut mx, mut fmn, mut fmx) = (Coord2(f64::MAX, f64::MAX), Coord2(f64::MIN, f64::MIN), Coord2(f64::MAX, f64::MAX), Coord2(f64::MIN, f64::MIN));
    for c in &curves {
        let b: Bounds<Coord2> = c.bounding_box();
        let f: Bounds<Coord2> = c.fast_bounding_box();
        mn = Coord2::from_smallest_components(mn, b.min()); mx = Coord2::from_biggest_components(mx, b.max());
        fmn = Coord2::from_smallest_components(fmn, f.min()); fmx = Coord2::from_biggest_components(fmx, f.max());
    }
    let key = if all_small { "all_sections_tiny" } else { "mixed_section_sizes" };
    if pb.min() != mn || pb.max() != mx { stats.fail("C06", &format!("path_box_not_union.{}", key), &format!("{} got={:?} want={:?}", desc, pb, (mn, mx))); }
    if pf.min() != fmn || pf.max() != fmx { stats.fail("C06", &format!("path_fast_box_not_union.{}", key), &format!("{} got={:?} want={:?}", desc, pf, (fmn, fmx))); }
}

/// the edges of a path graph are curves too (graph_path/edge.rs overrides the boxes): every edge, in its forward and in its reversed
/// direction, must have the boxes of the plain curve with the same control points
fn search_graph_edges(rng: &mut Rng, stats: &mut Stats) {
    use flo_curves::bezier::path::{GraphPath, PathLabel, GraphEdge};
    let n = 2 + rng.i(5) as usize;
    let start = Coord2(rng.r(0.0, 100.0), rng.r(0.0, 100.0));
    let mut pts = vec![];
    for k in 0..n {
        let e = if k + 1 == n { start } else { Coord2(rng.r(0.0, 100.0), rng.r(0.0, 100.0)) };
        pts.push((Coord2(rng.r(0.0, 100.0), rng.r(0.0, 100.0)), Coord2(rng.r(0.0, 100.0), rng.r(0.0, 100.0)), e));
    }
    let path: SimpleBezierPath = (start, pts);
    let desc = format!("graph of path={:?}", path);
    stats.case(&desc, true);
    stats.count("graph_edges");
    let g = GraphPath::from_path(&path, PathLabel(0));
    let mut edges: Vec<(GraphEdge<'_, Coord2, PathLabel>, &str)> = g.all_edges().map(|e| (e, "forward")).collect();
    for i in 0..g.num_points() { for e in g.reverse_edges_for_point(i) { edges.push((e, "reversed")); } }
    for (e, dir) in edges {
        let plain: Curve<Coord2> = Curve::from_curve(&e);
        let size = [plain.start_point(), plain.control_points().0, plain.control_points().1, plain.end_point()].iter().fold(0.0f64, |m, p| m.max(p.0.abs()).max(p.1.abs()));
        let tol = 1e-9 * size;
        let (be, bp): (Bounds<Coord2>, Bounds<Coord2>) = (e.bounding_box(), plain.bounding_box());
        let (fe, fp): (Bounds<Coord2>, Bounds<Coord2>) = (e.fast_bounding_box(), plain.fast_bounding_box());
        let far = |a: Coord2, b: Coord2| gt((a.0 - b.0).abs(), tol) || gt((a.1 - b.1).abs(), tol);
        if far(be.min(), bp.min()) || far(be.max(), bp.max()) { stats.fail("C06", &format!("graph_edge_bounding_box.{}", dir), &format!("{} edge={:?} box={:?} box of the same curve={:?}", desc, plain, be, bp)); }
        if far(fe.min(), fp.min()) || far(fe.max(), fp.max()) { stats.fail("C06", &format!("graph_edge_fast_bounding_box.{}", dir), &format!("{} edge={:?} box={:?} box of the same curve={:?}", desc, plain, fe, fp)); }
    }
}

pub fn search(seed: u64, n: u64) {
    let mut rng = Rng(seed ^ 0x5EA2C06);
    let mut stats = Stats::new();
    for _ in 0..n {
        match rng.i(8) {
            0 | 1 | 2 => search_dim::<f64>(&mut rng, &mut stats),
            3 | 4 => search_dim::<Coord2>(&mut rng, &mut stats),
            5 | 6 => search_dim::<Coord3>(&mut rng, &mut stats),
            _ => if rng.b() { search_path(&mut rng, &mut stats) } else { search_graph_edges(&mut rng, &mut stats) },
        }
    }
    // paths with sections of very different sizes (own random stream): a small section - a rounded cap a fraction of a
    // thousandth across - can be the one that defines a face of the path's box, and a whole path can be that small
    let mut rng_s = Rng(seed ^ 0x71C06);
    for _ in 0..n / 16 { search_path_scales(&mut rng_s, &mut stats); }
    stats.print("C06", "search");
}
