//! Correspondence transcripts for the curve-level properties whose search oracles live in their own modules.
use crate::util::*;
use flo_curves::bezier::*;
use flo_curves::*;

fn hx2(p: Coord2) -> String { format!("{} {}", hx(p.0), hx(p.1)) }
fn hxc(c: &Curve<Coord2>) -> String { let (a, b) = c.control_points(); format!("{} {} {} {}", hx2(c.start_point()), hx2(a), hx2(b), hx2(c.end_point())) }

pub fn gen_curve(rng: &mut Rng) -> (Curve<Coord2>, &'static str) {
    let mut p: Vec<Coord2> = (0..4).map(|_| Coord2(rng.r(0.0, 100.0), rng.r(0.0, 100.0))).collect();
    let kind = match rng.i(8) {
        0 => { p[3] = p[0]; "loop" }
        1 => { let d = p[3] - p[0]; p[1] = p[0] + d * rng.f(); p[2] = p[0] + d * rng.f(); "straight" }
        2 => { let q = p[0]; for k in 0..4 { p[k] = q; } "point" }
        3 => { p[1] = p[0]; p[2] = p[3]; "coincident_controls" }
        4 => { let (a, b) = (p[1], p[2]); p[1] = b; p[2] = a; "cusp_or_loop" }
        _ => "random",
    };
    (Curve::from_points(p[0], (p[1], p[2]), p[3]), kind)
}

pub fn corr_c19(seed: u64, n: u64) {
    let mut rng = Rng(seed ^ 0xC19);
    let mut stats = Stats::new();
    for _ in 0..n {
        let (c, kind) = gen_curve(&mut rng);
        let e = [1e-2, 1e-4, 1e-8][rng.i(3) as usize];
        let line = format!("C19 len R {} {} | {} {} {}", hxc(&c), hx(e), hx(curve_length(&c, e)), hx(chord_length(&c)), hx(control_polygon_length(&c)));
        stats.case(&line, kind != "point");
        stats.count(&format!("len.{}.e{:e}", kind, e));
        println!("{}", line);
    }
    stats.print("C19", "corr");
}

pub fn corr_c15(seed: u64, n: u64) {
    let mut rng = Rng(seed ^ 0xC15);
    let mut stats = Stats::new();
    for i in 0..n {
        let (c, kind) = gen_curve(&mut rng);
        if i % 4 == 3 {
            let k = 1 + rng.i(300) as usize;
            let secs: Vec<(f64, f64)> = walk_curve_unevenly(&c, k).map(|s| s.original_curve_t_values()).collect();
            let mut line = format!("C15 uneven D #{} | #{}", k, secs.len());
            for (a, b) in &secs { line += &format!(" {} {}", hx(*a), hx(*b)); }
            stats.case(&line, k > 1);
            stats.count("uneven");
            println!("{}", line);
        } else if i % 4 == 2 {
            // a varied walk: a finite list of distances (zero and negative ones included: clamped), cycled or used up
            let len = curve_length(&c, 0.01).max(1e-3);
            let d0 = len * rng.r(0.01, 1.0);
            let max_error = d0 * rng.r(0.01, 0.25);
            let k = rng.i(6) as usize;
            let vs: Vec<f64> = (0..k).map(|_| match rng.i(6) { 0 => 0.0, 1 => -d0, _ => d0 * rng.r(0.2, 3.0) }).collect();
            let cyc = rng.b();
            let cap = 2000usize;
            let secs: Vec<(f64, f64)> = if cyc { walk_curve_evenly(&c, d0, max_error).vary_by(vs.clone().into_iter().cycle()).take(cap).map(|s| s.original_curve_t_values()).collect() }
                else { walk_curve_evenly(&c, d0, max_error).vary_by(vs.clone().into_iter()).take(cap).map(|s| s.original_curve_t_values()).collect() };
            let mut line = format!("C15 vary R {} {} {} #{} #{}{}{} #{} | #{}", hxc(&c), hx(d0), hx(max_error), cyc as u8, k, if k > 0 { " " } else { "" }, hxs(&vs), cap, secs.len());
            for (a, b) in &secs { line += &format!(" {} {}", hx(*a), hx(*b)); }
            stats.case(&line, secs.len() > 1);
            stats.count(&format!("vary.{}.{}", if cyc { "cycled" } else { "used_up" }, if vs.iter().any(|x| *x <= 0.0) { "with_distance<=0" } else { "positive" }));
            println!("{}", line);
        } else {
            let len = curve_length(&c, 0.01).max(1e-3);
            let distance = len * rng.r(0.005, 2.0);
            let max_error = distance * rng.r(0.01, 0.25);
            let cap = 3000usize;
            let secs: Vec<(f64, f64)> = walk_curve_evenly(&c, distance, max_error).take(cap).map(|s| s.original_curve_t_values()).collect();
            let mut line = format!("C15 even R {} {} {} #{} | #{}", hxc(&c), hx(distance), hx(max_error), cap, secs.len());
            for (a, b) in &secs { line += &format!(" {} {}", hx(*a), hx(*b)); }
            stats.case(&line, secs.len() > 1);
            stats.count(&format!("even.{}", kind));
            println!("{}", line);
        }
    }
    stats.print("C15", "corr");
}

pub fn corr_c08(seed: u64, n: u64) {
    std::panic::set_hook(Box::new(|_| {}));
    let mut rng = Rng(seed ^ 0xC08);
    let mut stats = Stats::new();
    let mut lens: Vec<usize> = vec![0, 1, 2, 3, 5, 50, 198, 199, 200, 201, 202, 250, 398, 399, 400, 401, 402, 597, 598, 599, 600, 601, 797, 1000, 1999, 2000];
    for _ in 0..n { lens.push(2 + rng.i(1999) as usize); }
    for len in lens {
        // distinct points along a gentle random curve, so that a joint identifies its input index
        let (c, _) = gen_curve(&mut rng);
        let pts: Vec<Coord2> = (0..len).map(|k| c.point_at_pos(k as f64 / (len.max(2) - 1) as f64) + Coord2(k as f64 * 1e-3, 0.0)).collect();
        let fit = fit_curve::<Curve<Coord2>>(&pts, 1.0);
        let mut joints: Vec<usize> = vec![];
        if let Some(curves) = &fit {
            for c in curves.iter() {
                if let Some(i) = pts.iter().position(|p| *p == c.start_point()) { joints.push(i); }
            }
        }
        let mut line = format!("C08 blocks D #{} | #{} #{}", len, fit.is_some() as u8, joints.len());
        for j in &joints { line += &format!(" #{}", j); }
        stats.case(&line, len >= 200);
        stats.count(if len < 2 { "n<2" } else if len < 200 { "n<200" } else { "n>=200" });
        println!("{}", line);
    }
    // the WHOLE fitter against the generated model, bit for bit: fit_curve on the search generator's inputs (all its sources, noise,
    // repeated / identical points, 0..3 points, block boundaries) ...
    let mut rng2 = Rng(seed ^ 0xF17C08);
    for it in 0..(n / 4 + 40) {
        let mut input = crate::c08::gen_input(&mut rng2);
        if input.pts.len() > 450 && it % 8 != 0 { input.pts.truncate(3 + (it as usize * 7) % 60); }
        let max_error = match it % 5 { 0 => 0.0, 1 => -1.0, _ => if rng2.b() { rng2.r(0.05, 2.0) } else { 10f64.powf(rng2.r(-3.0, 0.3)) } };
        let pts = input.pts.clone();
        let pts2 = pts.clone();
        let fit = match std::panic::catch_unwind(move || fit_curve::<Curve<Coord2>>(&pts2, max_error)) {
            Ok(f) => f,
            Err(_) => {
                // the implementation panicked: reported as a difference by the driver (the model never panics), with the input as replay
                let mut line = format!("C08 fit R {} #{}", hx(max_error), pts.len());
                for p in &pts { line += &format!(" {} {}", hx(p.0), hx(p.1)); }
                println!("{} | #2 #0", line);
                stats.count("fit.implementation_panicked");
                continue;
            }
        };
        let mut line = format!("C08 fit R {} #{}", hx(max_error), pts.len());
        for p in &pts { line += &format!(" {} {}", hx(p.0), hx(p.1)); }
        match &fit {
            None => line += " | #0 #0",
            Some(cs) => {
                line += &format!(" | #1 #{}", cs.len());
                for c in cs { let (c1, c2) = c.control_points(); for q in [c.start_point(), c1, c2, c.end_point()] { line += &format!(" {} {}", hx(q.0), hx(q.1)); } }
            }
        }
        stats.case(&format!("fit {} {} {}", input.source, input.class, pts.len()), pts.len() >= 3);
        stats.count(&format!("fit.class.{}", input.class));
        stats.count(&format!("fit.curves.{}", match fit.as_ref().map(|f| f.len()) { None => "none", Some(1) => "1", Some(2..=4) => "2_to_4", Some(_) => "ge_5" }));
        println!("{}", line);
    }
    // ... fit_curve_loop (the same block loop with tangents taken across the ends of the list) ...
    for it in 0..(n / 8 + 30) {
        let mut input = crate::c08::gen_input(&mut rng2);
        if input.pts.len() > 450 && it % 4 != 0 { input.pts.truncate(3 + (it as usize * 11) % 90); }
        let max_error = if rng2.b() { rng2.r(0.05, 2.0) } else { 10f64.powf(rng2.r(-2.0, 0.3)) };
        let pts = input.pts.clone();
        let pts2 = pts.clone();
        let mut line = format!("C08 fitloop R {} #{}", hx(max_error), pts.len());
        for p in &pts { line += &format!(" {} {}", hx(p.0), hx(p.1)); }
        match std::panic::catch_unwind(move || fit_curve_loop::<Curve<Coord2>>(&pts2, max_error)) {
            Err(_) => { println!("{} | #2 #0", line); stats.count("fitloop.implementation_panicked"); continue; }
            Ok(None) => line += " | #0 #0",
            Ok(Some(cs)) => {
                line += &format!(" | #1 #{}", cs.len());
                for c in &cs { let (c1, c2) = c.control_points(); for q in [c.start_point(), c1, c2, c.end_point()] { line += &format!(" {} {}", hx(q.0), hx(q.1)); } }
            }
        }
        stats.case(&format!("fitloop {} {}", input.class, pts.len()), pts.len() >= 3);
        stats.count(&format!("fitloop.len.{}", if pts.len() < 200 { "lt_200" } else { "ge_200" }));
        println!("{}", line);
    }
    // ... and fit_curve_cubic with tangents of the caller's choice (not unit length, not related to the points)
    for it in 0..(n / 8 + 20) {
        let mut input = crate::c08::gen_input(&mut rng2);
        if input.pts.len() < 2 { continue; }
        input.pts.truncate(2 + (it as usize * 5) % 40);
        let pts = input.pts.clone();
        let st = Coord2(rng2.r(-2.0, 2.0), rng2.r(-2.0, 2.0));
        let et = if it % 4 == 0 { Coord2(0.0, 0.0) } else { Coord2(rng2.r(-2.0, 2.0), rng2.r(-2.0, 2.0)) };
        let max_error = 10f64.powf(rng2.r(-2.0, 0.3));
        let pts2 = pts.clone();
        let cs = match std::panic::catch_unwind(move || fit_curve_cubic::<Curve<Coord2>>(&pts2, &st, &et, max_error)) {
            Ok(c) => c,
            Err(_) => { stats.count("cubic.implementation_panicked"); println!("C08 cubic R {} {} {} {} {} #{} {} | #99999", hx(max_error), hx(st.0), hx(st.1), hx(et.0), hx(et.1), pts.len(), pts.iter().map(|p| format!("{} {}", hx(p.0), hx(p.1))).collect::<Vec<_>>().join(" ")); continue; }
        };
        let mut line = format!("C08 cubic R {} {} {} {} {} #{}", hx(max_error), hx(st.0), hx(st.1), hx(et.0), hx(et.1), pts.len());
        for p in &pts { line += &format!(" {} {}", hx(p.0), hx(p.1)); }
        line += &format!(" | #{}", cs.len());
        for c in &cs { let (c1, c2) = c.control_points(); for q in [c.start_point(), c1, c2, c.end_point()] { line += &format!(" {} {}", hx(q.0), hx(q.1)); } }
        stats.case(&format!("cubic {} {}", input.class, pts.len()), pts.len() >= 3);
        stats.count(&format!("cubic.curves.{}", match cs.len() { 1 => "1", 2..=4 => "2_to_4", _ => "ge_5" }));
        println!("{}", line);
    }
    stats.print("C08", "corr");
}
