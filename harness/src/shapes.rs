//! Shared geometry for the path properties (C01, C02, C03, C07, C11, C12, C14, C16): an independent flatten / winding
//! number oracle, shape builders, the input generators named in the quantifier texts, the fixed tangent corpus and the
//! panic / hang guard. Nothing here calls into the code under test except the `Circle` builder and `BezierPathBuilder`.
use crate::util::*;
use flo_curves::arc::*;
use flo_curves::bezier::path::*;
use flo_curves::*;
use std::sync::Once;

pub type P = SimpleBezierPath;
pub type Poly = Vec<Coord2>;
pub type Cubic = [Coord2; 4];

pub const TAU: f64 = std::f64::consts::TAU;

// ------------------------------------------------------------------------------------------------ guard

pub enum Guard<T> { Done(T), Panic, Hang }

static HOOK: Once = Once::new();
static LAST_PANIC: std::sync::Mutex<String> = std::sync::Mutex::new(String::new());
/// panics of the code under test are reported as failures, not as stderr noise; the message and location of the last
/// panic are kept for the failure detail
pub fn quiet_panics() {
    HOOK.call_once(|| std::panic::set_hook(Box::new(|info| {
        let msg = info.to_string().replace('\n', " ");
        if let Ok(mut g) = LAST_PANIC.lock() { *g = msg; }
    })));
}
pub fn last_panic() -> String { LAST_PANIC.lock().map(|g| g.clone()).unwrap_or_default() }

/// runs `f` on a helper thread: a panic and a run time above `secs` seconds are outcomes, not crashes.
/// A hung helper thread is abandoned (it keeps spinning until the process exits).
pub fn guarded<T: Send + 'static, F: FnOnce() -> T + Send + 'static>(secs: u64, f: F) -> Guard<T> {
    quiet_panics();
    let (tx, rx) = std::sync::mpsc::channel();
    let spawned = std::thread::Builder::new().stack_size(64 << 20).spawn(move || {
        let r = std::panic::catch_unwind(std::panic::AssertUnwindSafe(f));
        let _ = tx.send(r.map_err(|_| ()));
    });
    if spawned.is_err() { return Guard::Panic; }
    match rx.recv_timeout(std::time::Duration::from_secs(secs)) {
        Ok(Ok(v)) => Guard::Done(v),
        Ok(Err(())) => Guard::Panic,
        Err(std::sync::mpsc::RecvTimeoutError::Timeout) => Guard::Hang,
        Err(std::sync::mpsc::RecvTimeoutError::Disconnected) => Guard::Panic,
    }
}

pub const HANG_SECS: u64 = 10;

/// `guarded` + the failure bookkeeping: key `panic.<operation>` / `hang.<operation>`
pub fn run_guarded<T: Send + 'static, F: FnOnce() -> T + Send + 'static>(stats: &mut Stats, prop: &str, operation: &str, detail: &dyn Fn() -> String, f: F) -> Option<T> {
    match guarded(HANG_SECS, f) {
        Guard::Done(v) => Some(v),
        Guard::Panic => { let m = last_panic(); stats.fail(prop, &format!("panic.{}{}", operation, panic_class(&m)), &format!("[{}] {}", m, detail())); None }
        Guard::Hang => { stats.fail(prop, &format!("hang.{}", operation), &format!("no result after {} s: {}", HANG_SECS, detail())); None }
    }
}

/// the call site of a panic, as a key suffix (so that a listed finding names one panic, not every panic of an operation)
pub fn panic_class(message: &str) -> &'static str {
    if message.contains("does not correctly implement a total order") { ".sort_comparator_not_a_total_order" }
    else if message.contains("unimplemented") || message.contains("not implemented") { ".unimplemented" }
    else if message.contains("index out of bounds") { ".index_out_of_bounds" }
    else if message.contains("unwrap") { ".unwrap_on_none" }
    else { "" }
}

/// panic guard without the helper thread, for operations that are not known to loop
pub fn run_caught<T, F: FnOnce() -> T>(stats: &mut Stats, prop: &str, operation: &str, detail: &dyn Fn() -> String, f: F) -> Option<T> {
    quiet_panics();
    match std::panic::catch_unwind(std::panic::AssertUnwindSafe(f)) {
        Ok(v) => Some(v),
        Err(_) => { let m = last_panic(); stats.fail(prop, &format!("panic.{}{}", operation, panic_class(&m)), &format!("[{}] {}", m, detail())); None }
    }
}

// ------------------------------------------------------------------------------------------------ cubic evaluation (own code)

pub fn cubics(p: &P) -> Vec<Cubic> {
    let mut out = Vec::with_capacity(p.1.len());
    let mut last = p.0;
    for (c1, c2, e) in &p.1 { out.push([last, *c1, *c2, *e]); last = *e; }
    out
}

pub fn bez(c: &Cubic, t: f64) -> Coord2 {
    if t == 0.0 { return c[0]; }
    if t == 1.0 { return c[3]; }
    let s = 1.0 - t;
    c[0] * (s * s * s) + c[1] * (3.0 * s * s * t) + c[2] * (3.0 * s * t * t) + c[3] * (t * t * t)
}

pub fn bez_d(c: &Cubic, t: f64) -> Coord2 {
    let s = 1.0 - t;
    (c[1] - c[0]) * (3.0 * s * s) + (c[2] - c[1]) * (6.0 * s * t) + (c[3] - c[2]) * (3.0 * t * t)
}

pub fn split(c: &Cubic, t: f64) -> (Cubic, Cubic) {
    let l = |a: Coord2, b: Coord2| a + (b - a) * t;
    let (p01, p12, p23) = (l(c[0], c[1]), l(c[1], c[2]), l(c[2], c[3]));
    let (p012, p123) = (l(p01, p12), l(p12, p23));
    let m = l(p012, p123);
    ([c[0], p01, p012, m], [m, p123, p23, c[3]])
}

pub fn cross(a: Coord2, b: Coord2) -> f64 { a.0 * b.1 - a.1 * b.0 }
pub fn dot(a: Coord2, b: Coord2) -> f64 { a.0 * b.0 + a.1 * b.1 }
pub fn len(a: Coord2) -> f64 { (a.0 * a.0 + a.1 * a.1).sqrt() }
pub fn dist(a: Coord2, b: Coord2) -> f64 { len(a - b) }

/// the control points lie on the chord, between its ends: the curve traces exactly the chord
pub fn is_straight(c: &Cubic) -> bool {
    let d = c[3] - c[0];
    let l2 = dot(d, d);
    if l2 == 0.0 { return c[1] == c[0] && c[2] == c[0]; }
    for k in 1..3 {
        let v = c[k] - c[0];
        if cross(v, d).abs() > 1e-12 * l2 { return false; }
        let s = dot(v, d) / l2;
        if s < 0.0 || s > 1.0 { return false; }
    }
    true
}

/// polyline with `per_curve` points per curved edge (a straight edge contributes its start point only); the path's
/// own vertices are kept bit-exact, so the polyline passes through every vertex of the path
pub fn flatten_n(p: &P, per_curve: usize) -> Poly {
    let mut out = vec![];
    for c in cubics(p) {
        if is_straight(&c) { out.push(c[0]); continue; }
        for k in 0..per_curve { out.push(bez(&c, k as f64 / per_curve as f64)); }
    }
    out
}
pub fn flatten(p: &P) -> Poly { flatten_n(p, 48) }
pub fn flatten_fine(p: &P) -> Poly { flatten_n(p, 384) }
pub fn flatten_set(ps: &[P]) -> Vec<Poly> { ps.iter().map(flatten).collect() }
pub fn flatten_set_fine(ps: &[P]) -> Vec<Poly> { ps.iter().map(flatten_fine).collect() }

pub fn dist_seg(p: Coord2, a: Coord2, b: Coord2) -> f64 {
    let ab = b - a;
    let l2 = dot(ab, ab);
    if l2 == 0.0 { return dist(p, a); }
    let t = (dot(p - a, ab) / l2).max(0.0).min(1.0);
    dist(p, a + ab * t)
}
/// distance from a closed polyline
pub fn dist_poly(p: Coord2, poly: &Poly) -> f64 {
    let n = poly.len();
    let mut d = f64::MAX;
    for i in 0..n { d = d.min(dist_seg(p, poly[i], poly[(i + 1) % n])); }
    d
}
pub fn dist_polys(p: Coord2, polys: &[Poly]) -> f64 { polys.iter().fold(f64::MAX, |d, q| d.min(dist_poly(p, q))) }

/// winding number of a closed polyline about a point (signed crossing count of the ray to +x)
pub fn winding(p: Coord2, poly: &Poly) -> i32 {
    let n = poly.len();
    let mut w = 0;
    for i in 0..n {
        let (a, b) = (poly[i], poly[(i + 1) % n]);
        if a.1 <= p.1 {
            if b.1 > p.1 && (b.0 - a.0) * (p.1 - a.1) - (p.0 - a.0) * (b.1 - a.1) > 0.0 { w += 1; }
        } else if b.1 <= p.1 && (b.0 - a.0) * (p.1 - a.1) - (p.0 - a.0) * (b.1 - a.1) < 0.0 { w -= 1; }
    }
    w
}
pub fn winding_sum(p: Coord2, polys: &[Poly]) -> i32 { polys.iter().map(|q| winding(p, q)).sum() }
/// even-odd rule over the sub-paths of a set (odd total crossing number)
pub fn evenodd(p: Coord2, polys: &[Poly]) -> bool { winding_sum(p, polys).rem_euclid(2) == 1 }

/// proper crossing of two segments (interiors)
pub fn segs_cross(a: Coord2, b: Coord2, c: Coord2, d: Coord2) -> bool {
    let (r, s) = (b - a, d - c);
    let den = cross(r, s);
    if den == 0.0 { return false; }
    let t = cross(c - a, s) / den;
    let u = cross(c - a, r) / den;
    t > 0.0 && t < 1.0 && u > 0.0 && u < 1.0
}
/// no two non-adjacent segments of the closed polyline cross
pub fn poly_is_simple(poly: &Poly) -> bool {
    let n = poly.len();
    for i in 0..n { for j in (i + 2)..n {
        if i == 0 && j == n - 1 { continue; }
        if segs_cross(poly[i], poly[(i + 1) % n], poly[j], poly[(j + 1) % n]) { return false; }
    } }
    true
}

pub fn bbox_of(polys: &[Poly]) -> (Coord2, Coord2) {
    let (mut mn, mut mx) = (Coord2(f64::MAX, f64::MAX), Coord2(f64::MIN, f64::MIN));
    for q in polys { for p in q { mn = Coord2(mn.0.min(p.0), mn.1.min(p.1)); mx = Coord2(mx.0.max(p.0), mx.1.max(p.1)); } }
    (mn, mx)
}

pub fn vertices(p: &P) -> Vec<Coord2> { cubics(p).iter().map(|c| c[0]).collect() }

pub fn path_is_finite(p: &P) -> bool {
    let f = |q: &Coord2| q.0.is_finite() && q.1.is_finite();
    f(&p.0) && p.1.iter().all(|(a, b, c)| f(a) && f(b) && f(c))
}

// ------------------------------------------------------------------------------------------------ builders

pub fn polygon(pts: &[Coord2]) -> P {
    let mut b = BezierPathBuilder::<P>::start(pts[0]);
    for q in &pts[1..] { b = b.line_to(*q); }
    b.line_to(pts[0]).build()
}
pub fn rect(x0: f64, y0: f64, x1: f64, y1: f64) -> P { polygon(&[Coord2(x0, y0), Coord2(x1, y0), Coord2(x1, y1), Coord2(x0, y1)]) }
/// the library's circle; its last end point is set to its start point (the builder computes the two at angles 2 pi apart
/// and they can differ by an ulp, which would make the input an unclosed path)
pub fn circle(x: f64, y: f64, r: f64) -> P {
    let mut p = Circle::new(Coord2(x, y), r).to_path::<P>();
    let start = p.0;
    if let Some(last) = p.1.last_mut() { last.2 = start; }
    p
}
pub fn map_path(p: &P, f: &dyn Fn(Coord2) -> Coord2) -> P { (f(p.0), p.1.iter().map(|(a, b, c)| (f(*a), f(*b), f(*c))).collect()) }
pub fn rotated_about(p: &P, centre: Coord2, angle: f64) -> P {
    let (s, c) = angle.sin_cos();
    map_path(p, &|q| { let d = q - centre; Coord2(centre.0 + d.0 * c - d.1 * s, centre.1 + d.0 * s + d.1 * c) })
}
/// the library circle turned by 45 degrees (its vertices move from the diagonals to the axis extremes or vice versa)
pub fn circle45(x: f64, y: f64, r: f64) -> P { rotated_about(&circle(x, y, r), Coord2(x, y), TAU / 8.0) }
pub fn transposed(p: &P) -> P { map_path(p, &|q| Coord2(q.1, q.0)) }

/// the same point set traversed the other way (own code, exact)
pub fn reversed(p: &P) -> P {
    let cs = cubics(p);
    if cs.is_empty() { return p.clone(); }
    let start = cs[cs.len() - 1][3];
    (start, cs.iter().rev().map(|c| (c[2], c[1], c[0])).collect())
}
/// the same closed curve chain started at its k-th vertex (exact)
pub fn rotate_start(p: &P, k: usize) -> P {
    let mut cs = cubics(p);
    if cs.is_empty() { return p.clone(); }
    let n = cs.len();
    cs.rotate_left(k % n);
    (cs[0][0], cs.iter().map(|c| (c[1], c[2], c[3])).collect())
}

/// smooth closed blob: Catmull-Rom spline through knots placed around the centre (C1, star shaped knots)
pub fn blob_from_knots(knots: &[Coord2]) -> P {
    let n = knots.len();
    let k = |i: usize| knots[i % n];
    let mut pts = vec![];
    for i in 0..n {
        let cp1 = k(i) + (k(i + 1) - k(i + n - 1)) * (1.0 / 6.0);
        let cp2 = k(i + 1) - (k(i + 2) - k(i)) * (1.0 / 6.0);
        pts.push((cp1, cp2, k(i + 1)));
    }
    (knots[0], pts)
}
pub fn blob(rng: &mut Rng, centre: Coord2, r: f64) -> P {
    loop {
        let n = 4 + rng.i(6) as usize;
        let knots: Vec<Coord2> = (0..n).map(|k| {
            let a = (k as f64 + rng.r(0.15, 0.85)) / n as f64 * TAU;
            let rr = r * rng.r(0.6, 1.0);
            Coord2(centre.0 + rr * a.cos(), centre.1 + rr * a.sin())
        }).collect();
        let p = blob_from_knots(&knots);
        if poly_is_simple(&flatten_n(&p, 12)) { return p; }
    }
}

/// star polygon {k/m}: every m-th of k points on a circle, straight edges, crosses itself (winding up to m in the core)
pub fn star_points(k: usize, m: usize, centre: Coord2, r: f64, rot: f64) -> Vec<Coord2> {
    (0..k).map(|i| { let a = ((i * m) % k) as f64 / k as f64 * TAU + rot; Coord2(centre.0 + r * a.cos(), centre.1 + r * a.sin()) }).collect()
}

/// random polygon, star shaped about its centre (convex or concave)
pub fn rand_polygon_points(rng: &mut Rng, centre: Coord2, r: f64, convex: bool) -> Vec<Coord2> {
    let n = 3 + rng.i(7) as usize;
    let (ex, ey) = (rng.r(0.5, 1.0), rng.r(0.5, 1.0));
    (0..n).map(|k| {
        let a = (k as f64 + rng.r(0.1, 0.9)) / n as f64 * TAU;
        let rr = if convex { r } else { r * rng.r(0.3, 1.0) };
        let (sx, sy) = if convex { (ex, ey) } else { (1.0, 1.0) };
        Coord2(centre.0 + rr * sx * a.cos(), centre.1 + rr * sy * a.sin())
    }).collect()
}

/// rectilinear polygon on the 10-grid (L shape): axis-parallel edges, one reflex corner
pub fn l_shape_points(x0: f64, y0: f64, w: f64, h: f64, cw: f64, ch: f64) -> Vec<Coord2> {
    vec![Coord2(x0, y0), Coord2(x0 + w, y0), Coord2(x0 + w, y0 + h - ch), Coord2(x0 + w - cw, y0 + h - ch), Coord2(x0 + w - cw, y0 + h), Coord2(x0, y0 + h)]
}

/// insert the mid point of every edge: consecutive collinear edges
pub fn with_collinear_vertices(pts: &[Coord2]) -> Vec<Coord2> {
    let n = pts.len();
    let mut out = vec![];
    for i in 0..n { out.push(pts[i]); out.push((pts[i] + pts[(i + 1) % n]) * 0.5); }
    out
}

// ------------------------------------------------------------------------------------------------ generators

#[derive(Clone, Debug)]
pub struct Shape { pub path: P, pub kind: &'static str, pub centre: Coord2, pub radius: f64 }

pub const KINDS: [&str; 8] = ["circle", "circle45", "blob", "polygon_concave", "polygon_convex", "grid_rect", "l_shape", "collinear_polygon"];

pub fn shape_of_kind(rng: &mut Rng, kind: &'static str, centre: Coord2, r: f64) -> Shape {
    let path = match kind {
        "circle" => circle(centre.0, centre.1, r),
        "circle45" => circle45(centre.0, centre.1, r),
        "blob" => blob(rng, centre, r),
        "polygon_concave" => polygon(&rand_polygon_points(rng, centre, r, false)),
        "polygon_convex" => polygon(&rand_polygon_points(rng, centre, r, true)),
        "collinear_polygon" => { let convex = rng.b(); polygon(&with_collinear_vertices(&rand_polygon_points(rng, centre, r, convex))) }
        "grid_rect" | "l_shape" => {
            // on the 10-grid, roughly centred: shares edges and corners with other grid shapes
            let w = 10.0 * (1 + rng.i(3)) as f64;
            let h = 10.0 * (1 + rng.i(3)) as f64;
            let x0 = ((centre.0 - w / 2.0) / 10.0).round() * 10.0;
            let y0 = ((centre.1 - h / 2.0) / 10.0).round() * 10.0;
            if kind == "grid_rect" || (w < 20.0 || h < 20.0) { rect(x0, y0, x0 + w, y0 + h) } else { polygon(&l_shape_points(x0, y0, w, h, 10.0, 10.0)) }
        }
        _ => unreachable!(),
    };
    Shape { path, kind, centre, radius: r }
}

pub fn rand_kind(rng: &mut Rng) -> &'static str { KINDS[rng.i(KINDS.len() as u64) as usize] }
pub fn rand_centre(rng: &mut Rng) -> Coord2 { Coord2(rng.r(30.0, 70.0), rng.r(30.0, 70.0)) }
pub fn rand_shape(rng: &mut Rng) -> Shape { let k = rand_kind(rng); let c = rand_centre(rng); let r = rng.r(5.0, 25.0); shape_of_kind(rng, k, c, r) }

/// either winding direction, any start vertex
pub fn redirect(rng: &mut Rng, p: &P) -> P {
    let q = if rng.b() { reversed(p) } else { p.clone() };
    let n = q.1.len().max(1);
    rotate_start(&q, rng.i(n as u64) as usize)
}

/// the shape with a hole cut by a shrunken copy of itself about its centre; the sub-paths do not touch (checked on the
/// flattening: a shape that is not star shaped about its centre gets a small circular hole instead, or none)
pub fn with_hole(rng: &mut Rng, s: &Shape) -> Vec<P> {
    let f = rng.r(0.3, 0.6);
    let outer = flatten(&s.path);
    let c = if s.kind == "grid_rect" || s.kind == "l_shape" { let (mn, mx) = bbox_of(&[outer.clone()]); (mn + mx) * 0.5 - Coord2(2.0, 2.0) } else { s.centre };
    let hole = map_path(&s.path, &|q| c + (q - c) * f);
    if flatten(&hole).iter().all(|q| winding(*q, &outer) != 0 && dist_poly(*q, &outer) > 0.5) { return vec![s.path.clone(), hole]; }
    let d = dist_poly(c, &outer);
    if winding(c, &outer) != 0 && d > 2.0 { return vec![s.path.clone(), circle(c.0, c.1, 0.4 * d)]; }
    vec![s.path.clone()]
}

#[derive(Clone, Debug)]
pub struct Pair { pub a: Vec<P>, pub b: Vec<P>, pub kind_a: String, pub kind_b: String, pub relation: &'static str, pub shared_edge: bool, pub vertex_on_boundary: bool,
    /// the input class for failure keys: the relation, plus the exact contacts found in the pair
    pub class: String }

fn rects_share_edge(a: &P, b: &P) -> bool {
    // straight axis-parallel edges of a and b that overlap along a positive length
    for ca in cubics(a) { for cb in cubics(b) {
        if !is_straight(&ca) || !is_straight(&cb) { continue; }
        let (a0, a1, b0, b1) = (ca[0], ca[3], cb[0], cb[3]);
        if a0.0 == a1.0 && b0.0 == b1.0 && a0.0 == b0.0 { if a0.1.max(a1.1).min(b0.1.max(b1.1)) - a0.1.min(a1.1).max(b0.1.min(b1.1)) > 0.0 { return true; } }
        if a0.1 == a1.1 && b0.1 == b1.1 && a0.1 == b0.1 { if a0.0.max(a1.0).min(b0.0.max(b1.0)) - a0.0.min(a1.0).max(b0.0.min(b1.0)) > 0.0 { return true; } }
    } }
    false
}

/// some two different sets have straight axis-parallel edges that overlap along a positive length
pub fn sets_share_edge(sets: &[Vec<P>]) -> bool {
    for i in 0..sets.len() { for j in (i + 1)..sets.len() { if sets[i].iter().any(|p| sets[j].iter().any(|q| rects_share_edge(p, q))) { return true; } } }
    false
}

/// pairs of path sets over the classes of the C01 quantifier
pub fn gen_pair(rng: &mut Rng) -> Pair {
    let choice = rng.i(14);
    let (a, b, ka, kb, relation): (Vec<P>, Vec<P>, String, String, &'static str) = match choice {
        0 | 1 | 2 | 3 => { let (s, t) = (rand_shape(rng), rand_shape(rng)); (vec![s.path], vec![t.path], s.kind.into(), t.kind.into(), "independent") }
        4 | 5 => {
            // grid-aligned rectangles / L shapes: share edges or corners most of the time
            let g = |rng: &mut Rng| { let c = Coord2(10.0 * (2 + rng.i(5)) as f64, 10.0 * (2 + rng.i(5)) as f64); let k = if rng.i(4) == 0 { "l_shape" } else { "grid_rect" }; shape_of_kind(rng, k, c, 10.0) };
            let (s, t) = (g(rng), g(rng));
            (vec![s.path], vec![t.path], s.kind.into(), t.kind.into(), "grid_aligned")
        }
        6 => {
            let k = ["circle", "circle45", "blob", "polygon_concave", "polygon_convex"][rng.i(5) as usize];
            let c = rand_centre(rng);
            let r = rng.r(12.0, 25.0);
            let s = shape_of_kind(rng, k, c, r);
            let f = rng.r(0.3, 0.8);
            let t: P = map_path(&s.path, &|q| c + (q - c) * f);
            if rng.b() { (vec![s.path], vec![t], k.into(), k.into(), "concentric") } else { (vec![t], vec![s.path], k.into(), k.into(), "concentric") }
        }
        7 => { let s = rand_shape(rng); let rel = if rng.i(3) == 0 { "identical_exact_copy" } else { "identical" }; (vec![s.path.clone()], vec![s.path], s.kind.into(), s.kind.into(), rel) }
        8 | 9 => {
            // tangent circles: centres at distance r1+r2 (external) or |r1-r2| (internal); contact on a vertex (multiples of 45
            // degrees cover both the library circle and its rotated form) or at a random angle
            let (r1, r2) = (rng.r(8.0, 20.0), rng.r(4.0, 12.0));
            let external = rng.b();
            let on_vertex = rng.b();
            let k8 = rng.i(8);
            let ang = if on_vertex { k8 as f64 * TAU / 8.0 } else { rng.r(0.0, TAU) };
            let c1 = if rng.b() { Coord2(50.0, 50.0) } else { rand_centre(rng) };
            let d = if external { r1 + r2 } else { (r1 - r2).abs() };
            let c2 = c1 + Coord2(ang.cos(), ang.sin()) * d;
            let k1 = if rng.b() { "circle" } else { "circle45" };
            let k2 = if rng.b() { "circle" } else { "circle45" };
            let (s, t) = (shape_of_kind(rng, k1, c1, r1), shape_of_kind(rng, k2, c2, r2));
            // the library circle has its vertices on the diagonals (odd multiples of 45 degrees), circle45 on the axes
            let on = |k: &str| on_vertex && ((k == "circle45") == (k8 % 2 == 0));
            let n_on = on(k1) as u32 + on(k2) as u32;
            let rel = match (external, n_on) {
                (true, 2) => "tangent_external.contact_on_vertex_of_both", (true, 1) => "tangent_external.contact_on_vertex_of_one", (true, _) => "tangent_external.contact_off_vertex",
                (false, 2) => "tangent_internal.contact_on_vertex_of_both", (false, 1) => "tangent_internal.contact_on_vertex_of_one", (false, _) => "tangent_internal.contact_off_vertex",
            };
            (vec![s.path], vec![t.path], k1.into(), k2.into(), rel)
        }
        10 | 11 => {
            // a shape centred on a vertex of the other shape
            let s = rand_shape(rng);
            let vs = vertices(&s.path);
            let v = vs[rng.i(vs.len() as u64) as usize];
            let k = rand_kind(rng);
            let r = rng.r(3.0, 12.0);
            let t = shape_of_kind(rng, k, v, r);
            (vec![s.path], vec![t.path], s.kind.into(), t.kind.into(), "centred_on_vertex")
        }
        _ => {
            // sets: holes and several sub-paths on one or both sides
            let set = |rng: &mut Rng| -> (Vec<P>, String) {
                match rng.i(3) {
                    0 => { let s = loop { let s = rand_shape(rng); if s.radius > 10.0 || s.kind == "grid_rect" || s.kind == "l_shape" { break s; } }; (with_hole(rng, &s), format!("{}+hole", s.kind)) }
                    1 => {
                        // two sub-paths in opposite corners of the area (disjoint by construction: radius <= 12, centres >= 30 apart)
                        let (k1, k2) = (rand_kind(rng), rand_kind(rng));
                        let c1 = Coord2(rng.r(25.0, 35.0), rng.r(25.0, 75.0));
                        let c2 = Coord2(rng.r(65.0, 75.0), rng.r(25.0, 75.0));
                        let (r1, r2) = (rng.r(5.0, 12.0), rng.r(5.0, 12.0));
                        let (s, t) = (shape_of_kind(rng, k1, c1, r1), shape_of_kind(rng, k2, c2, r2));
                        (vec![s.path, t.path], format!("{}+{}", k1, k2))
                    }
                    _ => { let s = rand_shape(rng); (vec![s.path], s.kind.into()) }
                }
            };
            let (a, ka) = set(rng);
            let (b, kb) = set(rng);
            (a, b, ka, kb, "sets")
        }
    };
    let shared_edge = a.iter().any(|p| b.iter().any(|q| rects_share_edge(p, q)));
    let a: Vec<P> = a.iter().map(|p| redirect(rng, p)).collect();
    // "identical": the same point set in any direction from any start vertex; "identical_exact_copy": the very same path
    let b: Vec<P> = if relation == "identical_exact_copy" { a.clone() } else { b.iter().map(|p| redirect(rng, p)).collect() };
    // a vertex of one set exactly on the boundary of the other (straight edges and vertex-to-vertex contacts are exact in the flattening)
    let (fa, fb) = (flatten_set(&a), flatten_set(&b));
    let vertex_on_boundary = a.iter().flat_map(|p| vertices(p)).any(|v| dist_polys(v, &fb) < 1e-9) || b.iter().flat_map(|p| vertices(p)).any(|v| dist_polys(v, &fa) < 1e-9);
    let class = format!("{}{}", relation, if shared_edge { ".shared_edge" } else if vertex_on_boundary && !relation.starts_with("identical") { ".vertex_on_boundary" } else { "" });
    Pair { a, b, kind_a: ka, kind_b: kb, relation, shared_edge, vertex_on_boundary, class }
}

pub fn count_pair(stats: &mut Stats, pair: &Pair) {
    stats.count(&format!("relation.{}", pair.relation));
    stats.count(&format!("kind.{}", pair.kind_a));
    stats.count(&format!("kind.{}", pair.kind_b));
    if pair.shared_edge { stats.count("has_shared_edge"); }
    if pair.vertex_on_boundary { stats.count("has_vertex_on_boundary"); }
    stats.count(&format!("class.{}", pair.class));
    if pair.a.len() > 1 || pair.b.len() > 1 { stats.count("has_several_subpaths"); }
}

// ------------------------------------------------------------------------------------------------ fixed corpus

/// exact tangential / identical / shared-edge contacts. (name, A, B)
pub fn tangent_corpus() -> Vec<(&'static str, Vec<P>, Vec<P>)> {
    let sq = |x0: f64, y0: f64, x1: f64, y1: f64| rect(x0, y0, x1, y1);
    let h = TAU / 8.0;
    let d45 = |r: f64| Coord2(r * h.cos(), r * h.sin());
    vec![
        // the library circle has its vertices on the diagonals, circle45 on the axis extremes
        ("ext_tangent_axis", vec![circle(30.0, 50.0, 10.0)], vec![circle(50.0, 50.0, 10.0)]),
        ("ext_tangent_axis_on_vertex", vec![circle45(30.0, 50.0, 10.0)], vec![circle45(50.0, 50.0, 10.0)]),
        ("ext_tangent_diagonal_on_vertex", vec![circle(30.0, 30.0, 10.0)], vec![circle(30.0 + d45(20.0).0, 30.0 + d45(20.0).1, 10.0)]),
        ("ext_tangent_off_vertex", vec![circle(30.0, 50.0, 10.0)], vec![circle(30.0 + 20.0 * 0.6, 50.0 + 20.0 * 0.8, 10.0)]),
        ("int_tangent_axis", vec![circle(50.0, 50.0, 20.0)], vec![circle(60.0, 50.0, 10.0)]),
        ("int_tangent_axis_on_vertex", vec![circle45(50.0, 50.0, 20.0)], vec![circle45(60.0, 50.0, 10.0)]),
        ("int_tangent_off_vertex", vec![circle(50.0, 50.0, 20.0)], vec![circle(50.0 + 10.0 * 0.6, 50.0 + 10.0 * 0.8, 10.0)]),
        ("identical_circles", vec![circle(50.0, 50.0, 20.0)], vec![circle(50.0, 50.0, 20.0)]),
        ("concentric_circles", vec![circle(50.0, 50.0, 20.0)], vec![circle(50.0, 50.0, 10.0)]),
        ("identical_rotated_start", vec![circle(50.0, 50.0, 20.0)], vec![rotate_start(&circle(50.0, 50.0, 20.0), 2)]),
        ("identical_reversed", vec![circle(50.0, 50.0, 20.0)], vec![reversed(&circle(50.0, 50.0, 20.0))]),
        ("circle_centred_on_rect_vertex", vec![sq(20.0, 20.0, 60.0, 60.0)], vec![circle(60.0, 60.0, 10.0)]),
        ("circle_centred_on_circle_vertex", vec![circle45(40.0, 50.0, 20.0)], vec![circle(60.0, 50.0, 8.0)]),
        ("rects_share_edge", vec![sq(20.0, 20.0, 40.0, 40.0)], vec![sq(40.0, 20.0, 60.0, 40.0)]),
        ("rects_share_partial_edge", vec![sq(20.0, 20.0, 40.0, 40.0)], vec![sq(40.0, 30.0, 60.0, 50.0)]),
        ("rects_share_corner", vec![sq(20.0, 20.0, 40.0, 40.0)], vec![sq(40.0, 40.0, 60.0, 60.0)]),
        ("rect_with_hole_vs_circle", vec![sq(10.0, 10.0, 90.0, 90.0), circle(50.0, 50.0, 20.0)], vec![circle(70.0, 50.0, 15.0)]),
        ("two_subpaths_vs_rect", vec![circle(30.0, 30.0, 10.0), circle(70.0, 70.0, 10.0)], vec![sq(25.0, 25.0, 75.0, 75.0)]),
        ("nested_rect_edge_aligned", vec![sq(20.0, 20.0, 60.0, 60.0)], vec![sq(20.0, 20.0, 40.0, 40.0)]),
        ("squares_partly_shared_edges", vec![sq(50.0, 40.0, 70.0, 60.0)], vec![sq(40.0, 40.0, 70.0, 70.0)]),
    ]
}

pub const VARIANTS: [&str; 4] = ["as_is", "a_reversed", "b_start_rotated", "operands_swapped"];
pub fn corpus_variant(a: &Vec<P>, b: &Vec<P>, variant: usize) -> (Vec<P>, Vec<P>) {
    match variant {
        0 => (a.clone(), b.clone()),
        1 => (a.iter().map(reversed).collect(), b.clone()),
        2 => (a.clone(), b.iter().map(|p| rotate_start(p, 1)).collect()),
        _ => (b.clone(), a.clone()),
    }
}

// ------------------------------------------------------------------------------------------------ membership oracle

/// a path set with its flattenings
pub struct Operand { pub flat: Vec<Poly>, pub fine: Vec<Poly> }
impl Operand {
    pub fn new(paths: &Vec<P>) -> Operand { Operand { flat: flatten_set(paths), fine: flatten_set_fine(paths) } }
    pub fn contains(&self, p: Coord2, fine: bool) -> bool { evenodd(p, if fine { &self.fine } else { &self.flat }) }
    pub fn winding(&self, p: Coord2, fine: bool) -> i32 { winding_sum(p, if fine { &self.fine } else { &self.flat }) }
}

/// `.vertex_near_boundary` when a vertex of one operand lies within 0.1 of (but not exactly on) the boundary of another:
/// a crossing next to a vertex is a recognisable special configuration of the input (collisions there are snapped to the vertex)
pub fn near_contact_suffix(sets: &[&Vec<P>]) -> &'static str {
    let flats: Vec<Vec<Poly>> = sets.iter().map(|s| flatten_set_fine(s)).collect();
    for (i, si) in sets.iter().enumerate() {
        for path in si.iter() {
            for v in vertices(path) {
                for (j, fj) in flats.iter().enumerate() {
                    if i == j { continue; }
                    let d = dist_polys(v, fj);
                    if d > 1e-9 && d < 0.1 { return ".vertex_near_boundary"; }
                }
            }
        }
    }
    ""
}

/// for operand lists without a relation class of their own (chains, expression trees): `.boundaries_touch` when a vertex of one
/// operand lies exactly on the boundary of another (identical operands, shared edges, vertex contacts), else as `near_contact_suffix`
pub fn contact_suffix_all(sets: &[&Vec<P>]) -> &'static str {
    let flats: Vec<Vec<Poly>> = sets.iter().map(|s| flatten_set_fine(s)).collect();
    for (i, si) in sets.iter().enumerate() {
        for path in si.iter() {
            for v in vertices(path) {
                for (j, fj) in flats.iter().enumerate() {
                    if i != j && dist_polys(v, fj) <= 1e-9 { return ".boundaries_touch"; }
                }
            }
        }
    }
    near_contact_suffix(sets)
}

/// `.crossings_close_together` when two crossings of the boundaries of different operands / sub-paths lie within 0.25 of each other
/// (three boundaries through nearly one point, or two boundaries crossing twice in quick succession): collisions closer than the
/// library's snapping distances are merged, a recognisable special configuration of the input like the contact classes above.
/// Computed on the 48-segments-per-curve flattening; only pairs of different sets are intersected.
pub fn close_crossings_suffix(sets: &[&Vec<P>]) -> &'static str {
    let flats: Vec<Vec<Poly>> = sets.iter().map(|s| flatten_set(s)).collect();
    let mut xs: Vec<Coord2> = vec![];
    for i in 0..flats.len() {
        for j in (i + 1)..flats.len() {
            for pa in &flats[i] { for pb in &flats[j] {
                let (na, nb) = (pa.len(), pb.len());
                for ka in 0..na {
                    let (a, b) = (pa[ka], pa[(ka + 1) % na]);
                    let (ax0, ax1, ay0, ay1) = (a.0.min(b.0), a.0.max(b.0), a.1.min(b.1), a.1.max(b.1));
                    for kb in 0..nb {
                        let (c, d) = (pb[kb], pb[(kb + 1) % nb]);
                        if c.0.max(d.0) < ax0 || c.0.min(d.0) > ax1 || c.1.max(d.1) < ay0 || c.1.min(d.1) > ay1 { continue; }
                        if segs_cross(a, b, c, d) {
                            let (r, q) = (b - a, d - c);
                            let den = cross(r, q);
                            if den != 0.0 { let t = cross(c - a, q) / den; xs.push(a + r * t); }
                        }
                    }
                }
            } }
        }
    }
    for i in 0..xs.len() { for j in (i + 1)..xs.len() { let d = dist(xs[i], xs[j]); if d > 1e-9 && d < 0.25 { return ".crossings_close_together"; } } }
    ""
}

/// a closed shape made of one section (teardrop) or two (lens of two arcs)
pub fn few_section_shape(rng: &mut Rng) -> P {
    let c = Coord2(rng.r(30.0, 70.0), rng.r(30.0, 70.0));
    let a = rng.r(0.0, TAU);
    let r = rng.r(15.0, 35.0);
    let u = Coord2(a.cos(), a.sin());
    let v = Coord2(-u.1, u.0);
    if rng.b() {
        let k = rng.r(0.5, 1.0);
        (c, vec![(c + (u * 1.0 - v * k) * r, c + (u * 1.0 + v * k) * r, c)])
    } else {
        let (p, q) = (c - u * r, c + u * r);
        let (b1, b2) = (rng.r(0.3, 0.9) * r, rng.r(0.3, 0.9) * r);
        (p, vec![(p + u * (r * 0.6) + v * b1, q - u * (r * 0.6) + v * b1, q), (q - u * (r * 0.6) - v * b2, p + u * (r * 0.6) - v * b2, p)])
    }
}

/// the property's margin from every input boundary, plus the flattening error of the oracle (<= 0.005 for radius <= 30)
pub const MARGIN: f64 = 0.25;
pub const MARGIN_SLACK: f64 = 0.01;

/// probe points: uniform over the bounding area, plus points just outside the margin on both sides of the boundaries
/// (the most sensitive ones). All are at least MARGIN + MARGIN_SLACK from every input polyline.
pub fn probes(rng: &mut Rng, inputs: &[&Operand], n_uniform: usize, n_near: usize) -> Vec<Coord2> {
    let all: Vec<Poly> = inputs.iter().flat_map(|o| o.flat.iter().cloned()).filter(|q| !q.is_empty()).collect();
    if all.is_empty() { return (0..n_uniform).map(|_| Coord2(rng.r(0.0, 100.0), rng.r(0.0, 100.0))).collect(); }
    let (mn, mx) = bbox_of(&all);
    let mut out = vec![];
    for _ in 0..n_uniform { out.push(Coord2(rng.r(mn.0 - 3.0, mx.0 + 3.0), rng.r(mn.1 - 3.0, mx.1 + 3.0))); }
    for _ in 0..n_near {
        let q = &all[rng.i(all.len() as u64) as usize];
        let i = rng.i(q.len() as u64) as usize;
        let (a, b) = (q[i], q[(i + 1) % q.len()]);
        let d = b - a;
        let l = len(d);
        if l == 0.0 { continue; }
        let nrm = Coord2(-d.1 / l, d.0 / l);
        let off = rng.r(MARGIN + 0.02, 0.8) * if rng.b() { 1.0 } else { -1.0 };
        out.push(a + d * rng.f() + nrm * off);
    }
    out.into_iter().filter(|p| dist_polys(*p, &all) >= MARGIN + MARGIN_SLACK).collect()
}

/// the output of a path operation is a finite closed curve chain: keys `output_not_finite`, `output_not_closed`, `output_empty_subpath`
pub fn check_output_paths(stats: &mut Stats, prop: &str, op: &str, res: &Vec<P>, detail: &dyn Fn() -> String) {
    for (i, sp) in res.iter().enumerate() {
        if !path_is_finite(sp) { stats.fail(prop, "output_not_finite", &format!("op={} sub-path {} = {:?} {}", op, i, sp, detail())); continue; }
        match sp.1.last() {
            None => stats.fail(prop, "output_empty_subpath", &format!("op={} sub-path {} has a start point and no curve {}", op, i, detail())),
            Some((_, _, end)) => if !(end.0 == sp.0 .0 && end.1 == sp.0 .1) { stats.fail(prop, "output_not_closed", &format!("op={} sub-path {} starts at {:?} and ends at {:?} {}", op, i, sp.0, end, detail())); }
        }
    }
}

/// number of probes at which the even-odd interior of `res` differs from the expected set, and the first such probe
/// (probe, in_result, expected, distance from the result's boundary). A disagreement on the 48-point flattening is
/// re-evaluated with the 384-point flattening of result and inputs and only counted if it persists.
pub fn wrong_probes(stats: &mut Stats, res: &Vec<P>, probes: &[Coord2], want: &dyn Fn(Coord2, bool) -> bool) -> (usize, Option<(Coord2, bool, bool, f64)>) {
    let fr = flatten_set(res);
    let mut fine: Option<Vec<Poly>> = None;
    let mut wrong = 0;
    let mut first = None;
    for p in probes {
        let got = evenodd(*p, &fr);
        if got == want(*p, false) { continue; }
        if fine.is_none() { fine = Some(flatten_set_fine(res)); }
        let got2 = evenodd(*p, fine.as_ref().unwrap());
        let want2 = want(*p, true);
        if got2 == want2 { stats.count("recheck_resolved_disagreement"); continue; }
        wrong += 1;
        if first.is_none() { first = Some((*p, got2, want2, dist_polys(*p, fine.as_ref().unwrap()))); }
    }
    (wrong, first)
}

/// membership of a result against the expected set at the probes; one failure per result. Returns true if the result
/// agrees at every probe.
pub fn check_membership(stats: &mut Stats, prop: &str, key: &str, res: &Vec<P>, probes: &[Coord2], want: &dyn Fn(Coord2, bool) -> bool, detail: &dyn Fn() -> String) -> bool {
    let (wrong, first) = wrong_probes(stats, res, probes, want);
    stats.add("probes", probes.len() as u64);
    // a failure outside every recognisable input class (general position) is keyed by the input itself: a recorded failure is then one
    // specific input, and any other input still alarms
    const MARKERS: [&str; 10] = ["tangent", "identical", "shared_edge", "vertex_on_boundary", "vertex_near_boundary", "boundaries_touch", "repeated_operand", "crossings_close_together", "empty_", ".input_"];
    let key = &if MARKERS.iter().any(|m| key.contains(m)) { key.to_string() } else { format!("{}.input_{:016x}", key, fnv(&detail())) };
    if let Some((p, got, want, d)) = first {
        stats.fail(prop, key, &format!("{} of {} probes wrong; probe={:?} in_result={} expected={} ({}) result={:?} {}", wrong, probes.len(), p, got, want, if d == f64::MAX { "the result is empty".to_string() } else { format!("probe is {:.4} from the result's boundary", d) }, res, detail()));
        return false;
    }
    true
}
