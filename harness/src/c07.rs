//! C07: path_contains_point agrees with the winding number of the path about the point, and does not depend on the
//! path's direction or start vertex.
use crate::shapes::*;
use crate::util::*;
use flo_curves::bezier::path::*;
use flo_curves::*;

const PROP: &str = "C07";

fn contains(stats: &mut Stats, path: &P, p: Coord2) -> Option<bool> {
    run_caught(stats, PROP, "path_contains_point", &|| format!("point={:?} path={:?}", p, path), || path_contains_point(path, &p))
}

/// distance between two segments
fn seg_seg_dist(a: Coord2, b: Coord2, c: Coord2, d: Coord2) -> f64 {
    if segs_cross(a, b, c, d) { return 0.0; }
    dist_seg(a, c, d).min(dist_seg(b, c, d)).min(dist_seg(c, a, b)).min(dist_seg(d, a, b))
}

/// the points of an edge where its tangent is parallel to `dir` (for a straight edge parallel to `dir`: None = the whole edge)
fn tangent_points(c: &Cubic, dir: Coord2) -> Option<Vec<Coord2>> {
    let f = |t: f64| { let d = bez_d(c, t); let l = len(d); if l == 0.0 { 0.0 } else { cross(d, dir) / l } };
    if is_straight(c) {
        let d = c[3] - c[0];
        let l = len(d);
        return if l == 0.0 || (cross(d, dir) / l).abs() < 1e-9 { None } else { Some(vec![]) };
    }
    let n = 64;
    let mut out = vec![];
    let mut prev = f(0.0);
    if prev.abs() < 1e-9 { out.push(c[0]); }
    for k in 1..=n {
        let t = k as f64 / n as f64;
        let cur = f(t);
        if cur.abs() < 1e-9 { out.push(bez(c, t)); }
        else if prev * cur < 0.0 {
            let (mut lo, mut hi, flo) = ((k - 1) as f64 / n as f64, t, prev);
            for _ in 0..50 { let m = (lo + hi) / 2.0; if f(m) * flo > 0.0 { lo = m; } else { hi = m; } }
            out.push(bez(c, (lo + hi) / 2.0));
        }
        prev = cur;
    }
    Some(out)
}

/// smallest |sin| of the angle at which the segment crosses the flattened boundary (1.0 if it does not cross)
fn min_crossing_sin(a: Coord2, b: Coord2, poly: &Poly) -> f64 {
    let n = poly.len();
    let mut m: f64 = 1.0;
    for i in 0..n {
        let (c, d) = (poly[i], poly[(i + 1) % n]);
        if segs_cross(a, b, c, d) { let (r, s) = (b - a, d - c); m = m.min((cross(r, s) / (len(r) * len(s))).abs()); }
    }
    m
}

fn check_path(stats: &mut Stats, rng: &mut Rng, path: &P, kind: &str, n_points: usize) {
    let flat = flatten(path);
    let fine = flatten_fine(path);
    let cs = cubics(path);
    let verts = vertices(path);
    let (mn, mx) = bbox_of(&[fine.clone()]);
    // the ray of the implementation starts at the bounding box's max corner + (0.01, 0.01); use the library's own box
    let (_, lib_max): (Coord2, Coord2) = path.bounding_box();
    let corner = lib_max + Coord2(0.01, 0.01);
    let rev = reversed(path);
    let rot = rotate_start(path, 1 + rng.i(verts.len().max(1) as u64) as usize);
    for k in 0..n_points {
        // query points: uniform in and around the box; level with a vertex; level with both (on the lines through vertices)
        let (p, pclass) = match k % 6 {
            5 => {
                // the ray passes a vertex at 0.1 .. 0.3 and ends beyond it
                let v = verts[rng.i(verts.len() as u64) as usize];
                let d = v - corner;
                let l = len(d);
                if l < 1.0 { (Coord2(rng.r(mn.0, mx.0), rng.r(mn.1, mx.1)), "uniform") } else {
                    let nrm = Coord2(-d.1 / l, d.0 / l);
                    let through = v + nrm * (rng.r(0.1, 0.3) * if rng.b() { 1.0 } else { -1.0 });
                    (corner + (through - corner) * rng.r(1.02, 1.6), "ray_passes_vertex_at_0.1_to_0.3")
                }
            }
            0 | 1 => (Coord2(rng.r(mn.0 - 3.0, mx.0 + 3.0), rng.r(mn.1 - 3.0, mx.1 + 3.0)), "uniform"),
            2 => (Coord2(rng.r(mn.0 - 3.0, mx.0 + 3.0), verts[rng.i(verts.len() as u64) as usize].1), "level_with_vertex_y"),
            3 => (Coord2(verts[rng.i(verts.len() as u64) as usize].0, rng.r(mn.1 - 3.0, mx.1 + 3.0)), "level_with_vertex_x"),
            _ => (Coord2(verts[rng.i(verts.len() as u64) as usize].0, verts[rng.i(verts.len() as u64) as usize].1), "vertex_x_and_vertex_y"),
        };
        stats.count(&format!("point.{}", pclass));
        // domain: farther than 0.1 from the boundary
        if dist_poly(p, &fine) <= 0.1 + 0.005 { stats.excluded += 1; stats.count("excluded.point_within_0.1_of_boundary"); continue; }
        // precondition on the segment from the point to the corner
        if verts.iter().any(|v| dist(*v, corner) < 0.1) { stats.excluded += 1; stats.count("excluded.segment_starts_within_0.1_of_vertex(box_corner_is_a_vertex)"); continue; }
        if verts.iter().any(|v| dist_seg(*v, corner, p) < 0.1) { stats.excluded += 1; stats.count("excluded.segment_within_0.1_of_vertex"); continue; }
        let dir = p - corner;
        let mut tangent = false;
        for c in &cs {
            match tangent_points(c, dir) {
                None => if seg_seg_dist(corner, p, c[0], c[3]) < 0.2 { tangent = true; },
                Some(ts) => if ts.iter().any(|t| dist_seg(*t, corner, p) < 0.2) { tangent = true; },
            }
            if tangent { break; }
        }
        if tangent { stats.excluded += 1; stats.count("excluded.segment_near_tangent_point"); continue; }
        let want = winding(p, &flat) != 0;
        if (winding(p, &fine) != 0) != want { stats.excluded += 1; stats.count("excluded.oracle_flattenings_disagree"); continue; }
        if want { stats.count("point.inside"); } else { stats.count("point.outside"); }
        let sin = min_crossing_sin(corner, p, &fine);
        let cfg = if sin < 0.05 { "glancing_crossing" } else { "generic" };
        let detail = || format!("point={:?} ({}) kind={} ray_from={:?} winding={} min_crossing_sin={:.4} path={:?}", p, pclass, kind, corner, winding(p, &fine), sin, path);
        let got = match contains(stats, path, p) { Some(g) => g, None => continue };
        stats.count("points_evaluated");
        if got != want { stats.fail(PROP, &format!("contains_vs_winding.{}.{}", cfg, if want { "inside_reported_outside" } else { "outside_reported_inside" }), &format!("path_contains_point={} {}", got, detail())); }
        if let Some(g2) = contains(stats, &rev, p) { if g2 != got { stats.fail(PROP, &format!("reversal_changes_answer.{}", cfg), &format!("as given: {} reversed: {} reversed_path={:?} {}", got, g2, rev, detail())); } }
        if let Some(g3) = contains(stats, &rot, p) { if g3 != got { stats.fail(PROP, &format!("start_vertex_changes_answer.{}", cfg), &format!("as given: {} other start vertex: {} rotated_path={:?} {}", got, g3, rot, detail())); } }
    }
}

pub fn search(seed: u64, n: u64) {
    quiet_panics();
    let mut rng = Rng(seed ^ 0x5EA2C07);
    let mut stats = Stats::new();
    // fixed: circle, rotated circle, square, L shape, polygon with collinear vertices
    let fixed: Vec<(&str, P)> = vec![
        ("circle", circle(50.0, 50.0, 20.0)),
        ("circle45", circle45(50.0, 50.0, 20.0)),
        ("grid_rect", rect(20.0, 30.0, 60.0, 50.0)),
        ("l_shape", polygon(&l_shape_points(20.0, 20.0, 40.0, 30.0, 20.0, 10.0))),
        ("collinear_polygon", polygon(&with_collinear_vertices(&[Coord2(20.0, 20.0), Coord2(70.0, 30.0), Coord2(60.0, 70.0), Coord2(30.0, 60.0)]))),
    ];
    for (kind, p) in &fixed {
        stats.case(&format!("corpus {} {:?}", kind, p), true);
        stats.count(&format!("corpus.{}", kind));
        check_path(&mut stats, &mut rng, p, kind, 200);
    }
    for _ in 0..n {
        let s = rand_shape(&mut rng);
        let p = redirect(&mut rng, &s.path);
        stats.count(&format!("kind.{}", s.kind));
        stats.case(&format!("{} {:?}", s.kind, p), true);
        check_path(&mut stats, &mut rng, &p, s.kind, 100);
    }
    stats.print(PROP, "search");
}
