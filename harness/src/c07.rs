//! C07: path_contains_point agrees with the winding number of the path about the point, and does not depend on the
//! path's direction or start vertex.
use crate::shapes::*;
use crate::util::*;
use flo_curves::bezier::path::*;
use flo_curves::*;

const PROP: &str = "C07";

fn contains(stats: &mut Stats, path: &P, p: Coord2) -> Option<bool> {
    run_caught(stats, PROP, "path_contains_point", &|| format!("point={:?} path={:?}", p, path), || path_contains_point(path, &p))
}

/// distance between two segments
fn seg_seg_dist(a: Coord2, b: Coord2, c: Coord2, d: Coord2) -> f64 {
    if segs_cross(a, b, c, d) { return 0.0; }
    dist_seg(a, c, d).min(dist_seg(b, c, d)).min(dist_seg(c, a, b)).min(dist_seg(d, a, b))
}

/// the points of an edge where its tangent is parallel to `dir` (for a straight edge parallel to `dir`: None = the whole edge)
fn tangent_points(c: &Cubic, dir: Coord2) -> Option<Vec<Coord2>> {
    let f = |t: f64| { let d = bez_d(c, t); let l = len(d); if l == 0.0 { 0.0 } else { cross(d, dir) / l } };
    if is_straight(c) {
        let d = c[3] - c[0];
        let l = len(d);
        return if l == 0.0 || (cross(d, dir) / l).abs() < 1e-9 { None } else { Some(vec![]) };
    }
    let n = 64;
    let mut out = vec![];
    let mut prev = f(0.0);
    if prev.abs() < 1e-9 { out.push(c[0]); }
    for k in 1..=n {
        let t = k as f64 / n as f64;
        let cur = f(t);
        if cur.abs() < 1e-9 { out.push(bez(c, t)); }
        else if prev * cur < 0.0 {
            let (mut lo, mut hi, flo) = ((k - 1) as f64 / n as f64, t, prev);
            for _ in 0..50 { let m = (lo + hi) / 2.0; if f(m) * flo > 0.0 { lo = m; } else { hi = m; } }
            out.push(bez(c, (lo + hi) / 2.0));
        }
        prev = cur;
    }
    Some(out)
}

/// smallest |sin| of the angle at which the segment crosses the flattened boundary (1.0 if it does not cross)
fn min_crossing_sin(a: Coord2, b: Coord2, poly: &Poly) -> f64 {
    let n = poly.len();
    let mut m: f64 = 1.0;
    for i in 0..n {
        let (c, d) = (poly[i], poly[(i + 1) % n]);
        if segs_cross(a, b, c, d) { let (r, s) = (b - a, d - c); m = m.min((cross(r, s) / (len(r) * len(s))).abs()); }
    }
    m
}

/// points the property's precondition excludes (but which are farther than 0.1 from the boundary): evaluated for information
/// only - the agreement with the winding number is counted, a disagreement is not a failure of the property
fn outside_precondition(stats: &mut Stats, path: &P, p: Coord2, flat: &Poly, fine: &Poly, class: &str) {
    let want = winding(p, flat) != 0;
    if (winding(p, fine) != 0) != want { return; }
    match std::panic::catch_unwind(std::panic::AssertUnwindSafe(|| path_contains_point(path, &p))) {
        Ok(got) => stats.count(&format!("outside_precondition.{}.{}", class, if got == want { "agrees_with_winding" } else if want { "inside_reported_outside" } else { "outside_reported_inside" })),
        Err(_) => stats.count(&format!("outside_precondition.{}.panic", class)),
    }
}

fn check_path(stats: &mut Stats, rng: &mut Rng, path: &P, kind: &str, n_points: usize) {
    let flat = flatten(path);
    let fine = flatten_fine(path);
    let cs = cubics(path);
    let verts = vertices(path);
    let (mn, mx) = bbox_of(&[fine.clone()]);
    // the ray of the implementation starts at the bounding box's max corner + (0.01, 0.01); use the library's own box
    let (_, lib_max): (Coord2, Coord2) = path.bounding_box();
    let corner = lib_max + Coord2(0.01, 0.01);
    let rev = reversed(path);
    let rot = rotate_start(path, 1 + rng.i(verts.len().max(1) as u64) as usize);
    for k in 0..n_points {
        // query points: uniform in and around the box; level with a vertex; level with both (on the lines through vertices)
        let (p, pclass) = match k % 7 {
            6 => {
                // 0.15 .. 1.0 from the boundary, on either side (a tolerance relative to the ray length shows here on large shapes)
                let c = &cs[rng.i(cs.len() as u64) as usize];
                let t = rng.r(0.05, 0.95);
                let (a, b) = (bez(c, t - 0.01), bez(c, t + 0.01));
                let d = b - a; let l = len(d);
                if l < 1e-9 { (Coord2(rng.r(mn.0, mx.0), rng.r(mn.1, mx.1)), "uniform") } else {
                    (bez(c, t) + Coord2(-d.1 / l, d.0 / l) * (rng.r(0.15, 1.0) * if rng.b() { 1.0 } else { -1.0 }), "0.15_to_1.0_from_boundary")
                }
            }
            5 => {
                // the ray passes a vertex at 0.1 .. 0.3 and ends beyond it
                let v = verts[rng.i(verts.len() as u64) as usize];
                let d = v - corner;
                let l = len(d);
                if l < 1.0 { (Coord2(rng.r(mn.0, mx.0), rng.r(mn.1, mx.1)), "uniform") } else {
                    let nrm = Coord2(-d.1 / l, d.0 / l);
                    let through = v + nrm * (rng.r(0.1, 0.3) * if rng.b() { 1.0 } else { -1.0 });
                    (corner + (through - corner) * rng.r(1.02, 1.6), "ray_passes_vertex_at_0.1_to_0.3")
                }
            }
            0 | 1 => (Coord2(rng.r(mn.0 - 3.0, mx.0 + 3.0), rng.r(mn.1 - 3.0, mx.1 + 3.0)), "uniform"),
            2 => (Coord2(rng.r(mn.0 - 3.0, mx.0 + 3.0), verts[rng.i(verts.len() as u64) as usize].1), "level_with_vertex_y"),
            3 => (Coord2(verts[rng.i(verts.len() as u64) as usize].0, rng.r(mn.1 - 3.0, mx.1 + 3.0)), "level_with_vertex_x"),
            _ => (Coord2(verts[rng.i(verts.len() as u64) as usize].0, verts[rng.i(verts.len() as u64) as usize].1), "vertex_x_and_vertex_y"),
        };
        stats.count(&format!("point.{}", pclass));
        // domain: farther than 0.1 from the boundary
        if dist_poly(p, &fine) <= 0.1 + 0.005 { stats.excluded += 1; stats.count("excluded.point_within_0.1_of_boundary"); continue; }
        // precondition on the segment from the point to the corner
        if verts.iter().any(|v| dist(*v, corner) < 0.1) { stats.excluded += 1; stats.count("excluded.segment_starts_within_0.1_of_vertex(box_corner_is_a_vertex)"); outside_precondition(stats, path, p, &flat, &fine, "box_corner_is_a_vertex"); continue; }
        if verts.iter().any(|v| dist_seg(*v, corner, p) < 0.1) { stats.excluded += 1; stats.count("excluded.segment_within_0.1_of_vertex"); outside_precondition(stats, path, p, &flat, &fine, "segment_within_0.1_of_vertex"); continue; }
        let dir = p - corner;
        let mut tangent = false;
        for c in &cs {
            match tangent_points(c, dir) {
                None => if seg_seg_dist(corner, p, c[0], c[3]) < 0.2 { tangent = true; },
                Some(ts) => if ts.iter().any(|t| dist_seg(*t, corner, p) < 0.2) { tangent = true; },
            }
            if tangent { break; }
        }
        if tangent { stats.excluded += 1; stats.count("excluded.segment_near_tangent_point"); outside_precondition(stats, path, p, &flat, &fine, "segment_near_tangent_point"); continue; }
        let want = winding(p, &flat) != 0;
        if (winding(p, &fine) != 0) != want { stats.excluded += 1; stats.count("excluded.oracle_flattenings_disagree"); continue; }
        if want { stats.count("point.inside"); } else { stats.count("point.outside"); }
        let sin = min_crossing_sin(corner, p, &fine);
        let cfg = if sin < 0.05 { "glancing_crossing" } else { "generic" };
        let detail = || format!("point={:?} ({}) kind={} ray_from={:?} winding={} min_crossing_sin={:.4} path={:?}", p, pclass, kind, corner, winding(p, &fine), sin, path);
        let got = match contains(stats, path, p) { Some(g) => g, None => continue };
        stats.count("points_evaluated");
        if got != want { stats.fail(PROP, &format!("contains_vs_winding.{}.{}", cfg, if want { "inside_reported_outside" } else { "outside_reported_inside" }), &format!("path_contains_point={} {}", got, detail())); }
        if let Some(g2) = contains(stats, &rev, p) { if g2 != got { stats.fail(PROP, &format!("reversal_changes_answer.{}", cfg), &format!("as given: {} reversed: {} reversed_path={:?} {}", got, g2, rev, detail())); } }
        if let Some(g3) = contains(stats, &rot, p) { if g3 != got { stats.fail(PROP, &format!("start_vertex_changes_answer.{}", cfg), &format!("as given: {} other start vertex: {} rotated_path={:?} {}", got, g3, rot, detail())); } }
    }
}

pub fn search(seed: u64, n: u64) {
    quiet_panics();
    let mut rng = Rng(seed ^ 0x5EA2C07);
    let mut stats = Stats::new();
    // fixed: circle, rotated circle, square, L shape, polygon with collinear vertices
    let fixed: Vec<(&str, P)> = vec![
        ("circle", circle(50.0, 50.0, 20.0)),
        ("circle45", circle45(50.0, 50.0, 20.0)),
        ("grid_rect", rect(20.0, 30.0, 60.0, 50.0)),
        ("l_shape", polygon(&l_shape_points(20.0, 20.0, 40.0, 30.0, 20.0, 10.0))),
        ("collinear_polygon", polygon(&with_collinear_vertices(&[Coord2(20.0, 20.0), Coord2(70.0, 30.0), Coord2(60.0, 70.0), Coord2(30.0, 60.0)]))),
    ];
    for (kind, p) in &fixed {
        stats.case(&format!("corpus {} {:?}", kind, p), true);
        stats.count(&format!("corpus.{}", kind));
        check_path(&mut stats, &mut rng, p, kind, 200);
    }
    // closed paths with a section that returns to its own start (teardrops), alone and as a lobe of a polygon
    let mut rng_t = Rng(seed ^ 0x7EA2);
    for k in 0..(4 + n / 200) {
        let tip = Coord2(rng_t.r(20.0, 80.0), rng_t.r(20.0, 80.0));
        let a = rng_t.r(0.0, std::f64::consts::TAU);
        let (r, spread) = (rng_t.r(20.0, 60.0), rng_t.r(0.4, 1.0));
        let c1 = tip + Coord2((a - spread).cos(), (a - spread).sin()) * r;
        let c2 = tip + Coord2((a + spread).cos(), (a + spread).sin()) * r;
        let p: P = if k % 2 == 0 { (tip, vec![(c1, c2, tip)]) } else {
            // a triangle whose first vertex carries a teardrop lobe pointing away from it
            let (v1, v2) = (tip + Coord2((a + 2.5).cos(), (a + 2.5).sin()) * r, tip + Coord2((a - 2.5).cos(), (a - 2.5).sin()) * r);
            (tip, vec![(c1, c2, tip), (tip + (v1 - tip) * 0.33, tip + (v1 - tip) * 0.66, v1), (v1 + (v2 - v1) * 0.33, v1 + (v2 - v1) * 0.66, v2), (v2 + (tip - v2) * 0.33, v2 + (tip - v2) * 0.66, tip)])
        };
        stats.count("kind.teardrop");
        stats.case(&format!("teardrop {:?}", p), true);
        check_path(&mut stats, &mut rng_t, &p, "teardrop", 100);
    }
    // polygons whose sides are ALMOST straight cubics (control points 1e-5 .. 3e-2 of the side length off the chord) and outlines made of
    // quadratic arcs raised to cubics and written with 5 decimals (the cubic coefficient of the distance polynomial is tiny but not zero):
    // many query points each, because what goes wrong in the root solving shows on a few rays in a million (own stream)
    let mut rng_b = Rng(seed ^ 0xB0ED07);
    for k in 0..(6 + n / 25) {
        let nv = 3 + rng_b.i(6) as usize;
        let c = Coord2(rng_b.r(35.0, 65.0), rng_b.r(35.0, 65.0));
        let a0 = rng_b.r(0.0, std::f64::consts::TAU);
        let vs: Vec<Coord2> = (0..nv).map(|i| { let a = a0 + std::f64::consts::TAU * (i as f64 + rng_b.r(-0.3, 0.3)) / nv as f64; c + Coord2(a.cos(), a.sin()) * rng_b.r(12.0, 34.0) }).collect();
        let r5 = |p: Coord2| Coord2((p.0 * 1e5).round() / 1e5, (p.1 * 1e5).round() / 1e5);
        let quad = k % 2 == 1;
        let start = if quad { r5(vs[0]) } else { vs[0] };
        let mut secs = vec![];
        for i in 0..nv {
            let (p, q) = (if quad { r5(vs[i]) } else { vs[i] }, if quad { r5(vs[(i + 1) % nv]) } else { vs[(i + 1) % nv] });
            let d = q - p;
            let nrm = Coord2(-d.1, d.0);
            if quad {
                // a quadratic with its control point up to 15 % of the side length off the chord, raised to a cubic, 5 decimals
                let m = p + d * 0.5 + nrm * rng_b.r(-0.15, 0.15);
                secs.push((r5(p + (m - p) * (2.0 / 3.0)), r5(q + (m - q) * (2.0 / 3.0)), q));
            } else {
                let bow = |rng: &mut Rng| 10f64.powf(rng.r(-5.0, -1.5)) * if rng.b() { 1.0 } else { -1.0 };
                secs.push((p + d * (1.0 / 3.0) + nrm * bow(&mut rng_b), p + d * (2.0 / 3.0) + nrm * bow(&mut rng_b), q));
            }
        }
        let path: P = (start, secs);
        let kind = if quad { "quadratic_sides_5_decimals" } else { "slightly_bowed_sides" };
        stats.count(&format!("kind.{}", kind));
        stats.case(&format!("{} {:?}", kind, path), true);
        check_path(&mut stats, &mut rng_b, &path, kind, 8000);
    }
    // boxes with one or two sides replaced by TALL parabolic arches (quadratics raised to cubics: exactly, on coordinates that are
    // multiples of 3, and in floating point): the arch is the extreme of the outline in its direction, so the bounding box the function
    // starts with depends on the extremity of an edge whose cubic coefficient is zero or rounding-sized (own stream; from seeded change C07-m9)
    let mut rng_a = Rng(seed ^ 0xA2C407);
    for k in 0..(6 + n / 20) {
        let exact = k % 2 == 0;
        let g = |rng: &mut Rng, lo: f64, hi: f64| if exact { (rng.r(lo, hi) / 3.0).round() * 3.0 } else { rng.r(lo, hi) };
        let (x0, y0) = (g(&mut rng_a, 10.0, 40.0), g(&mut rng_a, 10.0, 40.0));
        let (x1, y1) = (x0 + g(&mut rng_a, 12.0, 45.0), y0 + g(&mut rng_a, 12.0, 45.0));
        let corners = [Coord2(x0, y0), Coord2(x0, y1), Coord2(x1, y1), Coord2(x1, y0)];
        let arched = [k % 4 < 2, true, k % 3 == 0, k % 5 == 0];
        let mut secs = vec![];
        for i in 0..4 {
            let (p, q) = (corners[i], corners[(i + 1) % 4]);
            let d = q - p;
            if arched[i] {
                // outward normal of a clockwise-in-y-up walk (x0,y0) -> (x0,y1) -> (x1,y1) -> (x1,y0)
                let out = Coord2(-d.1, d.0) * (1.0 / (d.0 * d.0 + d.1 * d.1).sqrt());
                let h = g(&mut rng_a, 6.0, 30.0);
                let m = p + d * 0.5 + out * h;
                secs.push((p + (m - p) * (2.0 / 3.0), q + (m - q) * (2.0 / 3.0), q));
            } else {
                secs.push((p + d * (1.0 / 3.0), p + d * (2.0 / 3.0), q));
            }
        }
        let path: P = redirect(&mut rng_a, &(corners[0], secs));
        let kind = if exact { "parabolic_arch_exact" } else { "parabolic_arch" };
        stats.count(&format!("kind.{}", kind));
        stats.case(&format!("{} {:?}", kind, path), true);
        check_path(&mut stats, &mut rng_a, &path, kind, 400);
    }
    // long thin triangles with a vertex 0.3 .. 1 from the box's max corner: the ray crosses the long edge at 0.01 .. 0.06 degrees (shallow but
    // transversal), 0.1 clear of every vertex
    for _ in 0..(4 + n / 200) {
        let l = rng_t.r(600.0, 1500.0);
        let near = Coord2(l - rng_t.r(0.3, 1.0), l);
        let tri = polygon(&[Coord2(0.0, 0.0), near, Coord2(l, l * rng_t.r(0.2, 0.6))]);
        let tri = redirect(&mut rng_t, &tri);
        stats.count("kind.sliver_triangle");
        stats.case(&format!("sliver {:?}", tri), true);
        check_path(&mut stats, &mut rng_t, &tri, "sliver_triangle", 100);
    }
    for _ in 0..n {
        let s = rand_shape(&mut rng);
        let p = redirect(&mut rng, &s.path);
        // one shape in five is scaled up by 50 .. 200 (coordinates up to 2e4): absolute and relative tolerances part company there
        let p = if rng.i(5) == 0 { let k = rng.r(50.0, 200.0); stats.count("scaled_50_to_200"); let (sp, pts) = p; (sp * k, pts.into_iter().map(|(a, b, c)| (a * k, b * k, c * k)).collect()) } else { p };
        stats.count(&format!("kind.{}", s.kind));
        stats.case(&format!("{} {:?}", s.kind, p), true);
        check_path(&mut stats, &mut rng, &p, s.kind, 100);
    }
    stats.print(PROP, "search");
}

// ------------------------------------------------------------------------------------------------ correspondence

use flo_curves::bezier::{BezierCurve, Curve, NormalCurve};

fn hxp(p: Coord2) -> String { format!("{} {}", hx(p.0), hx(p.1)) }

/// query points for the correspondence: the classes of the search plus points the property excludes (on the boundary, on a
/// vertex, with the ray through a vertex or along an edge, outside the box, on the box) - the counting code is tied for all of them
fn corr_point(rng: &mut Rng, k: usize, verts: &[Coord2], cs: &[Cubic], corner: Coord2, mn: Coord2, mx: Coord2) -> (Coord2, &'static str) {
    let v = verts[rng.i(verts.len() as u64) as usize];
    match k % 10 {
        0 | 1 => (Coord2(rng.r(mn.0, mx.0), rng.r(mn.1, mx.1)), "uniform_in_box"),
        2 => (Coord2(rng.r(mn.0 - 3.0, mx.0 + 3.0), rng.r(mn.1 - 3.0, mx.1 + 3.0)), "uniform_around_box"),
        3 => (Coord2(rng.r(mn.0, mx.0), v.1), "level_with_vertex_y"),
        4 => (Coord2(v.0, rng.r(mn.1, mx.1)), "level_with_vertex_x"),
        5 => (corner + (v - corner) * rng.r(1.02, 1.6), "ray_through_vertex"),
        6 => { let c = &cs[rng.i(cs.len() as u64) as usize]; (bez(c, rng.f()), "on_boundary") }
        7 => (v, "on_vertex"),
        8 => {
            // the ray runs along a straight edge (or the chord of a curved one) and ends beyond it
            let c = &cs[rng.i(cs.len() as u64) as usize];
            let d = c[3] - c[0];
            let l = len(d);
            if l == 0.0 { (v, "on_vertex") } else { let far = if dist(c[0], corner) > dist(c[3], corner) { c[0] } else { c[3] }; (far + (far - corner) * (rng.r(0.05, 0.5)), "ray_towards_edge_end") }
        }
        _ => {
            // near a tangent point of the ray direction
            let c = &cs[rng.i(cs.len() as u64) as usize];
            let t = rng.f();
            let q = bez(c, t);
            let d = bez_d(c, t);
            let l = len(d);
            if l == 0.0 { (q, "on_boundary") } else { (q + d * (rng.r(-2.0, 2.0) / l) + Coord2(-d.1, d.0) * (rng.r(-0.2, 0.2) / l), "near_boundary") }
        }
    }
}

/// One path, several query points. For every point: the answer of `path_contains_point`, and the collision list that
/// `ray_collisions` returns for the ray of the implementation. `ray_collisions` itself is crate-private for a list of curves;
/// its public door is `GraphPath::ray_collisions`, which runs the same generic function on the graph of the path. The
/// graph keeps the path's curves (same order, same control points) when the path is clockwise and has no tiny edges -
/// checked here, other paths are reversed first or skipped (counted).
fn corr_path(stats: &mut Stats, rng: &mut Rng, path: &P, kind: &str, n_points: usize) {
    let q: P = if path.is_clockwise() { path.clone() } else { stats.count("path.reversed_to_clockwise"); reversed(path) };
    let curves: Vec<Curve<Coord2>> = path_to_curves(&q).collect();
    let n = curves.len();
    if n == 0 { stats.count("skipped.empty"); return; }
    let gp = GraphPath::from_path(&q, ());
    let mut same = gp.num_points() == n;
    if same {
        for i in 0..n {
            let es: Vec<_> = gp.edges_for_point(i).collect();
            if es.len() != 1 { same = false; break; }
            let e = &es[0];
            let (c1, c2) = e.control_points();
            let (d1, d2) = curves[i].control_points();
            if e.start_point_index() != i || e.end_point_index() != (i + 1) % n || e.start_point() != curves[i].start_point() || c1 != d1 || c2 != d2
                || (e.end_point() != curves[i].end_point()) { same = false; break; }
        }
    }
    if !same { stats.count("skipped.graph_edges_differ_from_path_curves"); return; }
    let (minb, maxb): (Coord2, Coord2) = q.bounding_box();
    let cs = cubics(&q);
    let verts = vertices(&q);
    let corner = maxb + Coord2(0.01, 0.01);
    let all_straight = cs.iter().all(is_straight);
    let mut ins = format!("#{}", n);
    for c in &curves { let (c1, c2) = c.control_points(); ins += &format!(" {} {} {} {}", hxp(c.start_point()), hxp(c1), hxp(c2), hxp(c.end_point())); }
    ins += &format!(" {} {} #{}", hxp(minb), hxp(maxb), n_points);
    let mut outs = String::new();
    let mut any_counted = false;
    for k in 0..n_points {
        let (p, pclass) = corr_point(rng, k, &verts, &cs, corner, minb, maxb);
        stats.count(&format!("point.{}", pclass));
        // the ray as path_contains_point builds it
        let ray = (maxb + Coord2::from_components(&[0.01, 0.01]), p);
        let ray_direction = ray.1 - ray.0;
        let detail = || format!("point={:?} kind={} path={:?}", p, kind, q);
        let answer = match run_caught(stats, PROP, "path_contains_point", &detail, || path_contains_point(&q, &p)) { Some(a) => a, None => { ins += &format!(" {} {} #0", hxp(p), hxp(ray.0)); outs += " #2"; continue } };
        let colls = match run_caught(stats, PROP, "ray_collisions", &detail, || gp.ray_collisions(&ray)) { Some(c) => c, None => { ins += &format!(" {} {} #0", hxp(p), hxp(ray.0)); outs += " #2"; continue } };
        ins += &format!(" {} {} #{}", hxp(p), hxp(ray.0), colls.len());
        outs += &format!(" #{}", answer as u8);
        let mut counted = 0;
        let mut stopped = false;
        for (collision, curve_t, line_t, pos) in &colls {
            let idx = gp.get_edge(collision.edge()).start_point_index();
            let normal = curves[idx].normal_at_pos(*curve_t);
            let d = ray_direction.dot(&normal);
            let direction = d.signum() as i32;
            ins += &format!(" #{} {} {} {}", idx, hx(*curve_t), hx(*line_t), hxp(*pos));
            outs += &format!(" {} #{}", hxp(normal), direction);
            if *line_t > 1.0 { stopped = true; }
            if !stopped { counted += 1; if d == 0.0 { stats.count("collision.direction_from_zero_dot_product"); } }
            else if !(*line_t > 1.0) { stats.count("collision.not_counted_although_before_point(list_not_sorted)"); }
            if *curve_t == 0.0 || *curve_t == 1.0 { stats.count("collision.at_curve_end(t_nudged)"); }
        }
        // the hypotheses of the Lean theorems, evaluated on the real list (counted only; the theorems assume them):
        // (a) StopClosed: no collision before the point after one beyond it
        let mut seen_beyond = false;
        let mut stop_closed = true;
        for (_, _, line_t, _) in &colls { if *line_t > 1.0 { seen_beyond = true; } else if seen_beyond { stop_closed = false; } }
        stats.count(if stop_closed { "hypothesis.stop_closed.holds" } else { "hypothesis.stop_closed.violated" });
        // (b) Faithful (polygon_contains_iff_winding): for a polygon and a ray in general position (its line 0.1 clear of every
        // vertex, the point 0.1 clear of the boundary) the counted collisions are exactly one per edge that crosses the ray
        if all_straight && minb.0 <= p.0 && p.0 <= maxb.0 && minb.1 <= p.1 && p.1 <= maxb.1 {
            let d = ray.0 - p;
            let dl = len(d);
            let general = verts.iter().all(|v| (cross(d, *v - p) / dl).abs() > 0.1) && (0..n).all(|i| dist_seg(p, verts[i], verts[(i + 1) % n]) > 0.1);
            if general {
                let mut crossing: Vec<usize> = (0..n).filter(|i| {
                    let (a, b) = (verts[*i] - p, verts[(*i + 1) % n] - p);
                    (cross(d, a) < 0.0 && cross(d, b) > 0.0 && cross(a, b) > 0.0) || (cross(d, b) < 0.0 && cross(d, a) > 0.0 && cross(a, b) < 0.0)
                }).collect();
                let mut counted_idx: Vec<usize> = colls.iter().take_while(|(_, _, line_t, _)| !(*line_t > 1.0)).map(|(c, _, _, _)| gp.get_edge(c.edge()).start_point_index()).collect();
                crossing.sort(); counted_idx.sort();
                let ts_ok = colls.iter().take_while(|(_, _, line_t, _)| !(*line_t > 1.0)).all(|(_, t, _, _)| 0.0 <= *t && *t <= 1.0);
                stats.count(if crossing == counted_idx && ts_ok { "hypothesis.faithful(polygon,general_position).holds" } else { "hypothesis.faithful(polygon,general_position).violated" });
            } else { stats.count("hypothesis.faithful.not_evaluated(ray_or_point_not_in_general_position)"); }
        }
        // (c) equivariance under the start vertex (contains_start_vertex_invariant): the same path started at its k-th curve gives the
        // same collisions with shifted indices (compared bit for bit as multisets)
        if n > 1 {
            let shift = 1 + rng.i((n - 1) as u64) as usize;
            let rot = rotate_start(&q, shift);
            let (rmin, rmax): (Coord2, Coord2) = rot.bounding_box();
            if rot.is_clockwise() && rmin == minb && rmax == maxb {
                let gp2 = GraphPath::from_path(&rot, ());
                if gp2.num_points() == n {
                    if let Ok(colls2) = std::panic::catch_unwind(std::panic::AssertUnwindSafe(|| gp2.ray_collisions(&ray))) {
                        let mut a: Vec<(usize, u64, u64)> = colls.iter().map(|(c, t, lt, _)| (gp.get_edge(c.edge()).start_point_index(), t.to_bits(), lt.to_bits())).collect();
                        let mut b: Vec<(usize, u64, u64)> = colls2.iter().map(|(c, t, lt, _)| ((gp2.get_edge(c.edge()).start_point_index() + shift) % n, t.to_bits(), lt.to_bits())).collect();
                        a.sort(); b.sort();
                        stats.count(&format!("hypothesis.start_vertex_equivariant.{}", if a == b { "holds".to_string() } else { format!("violated.{}", pclass) }));
                        if a != b {
                            // outside the property's precondition (the ray passes within 0.1 of a vertex): does the answer move as well?
                            if let Ok(ans2) = std::panic::catch_unwind(std::panic::AssertUnwindSafe(|| path_contains_point(&rot, &p))) {
                                if ans2 != answer {
                                    stats.count(&format!("outside_precondition.answer_depends_on_start_vertex.{}", pclass));
                                }
                            }
                        }
                    }
                }
            }
        }
        stats.count(&format!("collisions.{}", if colls.len() > 6 { "7+".to_string() } else { colls.len().to_string() }));
        stats.count(&format!("counted.{}", if counted > 4 { "5+".to_string() } else { counted.to_string() }));
        stats.count(if answer { "answer.inside" } else { "answer.outside" });
        if counted > 0 { any_counted = true; }
    }
    let line = format!("C07 contains R {} |{}", ins, outs);
    stats.case(&line, any_counted);
    stats.add("points", n_points as u64);
    println!("{}", line);
}

/// `normal_at_pos` / `tangent_at_pos` on single curves, incl. t = 0 and t = 1 (where the code moves t by f64::EPSILON)
fn corr_normal(stats: &mut Stats, rng: &mut Rng) {
    let (w, kind) = crate::c06::gen_points::<Coord2>(rng);
    let c = Curve::from_points(w[0], (w[1], w[2]), w[3]);
    let (t, tclass) = match rng.i(8) { 0 => (0.0, "t=0"), 1 => (1.0, "t=1"), 2 => (f64::EPSILON, "t=eps"), 3 => (1.0 - f64::EPSILON, "t=1-eps"), 4 => (rng.r(-0.5, 1.5), "t_outside"), _ => (rng.f(), "t_inside") };
    let nrm = c.normal_at_pos(t);
    let tan = c.tangent_at_pos(t);
    let line = format!("C07 normal R {} {} {} {} {} | {} {}", hxp(w[0]), hxp(w[1]), hxp(w[2]), hxp(w[3]), hx(t), hxp(nrm), hxp(tan));
    stats.case(&line, kind != "point");
    stats.count(&format!("normal.{}.{}", kind, tclass));
    println!("{}", line);
}

pub fn corr(seed: u64, n: u64) {
    quiet_panics();
    let mut rng = Rng(seed ^ 0xC07C0);
    let mut stats = Stats::new();
    let fixed: Vec<(&str, P)> = vec![
        ("circle", circle(50.0, 50.0, 20.0)),
        ("circle45", circle45(50.0, 50.0, 20.0)),
        ("grid_rect", rect(20.0, 30.0, 60.0, 50.0)),
        ("l_shape", polygon(&l_shape_points(20.0, 20.0, 40.0, 30.0, 20.0, 10.0))),
        ("collinear_polygon", polygon(&with_collinear_vertices(&[Coord2(20.0, 20.0), Coord2(70.0, 30.0), Coord2(60.0, 70.0), Coord2(30.0, 60.0)]))),
    ];
    for (kind, p) in &fixed {
        stats.count(&format!("corpus.{}", kind));
        corr_path(&mut stats, &mut rng, p, kind, 40);
        corr_path(&mut stats, &mut rng, &reversed(p), kind, 40);
    }
    for i in 0..n {
        if i % 4 == 3 { corr_normal(&mut stats, &mut rng); continue; }
        let s = rand_shape(&mut rng);
        let p = redirect(&mut rng, &s.path);
        stats.count(&format!("kind.{}", s.kind));
        corr_path(&mut stats, &mut rng, &p, s.kind, 10);
    }
    stats.print(PROP, "corr");
}
