//! C15: walking a curve tiles [0,1] (first section starts at 0, each starts where the previous ended, the last ends at 1,
//! finitely many sections); even walks keep every chord but the last within max_error of the distance when the speed does
//! not vanish; uneven walks give exactly n sections of equal parameter width; vary_by preserves the tiling.
use crate::guard::*;
use crate::cshapes::*;
use crate::util::*;
use flo_curves::bezier::*;

const TIMEOUT: f64 = 10.0;
const CAP: usize = 200000;

type Secs = Vec<(f64, f64)>;

/// which part of the tiling is broken, if any: (key suffix, explanation)
fn tiling_defect(secs: &Secs, capped: bool) -> Vec<(&'static str, String)> {
    let mut bad = vec![];
    if capped { bad.push(("no_termination", format!("more than {} sections; section {} is {:?}", CAP, CAP, secs[secs.len() - 1]))); }
    if secs.is_empty() { bad.push(("no_sections", "the walk is empty".to_string())); return bad; }
    if let Some((i, s)) = secs.iter().enumerate().find(|(_, s)| !(s.0.is_finite() && s.1.is_finite())) { bad.push(("non_finite", format!("section {} is {:?}", i, s))); return bad; }
    if secs[0].0.to_bits() != 0.0f64.to_bits() { bad.push(("first_not_zero", format!("first section starts at {:?}", secs[0].0))); }
    if let Some(i) = (1..secs.len()).find(|i| secs[*i].0.to_bits() != secs[*i - 1].1.to_bits()) { bad.push(("gap", format!("section {} ends at {:?} but section {} starts at {:?}", i - 1, secs[i - 1].1, i, secs[i].0))); }
    if let Some(i) = (0..secs.len()).find(|i| !(secs[*i].0 <= secs[*i].1)) { bad.push(("backwards_section", format!("section {} is {:?}", i, secs[i]))); }
    if !capped && secs[secs.len() - 1].1 != 1.0 { bad.push(("last_not_one", format!("last of {} sections ends at {:?}", secs.len(), secs[secs.len() - 1].1))); }
    bad
}

fn collect<'a, C: BezierCurve + 'a>(it: impl Iterator<Item = CurveSection<'a, C>>) -> (Secs, bool) {
    let mut secs = vec![];
    for s in it { secs.push(s.original_curve_t_values()); if secs.len() >= CAP { return (secs, true); } }
    (secs, false)
}

fn step_class(ratio: f64) -> &'static str { if ratio < 0.02 { "step_lt_2pct_of_length" } else if ratio < 0.25 { "step_2_to_25pct_of_length" } else if ratio < 1.0 { "step_25_to_100pct_of_length" } else { "step_ge_length" } }

pub fn check_even(stats: &mut Stats, w: &Cub, class: &str, distance: f64, max_error: f64, length: f64) {
    let (smin, _, _) = regularity(w, 400);
    let regular = smin > 1.0;
    let desc = format!("curve={} class={} distance={:?} max_error={:?} curve_length={:?} min_speed={:?}", fmt_cub(w), class, distance, max_error, length, smin);
    stats.case(&desc, class != "point");
    stats.count(&format!("even.curve.{}", class));
    stats.count(&format!("even.{}", step_class(distance / length.max(1e-300))));
    stats.count(&format!("even.error_{}", if max_error / distance < 0.05 { "1_to_5pct" } else if max_error / distance < 0.15 { "5_to_15pct" } else { "15_to_25pct" }));
    stats.count(if regular { "even.speed_does_not_vanish" } else { "even.tiling_only" });
    let c = lib_curve(w);
    let r = guarded(TIMEOUT, move || {
        let walk = collect(walk_curve_evenly(&c, distance, max_error));
        let mapped: Secs = walk_curve_evenly_map(c.clone(), distance, max_error, |s| s.original_curve_t_values()).take(CAP).collect();
        (walk, mapped)
    });
    let ((secs, capped), mapped) = match r {
        Outcome::Done(v) => v,
        Outcome::Panic(m) => { stats.fail("C15", &format!("panic.walk_curve_evenly.{}", class), &format!("{} panic={}", desc, m)); return; }
        Outcome::Hang => { stats.fail("C15", &format!("hang.walk_curve_evenly.{}", class), &format!("{} no result after {} s", desc, TIMEOUT)); return; }
    };
    stats.count(&format!("even.sections_{}", match secs.len() { 0 => "0", 1 => "1", 2..=9 => "2_to_9", 10..=99 => "10_to_99", 100..=999 => "100_to_999", _ => "ge_1000" }));
    for (what, why) in tiling_defect(&secs, capped) {
        stats.fail("C15", &format!("walk_even.{}.{}", what, class), &format!("{} {}", desc, why));
    }
    if mapped.len() != secs.len() || mapped.iter().zip(secs.iter()).any(|(a, b)| a.0.to_bits() != b.0.to_bits() || a.1.to_bits() != b.1.to_bits()) {
        stats.fail("C15", &format!("walk_even_map.differs_from_walk_even.{}", class), &format!("{} {} vs {} sections", desc, mapped.len(), secs.len()));
    }
    if !regular || secs.len() < 2 || secs.iter().any(|s| !(s.0.is_finite() && s.1.is_finite())) { return; }
    // every section except the last: chord within max_error of the distance (chords from an evaluation independent of the library)
    let body = &secs[..secs.len() - 1];
    let mut off: Vec<(usize, f64)> = vec![];
    for (i, s) in body.iter().enumerate() {
        let ch = dist(eval(w, s.0), eval(w, s.1));
        // 1e-9 relative slack: the library's own evaluation of the two points differs from this one in the last digits
        if gt((ch - distance).abs(), max_error + 1e-9 * distance.max(1.0)) { off.push((i, ch)); }
    }
    stats.add("even.sections_checked_for_chord", body.len() as u64);
    if let Some((i, ch)) = off.first() {
        let worst = off.iter().fold(0.0f64, |m, (_, ch)| m.max((ch - distance).abs()));
        let place = if *i + 2 == secs.len() { "last_but_one_section" } else if *i == 0 { "first_section" } else { "inner_section" };
        let hk = if class == "hook" || class == "loop" { format!(".input_{:016x}", fnv(&format!("{} {:?} {:?}", fmt_cub(w), distance, max_error))) } else { String::new() };
        stats.fail("C15", &format!("walk_even.chord_off_distance.{}.{}{}", class, place, hk), &format!("{} {} of {} sections off; first: section {} = {:?} has chord {:?} (|chord-distance|={:e}); worst deviation {:e}", desc, off.len(), body.len(), i, secs[*i], ch, (ch - distance).abs(), worst));
    }
}

pub fn check_uneven(stats: &mut Stats, w: &Cub, class: &str, n: usize) {
    let desc = format!("curve={} class={} n={}", fmt_cub(w), class, n);
    stats.case(&desc, n > 1);
    stats.count(&format!("uneven.n_{}", match n { 1..=9 => "1_to_9", 10..=99 => "10_to_99", 100..=300 => "100_to_300", _ => "gt_300" }));
    let c = lib_curve(w);
    let secs: Secs = match guarded(TIMEOUT, move || walk_curve_unevenly(&c, n).take(n + 10).map(|s| s.original_curve_t_values()).collect()) {
        Outcome::Done(v) => v,
        Outcome::Panic(m) => { stats.fail("C15", "panic.walk_curve_unevenly", &format!("{} panic={}", desc, m)); return; }
        Outcome::Hang => { stats.fail("C15", "hang.walk_curve_unevenly", &format!("{} no result after {} s", desc, TIMEOUT)); return; }
    };
    if secs.len() != n { stats.fail("C15", "walk_uneven.count", &format!("{} got {}{} sections", desc, secs.len(), if secs.len() == n + 10 { " or more" } else { "" })); return; }
    let width = 1.0 / n as f64;
    if let Some((i, s)) = secs.iter().enumerate().find(|(_, s)| !(((s.1 - s.0) - width).abs() <= 1e-12)) { stats.fail("C15", "walk_uneven.width", &format!("{} section {} = {:?} has width {:?}, expected {:?}", desc, i, s, s.1 - s.0, width)); }
    for (what, why) in tiling_defect(&secs, false) { stats.fail("C15", &format!("walk_uneven.{}", what), &format!("{} {}", desc, why)); }
}

pub fn check_vary(stats: &mut Stats, w: &Cub, class: &str, distance: f64, max_error: f64, factors: Vec<f64>, cycle: bool) {
    let desc = format!("curve={} class={} distance={:?} max_error={:?} vary_by={:?}x distance{}", fmt_cub(w), class, distance, max_error, factors, if cycle { " (cycled)" } else { " (then constant)" });
    stats.case(&desc, class != "point");
    stats.count(&format!("vary.curve.{}", class));
    stats.count(if cycle { "vary.cycled" } else { "vary.finite_list" });
    let c = lib_curve(w);
    let ds: Vec<f64> = factors.iter().map(|f| f * distance).collect();
    let r = guarded(TIMEOUT, move || {
        if cycle { collect(walk_curve_evenly(&c, distance, max_error).vary_by(ds.clone().into_iter().cycle())) } else { collect(walk_curve_evenly(&c, distance, max_error).vary_by(ds.clone().into_iter())) }
    });
    let (secs, capped) = match r {
        Outcome::Done(v) => v,
        Outcome::Panic(m) => { stats.fail("C15", &format!("panic.vary_by.{}", class), &format!("{} panic={}", desc, m)); return; }
        Outcome::Hang => { stats.fail("C15", &format!("hang.vary_by.{}", class), &format!("{} no result after {} s", desc, TIMEOUT)); return; }
    };
    for (what, why) in tiling_defect(&secs, capped) { stats.fail("C15", &format!("vary_by.tiling.{}.{}", what, class), &format!("{} {}", desc, why)); }
}

pub fn search(seed: u64, n: u64) {
    let mut rng = Rng(seed ^ 0x5EA2C15);
    let mut stats = Stats::new();
    install_silent_hook();
    let big = [1000usize, 1024, 1537, 3000, 4096, 10007];
    for it in 0..n {
        // half of the curves from the classes whose speed does not vanish (the chord part applies), half from all classes
        let regular = ["arch", "s_curve", "loop", "near_line", "straight_line", "two_inflections", "near_cusp", "hairpin", "closed", "random"];
        let class = if rng.b() { regular[rng.i(regular.len() as u64) as usize] } else { CURVE_CLASSES[rng.i(CURVE_CLASSES.len() as u64) as usize] };
        let w = gen_class(&mut rng, class);
        let length = polyline_length(&w, 2000);
        // a point curve has no length: walk it with absolute distances
        let unit = if length > 1e-9 { length } else { 1.0 };
        let ratio = if rng.i(3) == 0 { rng.r(1.0 / 200.0, 2.0) } else { 10f64.powf(rng.r((1.0f64 / 200.0).log10(), 2.0f64.log10())) };
        let distance = unit * ratio;
        let max_error = distance * rng.r(0.01, 0.25);
        check_even(&mut stats, &w, class, distance, max_error, length);
        if it % 4 == 3 {
            // the regime in which the step controller converges only linearly: a hooked cubic (the curve runs out and turns back sharply, speed
            // well above 0), a step of 10% .. 70% of the length and a tolerance of 1% .. 5% of the step
            let a = Coord2(rng.r(20.0, 80.0), rng.r(20.0, 80.0));
            let ang = rng.r(0.0, std::f64::consts::TAU);
            let out = Coord2(ang.cos(), ang.sin());
            let side = Coord2(-out.1, out.0);
            let hw = [a, a + out * rng.r(40.0, 70.0) + side * rng.r(-5.0, 5.0), a + out * rng.r(40.0, 70.0) + side * rng.r(8.0, 20.0), a + out * rng.r(0.0, 15.0) + side * rng.r(8.0, 25.0)];
            let hl = polyline_length(&hw, 2000);
            let hd = hl * rng.r(0.1, 0.7);
            check_even(&mut stats, &hw, "hook", hd, hd * rng.r(0.01, 0.05), hl);
        }
        // n = 1..=300 in turn, then thousand-scale values
        let un = if it % 50 == 49 { big[((it / 50) % big.len() as u64) as usize] } else { (it % 300) as usize + 1 };
        check_uneven(&mut stats, &w, class, un);
        let k = 1 + rng.i(4) as usize;
        // base distance in [0.025, 0.4] of the length, factors in [0.2, 5]: every distance stays in [1/200, 2] of the length
        let factors: Vec<f64> = (0..k).map(|_| 10f64.powf(rng.r(-0.69, 0.69))).collect();
        let vary_distance = unit * 10f64.powf(rng.r(-1.6, -0.4));
        check_vary(&mut stats, &w, class, vary_distance, vary_distance * rng.r(0.01, 0.25), factors, rng.b());
    }
    // long curves walked with thousands of small steps and a tight tolerance (own stream): coordinates up to 1e5, 5000 .. 30000 sections,
    // tolerance 1% of the step - the curve's speed times 1e-6 is then above the tolerance, so the step has to be corrected every time
    let mut rng_l = Rng(seed ^ 0x10C6C15);
    for _ in 0..(3 + n / 1000) {
        let class = ["arch", "s_curve", "random"][rng_l.i(3) as usize];
        let mut w = gen_class(&mut rng_l, class);
        let k = 10f64.powf(rng_l.r(2.5, 3.1));
        for p in w.iter_mut() { *p = *p * k; }
        let length = polyline_length(&w, 2000);
        let distance = length / rng_l.r(5000.0, 30000.0);
        check_even(&mut stats, &w, "long_curve_small_steps", distance, distance * 0.01, length);
    }
    stats.print("C15", "search");
    finish();
}
