//! C08: fit_curve(points, max_error): every input point within max_error of the chain, first curve starts exactly at the
//! first point, last ends exactly at the last point, each curve starts exactly where the previous ended; fewer than two
//! points give None; terminates on every finite input. Distances by dense sampling (>= 400 per curve) plus golden-section
//! refinement on an evaluation independent of the library.
use crate::guard::*;
use crate::cshapes::*;
use crate::util::*;
use flo_curves::bezier::*;

const TIMEOUT: f64 = 10.0;
const SAMPLES: usize = 400;
/// slack for the resolution of this oracle after refinement
const SLACK: f64 = 1e-6;

pub struct Input { pub tag: String, pub pts: Vec<Coord2>, pub source: &'static str, pub noise: f64, pub repeated: &'static str, pub class: &'static str }

fn gen_len(rng: &mut Rng) -> usize {
    match rng.i(20) {
        0 => rng.i(4) as usize,                                                   // 0, 1, 2, 3 points
        1 | 2 => 2 + rng.i(6) as usize,
        3 | 4 | 5 => [198, 199, 200, 201, 202][rng.i(5) as usize],
        6 | 7 => [398, 399, 400, 401, 402][rng.i(5) as usize],
        8 => [599, 600, 601][rng.i(3) as usize],
        9 => [797, 995, 1000, 1393, 1999, 2000][rng.i(6) as usize],
        _ => (10f64.powf(rng.r(8f64.log10(), 2000f64.log10()))).round() as usize,
    }
}

fn smooth_curve(rng: &mut Rng) -> Cub { let class = ["arch", "s_curve", "random", "random", "near_line", "two_inflections"][rng.i(6) as usize]; gen_class(rng, class) }

pub fn gen_input(rng: &mut Rng) -> Input {
    let len = gen_len(rng);
    let source = ["one_curve", "one_curve", "two_curves_smooth_join", "two_curves_corner", "collinear_run", "polyline_corners", "curve_then_collinear_run", "cusp_or_hairpin", "loop_or_closed"][rng.i(9) as usize];
    let mut pts: Vec<Coord2> = vec![];
    let tk = |k: usize, n: usize| if n <= 1 { 0.0 } else { k as f64 / (n - 1) as f64 };
    match source {
        "one_curve" => { let c = smooth_curve(rng); for k in 0..len { pts.push(eval(&c, tk(k, len))); } }
        "cusp_or_hairpin" => { let cl = ["cusp", "hairpin", "near_cusp"][rng.i(3) as usize]; let c = gen_class(rng, cl); for k in 0..len { pts.push(eval(&c, tk(k, len))); } }
        "loop_or_closed" => { let cl = ["loop", "closed"][rng.i(2) as usize]; let c = gen_class(rng, cl); for k in 0..len { pts.push(eval(&c, tk(k, len))); } }
        "two_curves_smooth_join" | "two_curves_corner" => {
            let a = smooth_curve(rng);
            let mut b = smooth_curve(rng);
            let off = a[3] - b[0];
            for p in b.iter_mut() { *p = *p + off; }
            if source == "two_curves_smooth_join" {
                // rotate b about the joint so that it leaves along a's end tangent
                let (ta, tb) = (a[3] - a[2], b[1] - b[0]);
                let ang = ta.1.atan2(ta.0) - tb.1.atan2(tb.0);
                let o = b[0];
                for p in b.iter_mut() { let v = *p - o; *p = o + Coord2(v.0 * ang.cos() - v.1 * ang.sin(), v.0 * ang.sin() + v.1 * ang.cos()); }
            }
            let first = (len + 1) / 2;
            for k in 0..first { pts.push(eval(&a, tk(k, first))); }
            for k in 1..=(len - first) { pts.push(eval(&b, k as f64 / (len - first) as f64)); }
        }
        "collinear_run" => {
            let (p, q) = (Coord2(rng.r(0.0, 100.0), rng.r(0.0, 100.0)), Coord2(rng.r(0.0, 100.0), rng.r(0.0, 100.0)));
            let even = rng.b();
            let mut ts: Vec<f64> = (0..len).map(|k| if even { tk(k, len) } else { rng.f() }).collect();
            if !even { ts.sort_by(|a, b| a.partial_cmp(b).unwrap()); }
            for t in ts { pts.push(p + (q - p) * t); }
        }
        "polyline_corners" => {
            let corners = 2 + rng.i(4) as usize;
            let vs: Vec<Coord2> = (0..=corners).map(|_| Coord2(rng.r(0.0, 100.0), rng.r(0.0, 100.0))).collect();
            for k in 0..len { let s = tk(k, len) * corners as f64; let i = (s.floor() as usize).min(corners - 1); pts.push(vs[i] + (vs[i + 1] - vs[i]) * (s - i as f64)); }
        }
        _ => {
            let c = smooth_curve(rng);
            let first = (len + 1) / 2;
            for k in 0..first { pts.push(eval(&c, tk(k, first))); }
            let dir = c[3] - c[2]; let l = (dir.0 * dir.0 + dir.1 * dir.1).sqrt().max(1e-9);
            let step = rng.r(0.05, 1.0);
            for k in 1..=(len - first) { pts.push(c[3] + dir * (step * k as f64 / l)); }
        }
    }
    pts.truncate(len);
    let noise = if rng.b() { 0.0 } else { 10f64.powf(rng.r(-3.0, -0.3)) };
    if noise > 0.0 { for p in pts.iter_mut() { *p = *p + Coord2(rng.r(-noise, noise), rng.r(-noise, noise)); } }
    // repeated points
    let repeated = if len < 2 { "none" } else { match rng.i(40) { 0..=27 => "none", 28..=30 => "inner_pair", 31..=32 => "first_pair", 33..=34 => "last_pair", 35..=37 => "run_of_repeats", _ => "all_identical" } };
    match repeated {
        "inner_pair" => { if len >= 4 { let i = 1 + rng.i(len as u64 - 3) as usize; pts[i + 1] = pts[i]; } else { pts[len - 1] = pts[0]; } }
        "first_pair" => { pts[1] = pts[0]; }
        "last_pair" => { pts[len - 2] = pts[len - 1]; }
        "run_of_repeats" => { let i = rng.i(len as u64) as usize; let r = 2 + rng.i(6) as usize; for k in i..(i + r).min(len) { pts[k] = pts[i]; } }
        "all_identical" => { let p = pts[0]; for q in pts.iter_mut() { *q = p; } }
        _ => {}
    }
    let all_same = len >= 2 && pts.iter().all(|p| biteq(*p, pts[0]));
    let has_repeat = pts.windows(2).any(|w| biteq(w[0], w[1]));
    let class = if len < 2 { "fewer_than_two_points" } else if all_same { "identical_points" } else if has_repeat { "repeated_points" }
        else if source == "two_curves_corner" || source == "polyline_corners" || source == "cusp_or_hairpin" { "corner" }
        else if source == "collinear_run" { "collinear" } else { "smooth" };
    Input { tag: String::new(), pts, source, noise, repeated, class }
}

struct Sampled { w: Cub, pts: Vec<Coord2>, lo: Coord2, hi: Coord2 }
fn sample(w: &Cub, n: usize) -> Sampled {
    let pts: Vec<Coord2> = (0..=n).map(|k| eval(w, k as f64 / n as f64)).collect();
    let (mut lo, mut hi) = (Coord2(f64::MAX, f64::MAX), Coord2(f64::MIN, f64::MIN));
    for p in &pts { lo = Coord2(lo.0.min(p.0), lo.1.min(p.1)); hi = Coord2(hi.0.max(p.0), hi.1.max(p.1)); }
    Sampled { w: *w, pts, lo, hi }
}
fn box_dist(p: Coord2, lo: Coord2, hi: Coord2) -> f64 { let dx = (lo.0 - p.0).max(p.0 - hi.0).max(0.0); let dy = (lo.1 - p.1).max(p.1 - hi.1).max(0.0); (dx * dx + dy * dy).sqrt() }

/// distance from p to the chain, sampled then refined around the best sample of every curve that can matter
fn chain_distance(chain: &[Sampled], p: Coord2, limit: f64) -> f64 {
    let mut best = f64::MAX;
    for s in chain {
        // the sample box bounds the samples; the curve itself stays within one sample chord of it
        if box_dist(p, s.lo, s.hi) > best { continue; }
        let n = s.pts.len() - 1;
        let (mut m, mut kb) = (f64::MAX, 0);
        for (k, q) in s.pts.iter().enumerate() { let d = dist(p, *q); if d < m { m = d; kb = k; } }
        if m < best {
            // refine only when the sampled value does not already settle the comparison
            if m > limit {
                let (lo, hi) = ((kb as f64 - 1.0).max(0.0) / n as f64, (kb as f64 + 1.0).min(n as f64) / n as f64);
                let w = s.w;
                m = m.min(golden(&|t| eval(&w, t), p, lo, hi).1);
            }
            best = best.min(m);
        }
    }
    best
}

pub fn check(stats: &mut Stats, input: &Input, max_error: f64) {
    // structure of the input (repeats, corners, ...) and, separately, its noise relative to the permitted error: noise above
    // max_error forces the fit down to very short pieces
    let class = input.class;
    let noise = if input.noise == 0.0 { "noise_free" } else if input.noise > max_error { "noisy_above_max_error" } else { "noisy_below_max_error" };
    let pts = &input.pts;
    let len = pts.len();
    let blocks = if len < 200 { "single_block" } else { "multi_block" };
    let head = format!("{} len={} source={} noise={:?} repeated={} class={} max_error={:?}", input.tag, len, input.source, input.noise, input.repeated, class, max_error);
    // everything needed for a replay: the points themselves (bit-exact through {:?})
    let replay = || format!("{} points={:?}", head, pts);
    stats.case(&format!("{} first={:?} last={:?} fnv={:016x}", head, pts.first(), pts.last(), fnv(&format!("{:?}", pts))), len >= 3);
    stats.count(&format!("class.{}", class));
    stats.count(&format!("source.{}", input.source));
    stats.count(&format!("repeated.{}", input.repeated));
    stats.count(&format!("noise.{}", noise));
    stats.count(&format!("len.{}", match len { 0 => "0", 1 => "1", 2 => "2", 3 => "3", 4..=197 => "4_to_197", 198..=202 => "198_to_202", 203..=397 => "203_to_397", 398..=402 => "398_to_402", 403..=598 => "403_to_598", 599..=601 => "599_to_601", _ => "602_to_2000" }));
    stats.count(&format!("max_error.{}", if max_error < 0.2 { "0.05_to_0.2" } else if max_error < 0.8 { "0.2_to_0.8" } else { "0.8_to_2" }));
    let p2 = pts.clone();
    let fit = match guarded(TIMEOUT, move || fit_curve::<Curve<Coord2>>(&p2, max_error)) {
        Outcome::Done(f) => f,
        Outcome::Panic(m) => { stats.fail("C08", &format!("panic.fit_curve.{}.{}", class, blocks), &format!("{} panic={}", replay(), m)); return; }
        Outcome::Hang => { stats.fail("C08", &format!("hang.fit_curve.{}.{}", class, blocks), &format!("{} no result after {} s", replay(), TIMEOUT)); return; }
    };
    if len < 2 {
        if let Some(f) = fit { stats.fail("C08", "fit.some_for_fewer_than_two", &format!("{} got {} curves", replay(), f.len())); }
        return;
    }
    let fit: Vec<Cub> = match fit {
        None => { stats.fail("C08", "fit.none_for_two_or_more_points", &replay()); return; }
        Some(f) => f.iter().map(cub_of).collect(),
    };
    if fit.is_empty() { stats.fail("C08", "fit.empty_chain_for_two_or_more_points", &replay()); return; }
    stats.count(&format!("chain_curves.{}", match fit.len() { 1 => "1", 2..=4 => "2_to_4", 5..=19 => "5_to_19", 20..=99 => "20_to_99", _ => "ge_100" }));
    if let Some(i) = fit.iter().position(|c| !finite_cub(c)) {
        stats.fail("C08", &format!("fit.non_finite.{}", class), &format!("{} curve {} of {} is {}", replay(), i, fit.len(), fmt_cub(&fit[i])));
        return;
    }
    if !biteq(fit[0][0], pts[0]) { stats.fail("C08", &format!("fit.start_not_exact.{}", class), &format!("{} chain starts at {:?}, first point {:?}", replay(), fit[0][0], pts[0])); }
    if !biteq(fit[fit.len() - 1][3], pts[len - 1]) { stats.fail("C08", &format!("fit.end_not_exact.{}", class), &format!("{} chain ends at {:?}, last point {:?}", replay(), fit[fit.len() - 1][3], pts[len - 1])); }
    if let Some(i) = (1..fit.len()).find(|i| !biteq(fit[*i - 1][3], fit[*i][0])) {
        let gaps = (1..fit.len()).filter(|i| !biteq(fit[*i - 1][3], fit[*i][0])).count();
        stats.fail("C08", &format!("fit.chain_gap.{}", blocks), &format!("{} {} gaps in {} curves; first: curve {} ends at {:?}, curve {} starts at {:?}", replay(), gaps, fit.len(), i - 1, fit[i - 1][3], i, fit[i][0]));
    }
    // fit_curve_loop (the same block loop with tangents taken across the ends of the list): connected, exact ends (repair f35a364)
    if len >= 2 {
        let p3 = pts.clone();
        if let Outcome::Done(Some(lf)) = guarded(TIMEOUT, move || fit_curve_loop::<Curve<Coord2>>(&p3, max_error)) {
            let lf: Vec<Cub> = lf.iter().map(cub_of).collect();
            stats.count("fit_curve_loop.checked");
            if lf.is_empty() { stats.fail("C08", "fit_loop.empty_chain_for_two_or_more_points", &replay()); }
            else if lf.iter().all(finite_cub) {
                if !biteq(lf[0][0], pts[0]) { stats.fail("C08", &format!("fit_loop.start_not_exact.{}", class), &format!("{} chain starts at {:?}, first point {:?}", replay(), lf[0][0], pts[0])); }
                if !biteq(lf[lf.len() - 1][3], pts[len - 1]) { stats.fail("C08", &format!("fit_loop.end_not_exact.{}", class), &format!("{} chain ends at {:?}, last point {:?}", replay(), lf[lf.len() - 1][3], pts[len - 1])); }
                if let Some(i) = (1..lf.len()).find(|i| !biteq(lf[*i - 1][3], lf[*i][0])) {
                    stats.fail("C08", &format!("fit_loop.chain_gap.{}", blocks), &format!("{} fit_curve_loop: curve {} ends at {:?}, curve {} starts at {:?} ({} curves)", replay(), i - 1, lf[i - 1][3], i, lf[i][0], lf.len()));
                }
            }
        }
    }
    // every input point within max_error of the chain
    let sampled: Vec<Sampled> = fit.iter().map(|c| sample(c, SAMPLES)).collect();
    let mut worst = (0.0f64, 0usize);
    let mut far = 0usize;
    for (i, p) in pts.iter().enumerate() {
        let d = chain_distance(&sampled, *p, max_error);
        if d > max_error + SLACK { far += 1; }
        if d > worst.0 { worst = (d, i); }
    }
    stats.count(&format!("worst_over_max_error.{}", if worst.0 <= 0.5 * max_error { "le_0.5" } else if worst.0 <= max_error + SLACK { "le_1" } else if worst.0 <= 2.0 * max_error { "le_2" } else { "gt_2" }));
    if far > 0 {
        // confirm with a ten times finer scan and refinement of every local minimum before reporting
        let p = pts[worst.1];
        let (mut fine, mut at) = (f64::MAX, (0usize, 0.0f64));
        for (ci, c) in fit.iter().enumerate() { let (t, d) = nearest_on_cub(c, p, 10 * SAMPLES); if d < fine { fine = d; at = (ci, t); } }
        if fine > max_error + SLACK {
            let where_ = if worst.1 == 0 || worst.1 + 1 == len { "end_point" } else { "inner_point" };
            stats.fail("C08", &format!("fit.point_farther_than_max_error.{}.{}", noise, class), &format!("{} {} {} of {} points too far; worst: point {} = {:?} ({}) is {:?} from the chain of {} curves (nearest: curve {} at t={:?}), {:.3} x max_error", replay(), blocks, far, len, worst.1, p, where_, fine, fit.len(), at.0, at.1, fine / max_error));
        } else { stats.count("oracle.coarse_scan_overestimated"); }
    }
}

pub fn search(seed: u64, n: u64) {
    let mut rng = Rng(seed ^ 0x5EA2C08);
    let mut stats = Stats::new();
    install_silent_hook();
    // corpus: the degenerate inputs named by the statement and the recorded defects
    let p = |x: f64, y: f64| Coord2(x, y);
    let corpus: Vec<(Vec<Coord2>, &'static str, &'static str)> = vec![
        (vec![], "corpus_empty", "fewer_than_two_points"),
        (vec![p(1.0, 2.0)], "corpus_one_point", "fewer_than_two_points"),
        (vec![p(1.0, 2.0), p(4.0, 6.0)], "corpus_two_points", "smooth"),
        (vec![p(1.0, 2.0), p(4.0, 6.0), p(9.0, 1.0)], "corpus_three_points", "corner"),
        (vec![p(3.0, 3.0); 5], "corpus_five_identical_points", "identical_points"),
        (vec![p(3.0, 3.0); 2], "corpus_two_identical_points", "identical_points"),
        ((0..300).map(|k| { let t = k as f64 / 299.0; p(100.0 * t, 50.0 + 40.0 * (6.0 * t).sin()) }).collect(), "corpus_sine_300_points", "smooth"),
    ];
    for (pts, source, class) in corpus { check(&mut stats, &Input { tag: "corpus".into(), pts, source, noise: 0.0, repeated: "none", class }, 0.5); }
    for it in 0..n {
        let mut input = gen_input(&mut rng);
        input.tag = format!("seed={} case={}", seed, it);
        let max_error = if rng.b() { rng.r(0.05, 2.0) } else { 10f64.powf(rng.r(0.05f64.log10(), 2f64.log10())) };
        check(&mut stats, &input, max_error);
    }
    stats.print("C08", "search");
    finish();
}
