//! C03: colliding path graphs yields a planar, balanced, shape-preserving graph (through the public graph queries).
use crate::c02::{crossings, from_curve};
use crate::shapes::*;
use crate::util::*;
use flo_curves::bezier::path::*;
use flo_curves::bezier::*;

const PROP: &str = "C03";
const ACC: f64 = 0.01;
type G = GraphPath<Coord2, PathLabel>;

struct EdgeInfo { cubic: Cubic, label: u32, start: usize, end: usize, flat: Vec<Coord2> }

fn edges_of(g: &G) -> Vec<EdgeInfo> {
    g.all_edges().map(|e| {
        let cubic = from_curve(&e);
        let flat = if is_straight(&cubic) { vec![cubic[0], cubic[3]] } else { (0..=32).map(|k| bez(&cubic, k as f64 / 32.0)).collect() };
        EdgeInfo { cubic, label: e.label().0, start: e.start_point_index(), end: e.end_point_index(), flat }
    }).collect()
}

fn dist_open_polyline(p: Coord2, q: &[Coord2]) -> f64 { q.windows(2).fold(f64::MAX, |d, w| d.min(dist_seg(p, w[0], w[1]))) }

/// the checks of the statement on a collided graph. `inputs`: (paths, label) as they went in; `class` goes into the keys
fn check_graph(stats: &mut Stats, g: &G, inputs: &[(&Vec<P>, u32)], class: &str, detail: &dyn Fn() -> String) {
    let np = g.num_points();
    let edges = edges_of(g);
    stats.add("graph_edges", edges.len() as u64);
    stats.add("graph_points", np as u64);
    // every edge runs between valid points; balance
    let mut indeg = vec![0usize; np];
    let mut outdeg = vec![0usize; np];
    let mut valid = true;
    for (i, e) in edges.iter().enumerate() {
        if e.start >= np || e.end >= np { stats.fail(PROP, &format!("edge_end_out_of_range.{}", class), &format!("edge {} runs {} -> {} but the graph has {} points {}", i, e.start, e.end, np, detail())); valid = false; continue; }
        if !(e.cubic.iter().all(|p| p.0.is_finite() && p.1.is_finite())) { stats.fail(PROP, &format!("edge_not_finite.{}", class), &format!("edge {} = {:?} {}", i, e.cubic, detail())); valid = false; continue; }
        outdeg[e.start] += 1; indeg[e.end] += 1;
    }
    if !valid { return; }
    for p in 0..np {
        if indeg[p] != outdeg[p] { stats.fail(PROP, &format!("in_out_degree.{}", class), &format!("point {} at {:?} has {} incoming and {} outgoing edges {}", p, g.point_position(p), indeg[p], outdeg[p], detail())); break; }
    }
    for p in 0..np {
        // the incoming edges as the graph reports them
        let rev: Vec<(usize, usize)> = g.reverse_edges_for_point(p).map(|e| (e.start_point_index(), e.end_point_index())).collect();
        if rev.iter().any(|(s, _)| *s != p) { stats.fail(PROP, &format!("reverse_edge_wrong_point.{}", class), &format!("reverse_edges_for_point({}) = {:?} (start, end as reversed) {}", p, rev, detail())); break; }
        if rev.len() > indeg[p] { stats.fail(PROP, &format!("reverse_edges_duplicated.{}", class), &format!("point {} at {:?}: reverse_edges_for_point lists {} edges {:?}, the edge set has {} edges ending there {}", p, g.point_position(p), rev.len(), rev, indeg[p], detail())); break; }
        if rev.len() < indeg[p] { stats.fail(PROP, &format!("reverse_edges_missing.{}", class), &format!("point {} at {:?}: reverse_edges_for_point lists {} edges, the edge set has {} edges ending there {}", p, g.point_position(p), rev.len(), indeg[p], detail())); break; }
    }
    // shape preservation and labels (0.05 at accuracy 0.01)
    'shape: for (paths, label) in inputs {
        let flats: Vec<Poly> = paths.iter().map(flatten).collect();
        for fp in &flats {
            for q in fp.iter().step_by(3) {
                let (mut d_same, mut d_any) = (f64::MAX, f64::MAX);
                for e in &edges { let d = dist_open_polyline(*q, &e.flat); d_any = d_any.min(d); if e.label == *label { d_same = d_same.min(d); } }
                if d_same > 0.05 {
                    // confirm on a finer flattening of the edges before reporting
                    let (mut f_same, mut f_any) = (f64::MAX, f64::MAX);
                    for e in &edges { let fine: Vec<Coord2> = (0..=512).map(|k| bez(&e.cubic, k as f64 / 512.0)).collect(); let d = dist_open_polyline(*q, &fine); f_any = f_any.min(d); if e.label == *label { f_same = f_same.min(d); } }
                    let _ = (d_any, d_same);
                    if f_same > 0.05 {
                        if f_any <= 0.05 { stats.fail(PROP, &format!("label_changed.{}", class), &format!("input point {:?} of the path labelled {} is {} from the nearest edge with that label but {} from an edge with another label {}", q, label, f_same, f_any, detail())); }
                        else { stats.fail(PROP, &format!("shape_not_preserved.input_point_off_graph.{}", class), &format!("input point {:?} of the path labelled {} is {} from every edge {}", q, label, f_any, detail())); }
                        break 'shape;
                    }
                }
            }
        }
        let fines: Vec<Poly> = paths.iter().map(flatten_fine).collect();
        for (i, e) in edges.iter().enumerate() {
            if e.label != *label { continue; }
            let samples: Vec<Coord2> = (0..=16).map(|k| bez(&e.cubic, k as f64 / 16.0)).collect();
            for q in &samples {
                if dist_polys(*q, &flats) <= 0.04 { continue; }
                let d = dist_polys(*q, &fines);
                if d > 0.05 {
                    // on another input?
                    let other = inputs.iter().filter(|(_, l)| l != label).any(|(ps, _)| dist_polys(*q, &ps.iter().map(flatten_fine).collect::<Vec<_>>()) <= 0.05);
                    if other { stats.fail(PROP, &format!("label_changed.{}", class), &format!("point {:?} of edge {} ({:?}, label {}) is {} from the input with that label but lies on an input with another label {}", q, i, e.cubic, label, d, detail())); }
                    else { stats.fail(PROP, &format!("shape_not_preserved.edge_point_off_input.{}", class), &format!("point {:?} of edge {} ({:?}, label {}) is {} from its input path {}", q, i, e.cubic, label, d, detail())); }
                    break 'shape;
                }
            }
        }
    }
    if !inputs.iter().any(|(_, l)| edges.iter().any(|e| e.label == *l)) && !edges.is_empty() { stats.fail(PROP, &format!("label_changed.{}", class), &format!("no edge carries an input label {}", detail())); }
    for e in &edges { if !inputs.iter().any(|(_, l)| *l == e.label) { stats.fail(PROP, &format!("label_changed.{}", class), &format!("edge {:?} has label {} which no input had {}", e.cubic, e.label, detail())); break; } }
    // planarity: no two distinct edges cross transversally away from their end points
    'outer: for i in 0..edges.len() { for j in (i + 1)..edges.len() {
        let (ei, ej) = (&edges[i], &edges[j]);
        let bi = bbox_of(&[ei.cubic.to_vec()]);
        let bj = bbox_of(&[ej.cubic.to_vec()]);
        if bi.0 .0 > bj.1 .0 || bj.0 .0 > bi.1 .0 || bi.0 .1 > bj.1 .1 || bj.0 .1 > bi.1 .1 { continue; }
        stats.count("edge_pairs_tested");
        let mut suspicious = false;
        'seg: for wi in ei.flat.windows(2) { for wj in ej.flat.windows(2) { if segs_cross(wi[0], wi[1], wj[0], wj[1]) { suspicious = true; break 'seg; } } }
        if !suspicious { continue; }
        // exact crossings of the two cubics
        if let Some(cs) = crossings(&ei.cubic, &ej.cubic) {
            for c in cs {
                let ends = [ei.cubic[0], ei.cubic[3], ej.cubic[0], ej.cubic[3]];
                let d_end = ends.iter().fold(f64::MAX, |d, v| d.min(dist(*v, c.p)));
                if d_end > 0.05 && c.sin > 0.05 {
                    stats.fail(PROP, &format!("edges_cross.{}", class), &format!("edges {} ({:?}, label {}) and {} ({:?}, label {}) cross at {:?} (t={}, {}; sin={}; {} from the nearest edge end) {}", i, ei.cubic, ei.label, j, ej.cubic, ej.label, c.p, c.u, c.v, c.sin, d_end, detail()));
                    break 'outer;
                }
            }
        }
    } }
}

fn collide_pair(stats: &mut Stats, a: &Vec<P>, b: &Vec<P>, class: &str) {
    let detail = || format!("A={:?} B={:?}", a, b);
    let (a2, b2) = (a.clone(), b.clone());
    let g = run_guarded(stats, PROP, "collide", &detail, move || {
        let ga = GraphPath::from_merged_paths(a2.iter().map(|p| (p, PathLabel(0))));
        let gb = GraphPath::from_merged_paths(b2.iter().map(|p| (p, PathLabel(1))));
        ga.collide(gb, ACC)
    });
    if let Some(g) = g { check_graph(stats, &g, &[(a, 0), (b, 1)], class, &detail); }
}

fn self_collide_set(stats: &mut Stats, set: &Vec<P>, class: &str) {
    let detail = || format!("self_collide of {:?}", set);
    let s2 = set.clone();
    let g = run_guarded(stats, PROP, "self_collide", &detail, move || {
        let mut g = GraphPath::from_merged_paths(s2.iter().map(|p| (p, PathLabel(0))));
        g.self_collide(ACC);
        g
    });
    if let Some(g) = g { check_graph(stats, &g, &[(set, 0)], class, &detail); }
}

pub fn search(seed: u64, n: u64) {
    quiet_panics();
    let mut rng = Rng(seed ^ 0x5EA2C03);
    let mut stats = Stats::new();
    // fixed corpus: the tangent / shared-edge corpus (it contains the squares (50,40)-(70,60) vs (40,40)-(70,70)), 4 variants
    for (name, a, b) in tangent_corpus() {
        for v in 0..4 {
            let (a, b) = corpus_variant(&a, &b, v);
            stats.case(&format!("corpus {} {} A={:?} B={:?}", name, VARIANTS[v], a, b), true);
            stats.count("corpus_case");
            collide_pair(&mut stats, &a, &b, &format!("corpus.{}.{}", name, VARIANTS[v]));
        }
    }
    // grid rectangles sharing edges: all placements of a 2x1 against a 2x2 block on the 10-grid
    for dx in -2..=2i32 { for dy in -2..=2i32 {
        let a = vec![rect(40.0, 40.0, 60.0, 60.0)];
        let b = vec![rect(40.0 + 10.0 * dx as f64, 40.0 + 10.0 * dy as f64, 60.0 + 10.0 * dx as f64, 50.0 + 10.0 * dy as f64)];
        stats.case(&format!("corpus grid dx={} dy={} A={:?} B={:?}", dx, dy, a, b), true);
        stats.count("corpus_grid_case");
        collide_pair(&mut stats, &a, &b, "corpus.grid_rects");
    } }
    for it in 0..n {
        if it % 5 == 4 {
            // one graph collided with itself: a set of overlapping simple shapes under one label
            let k = 2 + rng.i(2) as usize;
            let set: Vec<P> = (0..k).map(|_| { let s = rand_shape(&mut rng); redirect(&mut rng, &s.path) }).collect();
            stats.count("input.self_collide");
            stats.case(&format!("self_collide {:?}", set), true);
            self_collide_set(&mut stats, &set, "self_collide");
        } else {
            let pair = gen_pair(&mut rng);
            count_pair(&mut stats, &pair);
            let (oa, ob) = (Operand::new(&pair.a), Operand::new(&pair.b));
            let meet = crate::c01::boundaries_within(&oa, &ob, 0.05);
            if meet { stats.count("boundaries_meet"); }
            stats.case(&format!("{} A={:?} B={:?}", pair.relation, pair.a, pair.b), meet);
            collide_pair(&mut stats, &pair.a, &pair.b, &pair.class);
        }
    }
    stats.print(PROP, "search");
}
