//! C03: colliding path graphs yields a planar, balanced, shape-preserving graph (through the public graph queries).
use crate::c02::{crossings, from_curve};
use crate::shapes::*;
use crate::util::*;
use flo_curves::bezier::path::*;
use flo_curves::bezier::*;

const PROP: &str = "C03";
const ACC: f64 = 0.01;
type G = GraphPath<Coord2, PathLabel>;

struct EdgeInfo { cubic: Cubic, label: u32, start: usize, end: usize, flat: Vec<Coord2> }

fn edges_of(g: &G) -> Vec<EdgeInfo> {
    g.all_edges().map(|e| {
        let cubic = from_curve(&e);
        let flat = if is_straight(&cubic) { vec![cubic[0], cubic[3]] } else { (0..=32).map(|k| bez(&cubic, k as f64 / 32.0)).collect() };
        EdgeInfo { cubic, label: e.label().0, start: e.start_point_index(), end: e.end_point_index(), flat }
    }).collect()
}

/// why a crossing at `c` of the inputs is not a point of the collided graph: asks `curve_intersects_curve_clip` (the routine
/// `find_collisions` uses) about the edges of the input graphs that pass `c`.
///   hit_reported_twice_removed_as_pair : one call reports the crossing as two hits less than SMALL_T_DISTANCE apart in both
///                                        parameters; remove_and_round_close_collisions removes such a pair as a tangential touch
///   found_by_clip_not_in_graph         : the routine finds the crossing, the graph still lacks it
///   missed_by_clip                     : the routine does not report it (completeness of the intersection routine, C02)
fn classify_missed_crossing(inputs: &[(&Vec<P>, u32)], c: Coord2) -> &'static str {
    let mut near: Vec<(u32, Curve<Coord2>)> = vec![];
    for (paths, label) in inputs { for p in paths.iter() {
        let p2 = p.clone();
        let g = match std::panic::catch_unwind(move || GraphPath::from_path(&p2, PathLabel(0))) { Ok(g) => g, Err(_) => continue };
        for e in g.all_edges() {
            let cubic = from_curve(&e);
            let flat: Vec<Coord2> = (0..=256).map(|k| bez(&cubic, k as f64 / 256.0)).collect();
            if dist_open_polyline(c, &flat) < 0.05 { near.push((*label, Curve::from_curve(&e))); }
        }
    } }
    let mut found = false;
    for i in 0..near.len() { for j in 0..near.len() {
        if i == j { continue; }
        if inputs.len() > 1 && near[i].0 == near[j].0 { continue; }
        let (x, y) = (near[i].1.clone(), near[j].1.clone());
        let hits = match std::panic::catch_unwind(move || { let h = curve_intersects_curve_clip(&x, &y, ACC); h.into_iter().map(|(t1, t2)| (t1, t2, x.point_at_pos(t1))).collect::<Vec<_>>() }) { Ok(h) => h, Err(_) => continue };
        let hits: Vec<_> = hits.into_iter().filter(|(_, _, p)| dist(*p, c) < 0.05).collect();
        if !hits.is_empty() { found = true; }
        for a in 0..hits.len() { for b in (a + 1)..hits.len() {
            if (hits[a].0 - hits[b].0).abs() < 1e-6 && (hits[a].1 - hits[b].1).abs() < 1e-6 { return "hit_reported_twice_removed_as_pair"; }
        } }
    } }
    if found { "found_by_clip_not_in_graph" } else { "missed_by_clip" }
}

fn dist_open_polyline(p: Coord2, q: &[Coord2]) -> f64 { q.windows(2).fold(f64::MAX, |d, w| d.min(dist_seg(p, w[0], w[1]))) }

/// the checks of the statement on a collided graph. `inputs`: (paths, label) as they went in; `class` goes into the keys
fn check_graph(stats: &mut Stats, g: &G, inputs: &[(&Vec<P>, u32)], class: &str, detail: &dyn Fn() -> String) { check_graph_x(stats, g, inputs, class, detail, false) }

/// `between_inputs_only`: `collide` resolves the crossings BETWEEN its two operands; crossings of an operand with itself are the
/// business of `self_collide`, so for a self-intersecting operand only pairs of edges with different labels are tested
fn check_graph_x(stats: &mut Stats, g: &G, inputs: &[(&Vec<P>, u32)], class: &str, detail: &dyn Fn() -> String, between_inputs_only: bool) {
    let np = g.num_points();
    let edges = edges_of(g);
    stats.add("graph_edges", edges.len() as u64);
    stats.add("graph_points", np as u64);
    // every edge runs between valid points; balance
    let mut indeg = vec![0usize; np];
    let mut outdeg = vec![0usize; np];
    let mut valid = true;
    for (i, e) in edges.iter().enumerate() {
        if e.start >= np || e.end >= np { stats.fail(PROP, &format!("edge_end_out_of_range.{}", class), &format!("edge {} runs {} -> {} but the graph has {} points {}", i, e.start, e.end, np, detail())); valid = false; continue; }
        if !(e.cubic.iter().all(|p| p.0.is_finite() && p.1.is_finite())) { stats.fail(PROP, &format!("edge_not_finite.{}", class), &format!("edge {} = {:?} {}", i, e.cubic, detail())); valid = false; continue; }
        outdeg[e.start] += 1; indeg[e.end] += 1;
    }
    if !valid { return; }
    for p in 0..np {
        if indeg[p] != outdeg[p] { stats.fail(PROP, &format!("in_out_degree.{}", class), &format!("point {} at {:?} has {} incoming and {} outgoing edges {}", p, g.point_position(p), indeg[p], outdeg[p], detail())); break; }
    }
    for p in 0..np {
        // the incoming edges as the graph reports them
        let rev: Vec<(usize, usize)> = g.reverse_edges_for_point(p).map(|e| (e.start_point_index(), e.end_point_index())).collect();
        if rev.iter().any(|(s, _)| *s != p) { stats.fail(PROP, &format!("reverse_edge_wrong_point.{}", class), &format!("reverse_edges_for_point({}) = {:?} (start, end as reversed) {}", p, rev, detail())); break; }
        if rev.len() > indeg[p] { stats.fail(PROP, &format!("reverse_edges_duplicated.{}", class), &format!("point {} at {:?}: reverse_edges_for_point lists {} edges {:?}, the edge set has {} edges ending there {}", p, g.point_position(p), rev.len(), rev, indeg[p], detail())); break; }
        if rev.len() < indeg[p] { stats.fail(PROP, &format!("reverse_edges_missing.{}", class), &format!("point {} at {:?}: reverse_edges_for_point lists {} edges, the edge set has {} edges ending there {}", p, g.point_position(p), rev.len(), indeg[p], detail())); break; }
    }
    // shape preservation and labels (0.05 at accuracy 0.01)
    'shape: for (paths, label) in inputs {
        let flats: Vec<Poly> = paths.iter().map(flatten).collect();
        for fp in &flats {
            for q in fp.iter().step_by(3) {
                let (mut d_same, mut d_any) = (f64::MAX, f64::MAX);
                for e in &edges { let d = dist_open_polyline(*q, &e.flat); d_any = d_any.min(d); if e.label == *label { d_same = d_same.min(d); } }
                if gt(d_same, 0.05) {
                    // confirm on a finer flattening of the edges before reporting
                    let (mut f_same, mut f_any) = (f64::MAX, f64::MAX);
                    for e in &edges { let fine: Vec<Coord2> = (0..=512).map(|k| bez(&e.cubic, k as f64 / 512.0)).collect(); let d = dist_open_polyline(*q, &fine); f_any = f_any.min(d); if e.label == *label { f_same = f_same.min(d); } }
                    let _ = (d_any, d_same);
                    if gt(f_same, 0.05) {
                        if f_any <= 0.05 { stats.fail(PROP, &format!("label_changed.{}", class), &format!("input point {:?} of the path labelled {} is {} from the nearest edge with that label but {} from an edge with another label {}", q, label, f_same, f_any, detail())); }
                        else { stats.fail(PROP, &format!("shape_not_preserved.input_point_off_graph.{}", class), &format!("input point {:?} of the path labelled {} is {} from every edge {}", q, label, f_any, detail())); }
                        break 'shape;
                    }
                }
            }
        }
        let fines: Vec<Poly> = paths.iter().map(flatten_fine).collect();
        for (i, e) in edges.iter().enumerate() {
            if e.label != *label { continue; }
            let samples: Vec<Coord2> = (0..=16).map(|k| bez(&e.cubic, k as f64 / 16.0)).collect();
            for q in &samples {
                if dist_polys(*q, &flats) <= 0.04 { continue; }
                let d = dist_polys(*q, &fines);
                if gt(d, 0.05) {
                    // on another input?
                    let other = inputs.iter().filter(|(_, l)| l != label).any(|(ps, _)| dist_polys(*q, &ps.iter().map(flatten_fine).collect::<Vec<_>>()) <= 0.05);
                    if other { stats.fail(PROP, &format!("label_changed.{}", class), &format!("point {:?} of edge {} ({:?}, label {}) is {} from the input with that label but lies on an input with another label {}", q, i, e.cubic, label, d, detail())); }
                    else { stats.fail(PROP, &format!("shape_not_preserved.edge_point_off_input.{}", class), &format!("point {:?} of edge {} ({:?}, label {}) is {} from its input path {}", q, i, e.cubic, label, d, detail())); }
                    break 'shape;
                }
            }
        }
    }
    if !inputs.iter().any(|(_, l)| edges.iter().any(|e| e.label == *l)) && !edges.is_empty() { stats.fail(PROP, &format!("label_changed.{}", class), &format!("no edge carries an input label {}", detail())); }
    for e in &edges { if !inputs.iter().any(|(_, l)| *l == e.label) { stats.fail(PROP, &format!("label_changed.{}", class), &format!("edge {:?} has label {} which no input had {}", e.cubic, e.label, detail())); break; } }
    // a crossing AT A VERTEX: the path runs through a graph point P (one edge in, one edge out) that lies on the interior of a straight edge E
    // which does not end there, arriving from one side of E and leaving to the other: that crossing has to be a shared point, i.e. E has to
    // be divided at P
    'vertex: for p in 0..np {
        if indeg[p] != 1 || outdeg[p] != 1 { continue; }
        let pos = g.point_position(p);
        let (ein, eout) = match (edges.iter().find(|e| e.end == p), edges.iter().find(|e| e.start == p)) { (Some(a), Some(b)) => (a, b), _ => continue };
        let d_in = { let d = bez_d(&ein.cubic, 1.0); if len(d) > 0.0 { d } else { ein.cubic[3] - ein.cubic[0] } };
        let d_out = { let d = bez_d(&eout.cubic, 0.0); if len(d) > 0.0 { d } else { eout.cubic[3] - eout.cubic[0] } };
        if !(len(d_in) > 0.0 && len(d_out) > 0.0) { continue; }
        for (j, e) in edges.iter().enumerate() {
            if e.start == p || e.end == p || !is_straight(&e.cubic) { continue; }
            if between_inputs_only && (e.label == ein.label) { continue; }
            let (a, b) = (e.cubic[0], e.cubic[3]);
            let t = b - a;
            if !(len(t) > 0.2) { continue; }
            if gt(dist_seg(pos, a, b), 1e-9) || !gt(dist(pos, a), 0.05) || !gt(dist(pos, b), 0.05) { continue; }
            let (s_in, s_out) = (cross(t, d_in) / (len(t) * len(d_in)), cross(t, d_out) / (len(t) * len(d_out)));
            if s_in.abs() > 0.05 && s_out.abs() > 0.05 && (s_in > 0.0) == (s_out > 0.0) {
                stats.fail(PROP, &format!("vertex_crossing_not_shared.{}", class), &format!("the path runs through graph point {} at {:?} (in along {:?}, out along {:?}) across edge {} ({:?}, label {}), which is not divided there {}", p, pos, d_in, d_out, j, e.cubic, e.label, detail()));
                break 'vertex;
            }
        }
    }
    // planarity: no two distinct edges cross transversally away from their end points
    'outer: for i in 0..edges.len() { for j in (i + 1)..edges.len() {
        let (ei, ej) = (&edges[i], &edges[j]);
        if between_inputs_only && ei.label == ej.label { continue; }
        let bi = bbox_of(&[ei.cubic.to_vec()]);
        let bj = bbox_of(&[ej.cubic.to_vec()]);
        if bi.0 .0 > bj.1 .0 || bj.0 .0 > bi.1 .0 || bi.0 .1 > bj.1 .1 || bj.0 .1 > bi.1 .1 { continue; }
        stats.count("edge_pairs_tested");
        let mut suspicious = false;
        'seg: for wi in ei.flat.windows(2) { for wj in ej.flat.windows(2) { if segs_cross(wi[0], wi[1], wj[0], wj[1]) { suspicious = true; break 'seg; } } }
        if !suspicious { continue; }
        // exact crossings of the two cubics
        if let Some(cs) = crossings(&ei.cubic, &ej.cubic) {
            for c in cs {
                let ends = [ei.cubic[0], ei.cubic[3], ej.cubic[0], ej.cubic[3]];
                let d_end = ends.iter().fold(f64::MAX, |d, v| d.min(dist(*v, c.p)));
                if gt(d_end, 0.05) && gt(c.sin, 0.05) {
                    let why = classify_missed_crossing(inputs, c.p);
                    stats.fail(PROP, &format!("edges_cross.{}.{}.input_{:016x}", why, class, fnv(&detail())), &format!("edges {} ({:?}, label {}) and {} ({:?}, label {}) cross at {:?} (t={}, {}; sin={}; {} from the nearest edge end; {}) {}", i, ei.cubic, ei.label, j, ej.cubic, ej.label, c.p, c.u, c.v, c.sin, d_end, why, detail()));
                    break 'outer;
                }
            }
        }
    } }
}

fn collide_pair(stats: &mut Stats, a: &Vec<P>, b: &Vec<P>, class: &str) { collide_pair_x(stats, a, b, class, false) }

fn collide_pair_x(stats: &mut Stats, a: &Vec<P>, b: &Vec<P>, class: &str, between_inputs_only: bool) {
    let detail = || format!("A={:?} B={:?}", a, b);
    let (a2, b2) = (a.clone(), b.clone());
    let g = run_guarded(stats, PROP, "collide", &detail, move || {
        let ga = GraphPath::from_merged_paths(a2.iter().map(|p| (p, PathLabel(0))));
        let gb = GraphPath::from_merged_paths(b2.iter().map(|p| (p, PathLabel(1))));
        ga.collide(gb, ACC)
    });
    if let Some(g) = g { check_graph_x(stats, &g, &[(a, 0), (b, 1)], class, &detail, between_inputs_only); }
}

/// A collided with B, and the result collided with a third path C: the later pieces of an edge divided in the SECOND collision must keep
/// the label of the path the edge came from (an edge that starts at a crossing of A and B is not that point's only edge)
fn collide_chain(stats: &mut Stats, a: &Vec<P>, b: &Vec<P>, c: &Vec<P>, class: &str) {
    let detail = || format!("A={:?} B={:?} C={:?}", a, b, c);
    let (a2, b2, c2) = (a.clone(), b.clone(), c.clone());
    let g = run_guarded(stats, PROP, "collide", &detail, move || {
        let ga = GraphPath::from_merged_paths(a2.iter().map(|p| (p, PathLabel(0))));
        let gb = GraphPath::from_merged_paths(b2.iter().map(|p| (p, PathLabel(1))));
        let gc = GraphPath::from_merged_paths(c2.iter().map(|p| (p, PathLabel(2))));
        ga.collide(gb, ACC).collide(gc, ACC)
    });
    if let Some(g) = g { check_graph_x(stats, &g, &[(a, 0), (b, 1), (c, 2)], class, &detail, true); }
}

fn self_collide_set(stats: &mut Stats, set: &Vec<P>, class: &str) {
    let detail = || format!("self_collide of {:?}", set);
    let s2 = set.clone();
    let g = run_guarded(stats, PROP, "self_collide", &detail, move || {
        let mut g = GraphPath::from_merged_paths(s2.iter().map(|p| (p, PathLabel(0))));
        g.self_collide(ACC);
        g
    });
    if let Some(g) = g { check_graph(stats, &g, &[(set, 0)], class, &detail); }
}

pub fn search(seed: u64, n: u64) {
    quiet_panics();
    let mut rng = Rng(seed ^ 0x5EA2C03);
    let mut stats = Stats::new();
    // fixed corpus: the tangent / shared-edge corpus (it contains the squares (50,40)-(70,60) vs (40,40)-(70,70)), 4 variants
    for (name, a, b) in tangent_corpus() {
        for v in 0..4 {
            let (a, b) = corpus_variant(&a, &b, v);
            stats.case(&format!("corpus {} {} A={:?} B={:?}", name, VARIANTS[v], a, b), true);
            stats.count("corpus_case");
            collide_pair(&mut stats, &a, &b, &format!("corpus.{}.{}", name, VARIANTS[v]));
        }
    }
    // grid rectangles sharing edges: all placements of a 2x1 against a 2x2 block on the 10-grid
    for dx in -2..=2i32 { for dy in -2..=2i32 {
        let a = vec![rect(40.0, 40.0, 60.0, 60.0)];
        let b = vec![rect(40.0 + 10.0 * dx as f64, 40.0 + 10.0 * dy as f64, 60.0 + 10.0 * dx as f64, 50.0 + 10.0 * dy as f64)];
        stats.case(&format!("corpus grid dx={} dy={} A={:?} B={:?}", dx, dy, a, b), true);
        stats.count("corpus_grid_case");
        collide_pair(&mut stats, &a, &b, "corpus.grid_rects");
    } }
    // a path that crosses itself at one of its own vertices, the vertex lying EXACTLY on an axis-parallel edge of the path (zero-width
    // bounding box of that edge in the sweep); own stream, coordinates on the 1/4 grid so that the vertex is exactly on the edge
    let mut rng_v = Rng(seed ^ 0x7E27C03);
    for k in 0..(4 + n / 50) {
        let g = |rng: &mut Rng, lo: i64, hi: i64| (lo + rng.i((hi - lo + 1) as u64) as i64) as f64 * 0.25;
        let (x0, y0) = (g(&mut rng_v, 120, 240), g(&mut rng_v, 40, 120));
        let hgt = g(&mut rng_v, 16, 80);
        let yv = y0 + (hgt * rng_v.r(0.2, 0.8) * 4.0).round() * 0.25;
        let (a, b, c) = (g(&mut rng_v, 8, 60), g(&mut rng_v, 8, 60), g(&mut rng_v, -6, 6));
        let mut pts = vec![Coord2(x0, y0), Coord2(x0, y0 + hgt), Coord2(x0 - a, y0 + hgt), Coord2(x0 - a, yv), Coord2(x0, yv), Coord2(x0 + b, (yv + c).max(y0 + 0.5)), Coord2(x0 + b, y0)];
        if k % 2 == 1 { for q in pts.iter_mut() { *q = Coord2(q.1, q.0); } }
        let p = redirect(&mut rng_v, &polygon(&pts));
        stats.count("input.vertex_on_axis_parallel_edge");
        stats.case(&format!("self_collide vertex_on_axis_parallel_edge {:?}", p), true);
        self_collide_set(&mut stats, &vec![p], "odd_self.vertex_on_axis_parallel_edge");
    }
    // an edge of the other path running exactly through the DOUBLE POINT of a looping cubic edge: it crosses both branches at (nearly) one
    // position - two hits with the same parameter on the straight edge and different parameters on the cubic (own stream; integer scales
    // and offsets of the loop (0,0),(14,8),(-4,8),(10,0), whose double point (5, 3.75) is exact)
    let mut rng_dp = Rng(seed ^ 0xD0B1C03);
    for k in 0..(4 + n / 60) {
        let sc = (1 + rng_dp.i(4)) as f64;
        let off = Coord2((5 + rng_dp.i(40)) as f64, (5 + rng_dp.i(40)) as f64);
        let q = |x: f64, y: f64| Coord2(off.0 + sc * x, off.1 + sc * y);
        let looped: P = (q(0.0, 0.0), vec![(q(14.0, 8.0), q(-4.0, 8.0), q(10.0, 0.0)), { let (a, b) = (q(10.0, 0.0), q(0.0, 0.0)); (a + (b - a) * (1.0 / 3.0), a + (b - a) * (2.0 / 3.0), b) }]);
        let x = q(5.0, 3.75);
        let other = if k % 2 == 0 { polygon(&[Coord2(x.0 - 8.0 * sc, x.1), Coord2(x.0 + 8.0 * sc, x.1), Coord2(x.0 + 8.0 * sc, x.1 - sc), Coord2(x.0 - 8.0 * sc, x.1 - sc)]) }
            else { polygon(&[Coord2(x.0 - 4.0 * sc, x.1 - 3.0 * sc), Coord2(x.0 + 4.0 * sc, x.1 + 3.0 * sc), Coord2(x.0 + 6.0 * sc, x.1 - 5.0 * sc)]) };
        let (a, b) = if k % 4 < 2 { (vec![looped], vec![other]) } else { (vec![other], vec![looped]) };
        stats.count("input.through_double_point_of_loop");
        stats.case(&format!("through_double_point_of_loop A={:?} B={:?}", a, b), true);
        collide_pair_x(&mut stats, &a, &b, "through_double_point_of_loop", true);
    }
    for it in 0..n {
        if it % 11 == 10 {
            // a self-intersecting or degenerate path (bow tie, looped cubic, tear drop, repeated vertex, pentagram) against a shape,
            // or collided with itself
            let (p, k) = odd_path(&mut rng);
            // the property quantifies over closed paths (from_path closes an open path with an extra edge)
            let p = closed_path(&p);
            if p.1.is_empty() { stats.count("input.odd.empty_skipped"); continue; }
            stats.count(&format!("input.odd.{}", k));
            if rng.b() {
                let s = rand_shape(&mut rng);
                stats.case(&format!("odd {} A={:?} B={:?}", k, p, s.path), true);
                collide_pair_x(&mut stats, &vec![p], &vec![s.path], &format!("odd.{}", k), true);
            } else {
                stats.case(&format!("odd self_collide {} {:?}", k, p), true);
                self_collide_set(&mut stats, &vec![p], &format!("odd_self.{}", k));
            }
        } else if it % 10 == 7 {
            // three operands collided in turn
            let (sa, sb, sc) = (rand_shape(&mut rng), rand_shape(&mut rng), rand_shape(&mut rng));
            stats.count("input.chain_of_3");
            stats.case(&format!("chain A={:?} B={:?} C={:?}", sa.path, sb.path, sc.path), true);
            collide_chain(&mut stats, &vec![sa.path], &vec![sb.path], &vec![sc.path], "chain_of_3");
        } else if it % 5 == 4 {
            // one graph collided with itself: a set of overlapping simple shapes under one label
            let k = 2 + rng.i(2) as usize;
            let set: Vec<P> = (0..k).map(|_| { let s = rand_shape(&mut rng); redirect(&mut rng, &s.path) }).collect();
            stats.count("input.self_collide");
            stats.case(&format!("self_collide {:?}", set), true);
            self_collide_set(&mut stats, &set, "self_collide");
        } else {
            let pair = gen_pair(&mut rng);
            count_pair(&mut stats, &pair);
            let (oa, ob) = (Operand::new(&pair.a), Operand::new(&pair.b));
            let meet = crate::c01::boundaries_within(&oa, &ob, 0.05);
            if meet { stats.count("boundaries_meet"); }
            stats.case(&format!("{} A={:?} B={:?}", pair.relation, pair.a, pair.b), meet);
            collide_pair(&mut stats, &pair.a, &pair.b, &pair.class);
        }
    }
    // the same kind of input away from the positive quadrant (own stream): shapes wholly at negative coordinates, straddling an
    // axis, far from the origin - the collision search must not depend on where the shapes are (from seeded change C03-m9)
    let mut rng_t = Rng(seed ^ 0x72A25C03);
    for k in 0..(6 + n / 12) {
        let (sa, sb) = (rand_shape(&mut rng_t), rand_shape(&mut rng_t));
        let off = match k % 6 { 0 => Coord2(-250.0, -40.0), 1 => Coord2(-50.0, 0.0), 2 => Coord2(0.0, -50.0), 3 => Coord2(-300.0, 200.0), 4 => Coord2(-1000.0, -1000.0), _ => Coord2(-rng_t.r(20.0, 80.0), -rng_t.r(20.0, 80.0)) };
        let tr = |p: &P| -> P { (p.0 + off, p.1.iter().map(|(a, b, c)| (*a + off, *b + off, *c + off)).collect()) };
        let (a, b) = (vec![tr(&sa.path)], vec![tr(&sb.path)]);
        stats.count("input.translated");
        stats.case(&format!("translated by {:?} A={:?} B={:?}", off, a, b), true);
        collide_pair(&mut stats, &a, &b, "translated");
    }
    stats.print(PROP, "search");
}

// ================================================================================================ correspondence
// Transcripts for the Lean model `Model.Graph` (lean/FloVerif/Driver/C03.lean).
//   graph block  G := #np { px py #ne { #end #fol #label #kind c1x c1y c2x c2y }* #nr { #rs #ri }* #nc { #c }* }*
//                 (#label / #nr / #nc = 999999 when the source of the dump does not provide them:
//                  the public queries give labels and reverse edges, the hook gives connected_from)
//   C03 from_path D #label #nsections { #skip }* #closed | G
//   C03 merge     D G(a) G(b) | G(merged)
//   C03 collide   D G(start, public) #ncoll { #p1 #e1 t1 #p2 #e2 t2 }* #npts { #q }* #any #nacc { #a #b }* #nrem { #p #e }*
//                   | G(start, hook) #has_split [G(split) G(recalc)] G(combined) G(end) G(final, public)      (hook only)
//   C03 final     D #nlabels { #label }* | G(final, public)                                                   (without the hook)
const UNKNOWN: usize = 999_999;
const CLOSE: f64 = 0.01; // consts::CLOSE_DISTANCE (private module)

struct EdgeRec { end: usize, fol: usize, label: usize, kind: usize, cp: [f64; 4] }
struct PointRec { pos: (f64, f64), edges: Vec<EdgeRec>, rev: Option<Vec<(usize, usize)>>, conn: Option<Vec<usize>> }

/// start_idx, edge_idx of an edge reference (its fields are crate-private; it derives Debug)
fn ref_numbers(r: &GraphEdgeRef) -> (usize, usize) {
    let s = format!("{:?}", r);
    let num = |key: &str| -> usize { s.split(key).nth(1).map(|t| t.trim_start_matches(|c: char| c == ':' || c == ' ').chars().take_while(|c| c.is_ascii_digit()).collect::<String>()).and_then(|t| t.parse().ok()).unwrap_or(UNKNOWN) };
    (num("start_idx"), num("edge_idx"))
}

fn kind_number(k: GraphPathEdgeKind) -> usize {
    match k { GraphPathEdgeKind::Uncategorised => 0, GraphPathEdgeKind::Visited => 1, GraphPathEdgeKind::Exterior => 2, GraphPathEdgeKind::Interior => 3 }
}

/// the graph as the public queries show it (+ connected_from when the hook is there)
fn public_dump(g: &G) -> Vec<PointRec> {
    let np = g.num_points();
    #[cfg(has_collide_hook)]
    let hook = g.verif_dump();
    (0..np).map(|p| {
        let pos = g.point_position(p);
        let edges = g.edge_refs_for_point(p).map(|r| {
            let e = g.get_edge(r);
            let (cp1, cp2) = e.control_points();
            let (_, fol) = ref_numbers(&g.following_edge_ref(r));
            EdgeRec { end: e.end_point_index(), fol, label: e.label().0 as usize, kind: kind_number(e.kind()), cp: [cp1.0, cp1.1, cp2.0, cp2.1] }
        }).collect();
        let rev = g.reverse_edges_for_point(p).map(|e| ref_numbers(&GraphEdgeRef::from(&e))).collect();
        #[cfg(has_collide_hook)]
        let conn = Some(hook[p].connected_from.clone());
        #[cfg(not(has_collide_hook))]
        let conn = None;
        PointRec { pos: (pos.0, pos.1), edges, rev: Some(rev), conn }
    }).collect()
}

#[cfg(has_collide_hook)]
fn hook_dump(d: &Vec<verif_collide_trace::PointDump>) -> Vec<PointRec> {
    d.iter().map(|pt| PointRec {
        pos: pt.position,
        edges: pt.edges.iter().map(|(end, fol, kind, c1, c2)| EdgeRec { end: *end, fol: *fol, label: UNKNOWN, kind: *kind as usize, cp: [c1.0, c1.1, c2.0, c2.1] }).collect(),
        rev: None,
        conn: Some(pt.connected_from.clone()),
    }).collect()
}

fn fmt_graph(g: &Vec<PointRec>) -> String {
    let mut s = format!("#{}", g.len());
    for pt in g {
        s += &format!(" {} {} #{}", hx(pt.pos.0), hx(pt.pos.1), pt.edges.len());
        for e in &pt.edges { s += &format!(" #{} #{} #{} #{} {}", e.end, e.fol, e.label, e.kind, hxs(&e.cp)); }
        match &pt.rev { Some(r) => { s += &format!(" #{}", r.len()); for (a, b) in r { s += &format!(" #{} #{}", a, b); } } None => s += &format!(" #{}", UNKNOWN) }
        match &pt.conn { Some(c) => { s += &format!(" #{}", c.len()); for a in c { s += &format!(" #{}", a); } } None => s += &format!(" #{}", UNKNOWN) }
    }
    s
}

/// `from_path` with the decisions of `from_clockwise_path` recomputed from the path through the same public predicates
fn corr_from_path(stats: &mut Stats, path: &P, label: u32, class: &str) {
    let q: P = if path.is_clockwise() { path.clone() } else { path.reversed::<P>() };
    let start = q.start_point();
    let mut last = start;
    let mut skips = vec![];
    let mut kept = 0;
    for (cp1, cp2, end) in q.points() {
        let skip = end.is_near_to(&last, CLOSE) && cp1.is_near_to(&last, CLOSE) && cp2.is_near_to(&cp1, CLOSE);
        skips.push(skip);
        if !skip { last = end; kept += 1; }
    }
    let closed = kept > 0 && start.distance_to(&last) < CLOSE;
    let p2 = path.clone();
    let g = match std::panic::catch_unwind(move || GraphPath::from_path(&p2, PathLabel(label))) { Ok(g) => g, Err(_) => { stats.count("from_path.panicked"); return; } };
    let line = format!("{} from_path D #{} #{}{} #{} | {}", PROP, label, skips.len(), skips.iter().map(|s| format!(" #{}", *s as u8)).collect::<String>(), closed as u8, fmt_graph(&public_dump(&g)));
    stats.case(&line, kept >= 2);
    stats.count(&format!("from_path.{}", class));
    if skips.iter().any(|s| *s) { stats.count("from_path.with_skipped_section"); }
    if !closed && kept > 0 { stats.count("from_path.closing_edge_added"); }
    if kept == 0 { stats.count("from_path.empty"); }
    println!("{}", line);
}

fn corr_merge(stats: &mut Stats, a: &G, b: &G) {
    let m = a.clone().merge(b.clone());
    let line = format!("{} merge D {} {} | {}", PROP, fmt_graph(&public_dump(a)), fmt_graph(&public_dump(b)), fmt_graph(&public_dump(&m)));
    stats.case(&line, a.num_points() > 0 && b.num_points() > 0);
    stats.count("merge");
    println!("{}", line);
}

/// one traced `detect_collisions`: `start` = the graph it starts from (public dump, with labels), `run` performs the call
#[cfg(has_collide_hook)]
fn corr_collide<F: FnOnce() -> G>(stats: &mut Stats, start: Vec<PointRec>, class: &str, run: F) -> Option<G> {
    use verif_collide_trace::Event;
    verif_collide_trace::start();
    let r = std::panic::catch_unwind(std::panic::AssertUnwindSafe(run));
    let events = verif_collide_trace::take();
    let g = match r { Ok(g) => g, Err(_) => { stats.count(&format!("collide.panicked.{}", class)); return None; } };
    let mut colls: Vec<(usize, usize, f64, usize, usize, f64)> = vec![];
    let mut pts: Vec<usize> = vec![];
    let mut any = false;
    let mut acc: Vec<(usize, usize)> = vec![];
    let mut rem: Vec<(usize, usize)> = vec![];
    let mut stages: Vec<(&'static str, Vec<PointRec>)> = vec![];
    let mut n_start = 0;
    for ev in &events {
        match ev {
            Event::Graph(name, d) => { if *name == "start" { n_start += 1; } stages.push((name, hook_dump(d))); }
            Event::Collisions(c) => colls = c.clone(),
            Event::CollisionPoints(p) => pts = p.clone(),
            Event::CombineBegin => any = true,
            Event::Combined(a, b) => acc.push((*a, *b)),
            Event::Removed(p, e) => rem.push((*p, *e)),
        }
    }
    if n_start != 1 { stats.count("collide.unexpected_trace_shape"); return Some(g); }
    let stage = |name: &str| stages.iter().find(|(n, _)| *n == name).map(|(_, d)| fmt_graph(d));
    let has_split = stage("split").is_some();
    let mut line = format!("{} collide D {} #{}", PROP, fmt_graph(&start), colls.len());
    for (p1, e1, t1, p2, e2, t2) in &colls { line += &format!(" #{} #{} {} #{} #{} {}", p1, e1, hx(*t1), p2, e2, hx(*t2)); }
    line += &format!(" #{}", pts.len());
    for q in &pts { line += &format!(" #{}", q); }
    line += &format!(" #{} #{}", any as u8, acc.len());
    for (a, b) in &acc { line += &format!(" #{} #{}", a, b); }
    line += &format!(" #{}", rem.len());
    for (p, e) in &rem { line += &format!(" #{} #{}", p, e); }
    line += &format!(" | {} #{}", stage("start").unwrap_or_default(), has_split as u8);
    if has_split { line += &format!(" {} {}", stage("split").unwrap_or_default(), stage("recalc").unwrap_or_default()); }
    line += &format!(" {} {} {}", stage("combined").unwrap_or_default(), stage("end").unwrap_or_default(), fmt_graph(&public_dump(&g)));
    stats.case(&line, !colls.is_empty() || !acc.is_empty());
    stats.count(&format!("collide.{}", class));
    stats.add("collisions", colls.len() as u64);
    stats.add("merged_point_pairs", acc.len() as u64);
    stats.add("removed_short_edges", rem.len() as u64);
    if colls.is_empty() { stats.count("collide.no_collisions"); }
    if colls.iter().any(|c| c.2 <= 0.0 || c.5 <= 0.0) { stats.count("collide.with_hit_at_t0"); }
    if colls.iter().any(|c| (c.0, c.1) == (c.3, c.4)) { stats.count("collide.with_edge_self_intersection"); }
    // remove_and_round_close_collisions snaps a source parameter within SMALL_T_DISTANCE of 1 to 1 (the hit is then dropped), but its
    // target-side test is nested under `t < SMALL_T_DISTANCE` and can never fire: such target parameters reach the dividing loops
    stats.add("hits_with_source_t_within_1e-6_of_1", colls.iter().filter(|c| (c.0, c.1) != (c.3, c.4) && c.2 > 1.0 - 1e-6).count() as u64);
    stats.add("hits_with_target_t_within_1e-6_of_1", colls.iter().filter(|c| (c.0, c.1) != (c.3, c.4) && c.5 > 1.0 - 1e-6).count() as u64);
    {
        // several hits on one edge
        let mut per_edge = std::collections::HashMap::new();
        for c in &colls { *per_edge.entry((c.0, c.1)).or_insert(0) += 1; *per_edge.entry((c.3, c.4)).or_insert(0) += 1; }
        if per_edge.values().any(|n| *n >= 2) { stats.count("collide.with_edge_split_more_than_once"); }
    }
    if !acc.is_empty() { stats.count("collide.with_merged_points"); }
    if let Some((_, end)) = stages.iter().find(|(n, _)| *n == "end") {
        // connected_from entries of the resulting graph that no edge justifies (remove_edge leaves them behind)
        let stale: usize = end.iter().enumerate().map(|(p, pt)| pt.conn.as_ref().map(|c| c.iter().filter(|s| !end.get(**s).map(|q| q.edges.iter().any(|e| e.end == p)).unwrap_or(false)).count()).unwrap_or(0)).sum();
        if stale > 0 { stats.count("collide.result_with_stale_connected_from_entry"); stats.add("stale_connected_from_entries", stale as u64); }
    }
    if !rem.is_empty() { stats.count("collide.with_removed_edges"); }
    println!("{}", line);
    Some(g)
}

/// without the hook: only the final graph is visible
#[cfg(not(has_collide_hook))]
fn corr_collide<F: FnOnce() -> G>(stats: &mut Stats, start: Vec<PointRec>, class: &str, run: F) -> Option<G> {
    let g = match std::panic::catch_unwind(std::panic::AssertUnwindSafe(run)) { Ok(g) => g, Err(_) => { stats.count(&format!("collide.panicked.{}", class)); return None; } };
    let mut labels: Vec<usize> = start.iter().flat_map(|p| p.edges.iter().map(|e| e.label)).collect();
    labels.sort(); labels.dedup();
    let line = format!("{} final D #{}{} | {}", PROP, labels.len(), labels.iter().map(|l| format!(" #{}", l)).collect::<String>(), fmt_graph(&public_dump(&g)));
    stats.case(&line, g.num_points() > start.len());
    stats.count(&format!("final.{}", class));
    println!("{}", line);
    Some(g)
}

/// the path with a closing line appended when its last point is not its start point
fn closed_path(p: &P) -> P {
    let mut q = p.clone();
    if let Some(last) = q.1.last() { let (a, b) = (last.2, q.0); if a != b { q.1.push((a + (b - a) * (1.0 / 3.0), a + (b - a) * (2.0 / 3.0), b)); } }
    q
}

/// self-intersecting and degenerate inputs the shape generators do not produce
fn odd_path(rng: &mut Rng) -> (P, &'static str) {
    let c = rand_centre(rng);
    let r = rng.r(8.0, 20.0);
    match rng.i(8) {
        6 => {
            // ribbon: two ADJACENT curved edges that cross away from their shared vertex (a fish / looped ribbon), closed by a line
            let (sx, sy) = (r / 4.0 * rng.r(0.8, 1.3), r / 4.0 * rng.r(0.8, 1.3));
            let o = Coord2(c.0 - 4.0 * sx, c.1 - 4.0 * sy);
            let q = |x: f64, y: f64| Coord2(o.0 + x * sx, o.1 + y * sy);
            let p = BezierPathBuilder::<P>::start(q(0.0, 0.0))
                .curve_to((q(6.0, 2.0), q(8.0, 6.0)), q(4.0, 8.0))
                .curve_to((q(0.0, 6.0), q(2.0, 2.0)), q(8.0, 0.0))
                .line_to(q(0.0, 0.0)).build();
            (p, "ribbon_adjacent_edges_cross")
        }
        7 => {
            // three-lobed polygon whose three concave vertices P, Q, R lie in a row with |PQ| and |QR| below the accuracy but |PR| above
            // it, visited in the index order R .. Q .. P: combine_overlapping_points has to merge them as a chain
            let (d1, d2) = (rng.r(0.0055, 0.0095), rng.r(0.0035, 0.0045));
            let pp = c;
            let qq = Coord2(c.0 + d1, c.1 - 0.0005);
            let rr = Coord2(c.0 + d1 + d2, c.1);
            let k = r / 5.0;
            let pts = [rr, Coord2(c.0 + 3.0 * k, c.1 - 2.0 * k), Coord2(c.0 + 0.5 * k, c.1 - 4.0 * k), qq, Coord2(c.0 - 0.5 * k, c.1 - 4.0 * k),
                       Coord2(c.0 - 3.0 * k, c.1 - 2.0 * k), pp, Coord2(c.0 - 3.0 * k, c.1 + 3.0 * k), Coord2(c.0 + 3.0 * k, c.1 + 3.0 * k)];
            (polygon(&pts), "three_vertices_merge_as_chain")
        }
        0 => {
            // bow tie: a polygon whose edges cross
            let pts = [Coord2(c.0 - r, c.1 - r), Coord2(c.0 + r, c.1 + r * rng.r(0.5, 1.0)), Coord2(c.0 + r, c.1 - r), Coord2(c.0 - r, c.1 + r)];
            (polygon(&pts), "bow_tie")
        }
        1 => {
            // one cubic that crosses itself, closed by the closing edge
            let s = Coord2(c.0 - r, c.1);
            ((s, vec![(Coord2(c.0 + 3.0 * r, c.1 + 2.0 * r), Coord2(c.0 - 3.0 * r, c.1 + 2.0 * r), Coord2(c.0 + r, c.1))]), "looped_cubic_unclosed")
        }
        2 => {
            // a single section returning to its start (tear drop)
            ((c, vec![(Coord2(c.0 + r, c.1 + r), Coord2(c.0 - r, c.1 + r), c)]), "tear_drop")
        }
        3 => {
            // polygon with a repeated vertex (a zero-length section that from_path skips) and not closed explicitly
            let p = rand_polygon_points(rng, c, r, true);
            let mut b = BezierPathBuilder::<P>::start(p[0]);
            for (i, q) in p[1..].iter().enumerate() { b = b.line_to(*q); if i == 0 { b = b.line_to(*q); } }
            (b.build(), "repeated_vertex_unclosed")
        }
        4 => {
            // pentagram
            (polygon(&star_points(5, 2, c, r, rng.r(0.0, TAU))), "pentagram")
        }
        _ => {
            // a path of one point / two points
            if rng.b() { ((c, vec![]), "single_point") } else { (polygon(&[c, Coord2(c.0 + r, c.1)]), "two_points") }
        }
    }
}

pub fn corr(seed: u64, n: u64) {
    quiet_panics();
    let mut rng = Rng(seed ^ 0xC0227C03);
    let mut stats = Stats::new();
    let build = |set: &Vec<P>, label: u32| -> Option<G> { let s = set.clone(); std::panic::catch_unwind(move || GraphPath::from_merged_paths(s.iter().map(|p| (p, PathLabel(label))))).ok() };
    let mut cases: Vec<(Vec<P>, Vec<P>, Option<Vec<P>>, String)> = vec![];
    // fixed corpus first (shared edges, tangencies, identical shapes)
    for (name, a, b) in tangent_corpus() { for v in 0..4 { let (a, b) = corpus_variant(&a, &b, v); cases.push((a, b, None, format!("corpus.{}", name))); } }
    for it in 0..n {
        match it % 8 {
            5 => { let (p, k) = odd_path(&mut rng); let s = rand_shape(&mut rng); cases.push((vec![p], vec![s.path], None, format!("odd.{}", k))); }
            6 => { let pair = gen_pair(&mut rng); let c = rand_shape(&mut rng); cases.push((pair.a, pair.b, Some(vec![c.path]), format!("chain.{}", pair.relation))); }
            7 => { let k = 2 + rng.i(2) as usize; let mut set: Vec<P> = (0..k).map(|_| { let s = rand_shape(&mut rng); redirect(&mut rng, &s.path) }).collect(); if rng.b() { set.push(odd_path(&mut rng).0); } cases.push((set, vec![], None, "self_collide".to_string())); }
            _ => { let pair = gen_pair(&mut rng); cases.push((pair.a, pair.b, None, pair.class.clone())); }
        }
    }
    for (a, b, c, class) in cases {
        for p in a.iter().chain(b.iter()) { corr_from_path(&mut stats, p, 3, &class.split('.').next().unwrap_or("").to_string()); }
        // the orientation test `from_path` starts with, against the generated `points_are_clockwise` (bit for bit): the path as it is,
        // reversed, and started one vertex later
        for p in a.iter().chain(b.iter()) {
            use flo_curves::bezier::path::{points_are_clockwise, PathWithIsClockwise};
            let pts: Vec<Coord2> = p.1.iter().map(|(_, _, e)| *e).collect();
            let mut variants: Vec<Vec<Coord2>> = vec![pts.clone(), pts.iter().rev().cloned().collect()];
            if pts.len() > 1 { let mut r = pts.clone(); r.rotate_left(1); variants.push(r); }
            for (k, v) in variants.iter().enumerate() {
                let real = points_are_clockwise(v.iter().cloned());
                let mut line = format!("C03 cw R #{}", v.len());
                for q in v { line += &format!(" {} {}", hx(q.0), hx(q.1)); }
                line += &format!(" | #{} #{}", real as u8, if k == 0 { p.is_clockwise() as u8 } else { real as u8 });
                stats.count(&format!("cw.{}", if real { "clockwise" } else { "anticlockwise" }));
                println!("{}", line);
            }
        }
        if class == "self_collide" {
            let g0 = match build(&a, 0) { Some(g) => g, None => { stats.count("build.panicked"); continue; } };
            let start = public_dump(&g0);
            corr_collide(&mut stats, start, "self_collide", move || { let mut g = g0; g.self_collide(ACC); g });
            continue;
        }
        let (ga, gb) = match (build(&a, 0), build(&b, 1)) { (Some(x), Some(y)) => (x, y), _ => { stats.count("build.panicked"); continue; } };
        corr_merge(&mut stats, &ga, &gb);
        let start = public_dump(&ga.clone().merge(gb.clone()));
        let first = corr_collide(&mut stats, start, if c.is_some() { "pair_then_third" } else { "pair" }, move || ga.collide(gb, ACC));
        // a collided graph collided again (its connected_from lists went through remove_edge)
        if let (Some(g1), Some(c)) = (first, c) {
            if let Some(gc) = build(&c, 2) {
                let start = public_dump(&g1.clone().merge(gc.clone()));
                corr_collide(&mut stats, start, "collided_graph_again", move || g1.collide(gc, ACC));
            }
        }
    }
    #[cfg(has_collide_hook)]
    stats.count("hook.verif_collide_trace.present");
    #[cfg(not(has_collide_hook))]
    stats.count("hook.verif_collide_trace.absent");
    stats.print(PROP, "corr");
}
