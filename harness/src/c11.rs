//! C11: path_cut, path_full_intersect, path_add_chain and path_combine denote the same sets as the expressions they stand
//! for, in the membership sense of C01 (flatten-and-winding-number oracle, probes outside the margin of every input).
use crate::c01::{apply, expected, ACC};
use crate::shapes::*;
use crate::util::*;
use flo_curves::bezier::path::*;
use flo_curves::*;

const PROP: &str = "C11";

fn ops_detail(sets: &[&Vec<P>]) -> String { sets.iter().enumerate().map(|(i, s)| format!("operand{}={:?}", i, s)).collect::<Vec<_>>().join(" ") }

/// path_cut and path_full_intersect on (A,B): five result sets. `class` names the input class in the keys
fn check_cut_and_full(stats: &mut Stats, rng: &mut Rng, a: &Vec<P>, b: &Vec<P>, class: &str, n_uniform: usize, n_near: usize) {
    let (oa, ob) = (Operand::new(a), Operand::new(b));
    let pr = probes(rng, &[&oa, &ob], n_uniform, n_near);
    let class = &format!("{}{}", class, near_contact_suffix(&[a, b]));
    let detail = || format!("A={:?} B={:?}", a, b);
    // does the basic two-operand operation pass the same probes? (diagnostic only; its own failures belong to C01)
    let basic = |stats: &mut Stats, op: &'static str, swap: bool| -> String {
        let (x, y) = if swap { (b.clone(), a.clone()) } else { (a.clone(), b.clone()) };
        match guarded(HANG_SECS, move || apply(op, &x, &y)) {
            Guard::Done(r) => {
                let (w, _) = wrong_probes(stats, &r, &pr, &|p, fine| { let (ia, ib) = (oa.contains(p, fine), ob.contains(p, fine)); if swap { expected(op, ib, ia) } else { expected(op, ia, ib) } });
                format!("path_{}{} is wrong at {} of these probes", op, if swap { "(B,A)" } else { "(A,B)" }, w)
            }
            _ => format!("path_{} panics or hangs", op),
        }
    };
    stats.count("op.cut");
    let (a2, b2) = (a.clone(), b.clone());
    if let Some(cut) = run_guarded(stats, PROP, "path_cut", &detail, move || { let c = path_cut::<P>(&a2, &b2, ACC); (c.interior_path, c.exterior_path) }) {
        check_output_paths(stats, PROP, "cut.interior", &cut.0, &detail);
        check_output_paths(stats, PROP, "cut.exterior", &cut.1, &detail);
        let (w, _) = wrong_probes(stats, &cut.0, &pr, &|p, f| oa.contains(p, f) && ob.contains(p, f));
        let note = if w > 0 { basic(stats, "intersect", false) } else { String::new() };
        check_membership(stats, PROP, &format!("cut.interior.probe_membership.{}", class), &cut.0, &pr, &|p, f| oa.contains(p, f) && ob.contains(p, f), &|| format!("[{}] {}", note, detail()));
        let (w, _) = wrong_probes(stats, &cut.1, &pr, &|p, f| oa.contains(p, f) && !ob.contains(p, f));
        let note = if w > 0 { basic(stats, "sub", false) } else { String::new() };
        check_membership(stats, PROP, &format!("cut.exterior.probe_membership.{}", class), &cut.1, &pr, &|p, f| oa.contains(p, f) && !ob.contains(p, f), &|| format!("[{}] {}", note, detail()));
    }
    stats.count("op.full_intersect");
    let (a2, b2) = (a.clone(), b.clone());
    if let Some(fi) = run_guarded(stats, PROP, "path_full_intersect", &detail, move || { let c = path_full_intersect::<P>(&a2, &b2, ACC); (c.intersecting_path, c.exterior_paths) }) {
        check_output_paths(stats, PROP, "full_intersect.intersecting", &fi.0, &detail);
        check_output_paths(stats, PROP, "full_intersect.exterior0", &fi.1[0], &detail);
        check_output_paths(stats, PROP, "full_intersect.exterior1", &fi.1[1], &detail);
        let (w, _) = wrong_probes(stats, &fi.0, &pr, &|p, f| oa.contains(p, f) && ob.contains(p, f));
        let note = if w > 0 { basic(stats, "intersect", false) } else { String::new() };
        check_membership(stats, PROP, &format!("full_intersect.intersecting.probe_membership.{}", class), &fi.0, &pr, &|p, f| oa.contains(p, f) && ob.contains(p, f), &|| format!("[{}] {}", note, detail()));
        let (w, _) = wrong_probes(stats, &fi.1[0], &pr, &|p, f| oa.contains(p, f) && !ob.contains(p, f));
        let note = if w > 0 { basic(stats, "sub", false) } else { String::new() };
        check_membership(stats, PROP, &format!("full_intersect.exterior0.probe_membership.{}", class), &fi.1[0], &pr, &|p, f| oa.contains(p, f) && !ob.contains(p, f), &|| format!("[{}] {}", note, detail()));
        let (w, _) = wrong_probes(stats, &fi.1[1], &pr, &|p, f| ob.contains(p, f) && !oa.contains(p, f));
        let note = if w > 0 { basic(stats, "sub", true) } else { String::new() };
        check_membership(stats, PROP, &format!("full_intersect.exterior1.probe_membership.{}", class), &fi.1[1], &pr, &|p, f| ob.contains(p, f) && !oa.contains(p, f), &|| format!("[{}] {}", note, detail()));
    }
}

/// path_add_chain = union of all operands
fn check_chain(stats: &mut Stats, rng: &mut Rng, sets: &Vec<Vec<P>>, key: &str, n_uniform: usize, n_near: usize) {
    let os: Vec<Operand> = sets.iter().map(Operand::new).collect();
    let refs: Vec<&Operand> = os.iter().collect();
    let pr = probes(rng, &refs, n_uniform, n_near);
    // input class of the failing key: a contact class if the operands touch / nearly touch / have crossings close together, otherwise
    // (general position) the input itself, so that a recorded failure is one specific input and any other input still alarms
    let refs_sets: Vec<&Vec<P>> = sets.iter().collect();
    let contact = contact_suffix_all(&refs_sets);
    let contact = if contact.is_empty() && sets.len() >= 3 { close_crossings_suffix(&refs_sets) } else { contact };
    let key = &format!("{}{}", key, contact);
    let detail = || ops_detail(&sets.iter().collect::<Vec<_>>());
    stats.count("op.add_chain");
    let s2 = sets.clone();
    if let Some(res) = run_guarded(stats, PROP, "path_add_chain", &detail, move || path_add_chain::<P>(&s2, ACC)) {
        check_output_paths(stats, PROP, "add_chain", &res, &detail);
        check_membership(stats, PROP, key, &res, &pr, &|p, f| os.iter().any(|o| o.contains(p, f)), &detail);
    }
}

// ------------------------------------------------------------------------------------------------ expression trees

#[derive(Clone, Debug)]
enum Expr { Leaf(usize), Add(Vec<Expr>), Subtract(Vec<Expr>), Intersect(Vec<Expr>) }

impl Expr {
    fn eval(&self, leaf: &dyn Fn(usize) -> bool) -> bool {
        match self {
            Expr::Leaf(i) => leaf(*i),
            Expr::Add(c) => c.iter().any(|e| e.eval(leaf)),
            Expr::Subtract(c) => match c.split_first() { None => false, Some((h, t)) => h.eval(leaf) && !t.iter().any(|e| e.eval(leaf)) },
            Expr::Intersect(c) => !c.is_empty() && c.iter().all(|e| e.eval(leaf)),
        }
    }
    fn build(&self, leaves: &Vec<Vec<P>>) -> PathCombine<P> {
        match self {
            Expr::Leaf(i) => PathCombine::Path(leaves[*i].clone()),
            Expr::Add(c) => PathCombine::Add(c.iter().map(|e| e.build(leaves)).collect()),
            Expr::Subtract(c) => PathCombine::Subtract(c.iter().map(|e| e.build(leaves)).collect()),
            Expr::Intersect(c) => PathCombine::Intersect(c.iter().map(|e| e.build(leaves)).collect()),
        }
    }
    fn depth(&self) -> usize { match self { Expr::Leaf(_) => 0, Expr::Add(c) | Expr::Subtract(c) | Expr::Intersect(c) => 1 + c.iter().map(|e| e.depth()).max().unwrap_or(0) } }
    fn root(&self) -> &'static str { match self { Expr::Leaf(_) => "path", Expr::Add(_) => "add", Expr::Subtract(_) => "subtract", Expr::Intersect(_) => "intersect" } }
    fn show(&self) -> String {
        let list = |c: &Vec<Expr>| c.iter().map(|e| e.show()).collect::<Vec<_>>().join(",");
        match self { Expr::Leaf(i) => format!("L{}", i), Expr::Add(c) => format!("Add({})", list(c)), Expr::Subtract(c) => format!("Subtract({})", list(c)), Expr::Intersect(c) => format!("Intersect({})", list(c)) }
    }
}

fn gen_operand_set(rng: &mut Rng) -> Vec<P> {
    match rng.i(6) {
        0 => { let p = gen_pair(rng); p.a }
        _ => { let s = rand_shape(rng); vec![redirect(rng, &s.path)] }
    }
}

fn gen_expr(rng: &mut Rng, depth: usize, leaves: &mut Vec<Vec<P>>, root: bool) -> Expr {
    if !root && (depth == 0 || leaves.len() >= 7 || rng.i(5) < 2) {
        // sometimes the same leaf twice (identical operands)
        if !leaves.is_empty() && rng.i(8) == 0 { return Expr::Leaf(rng.i(leaves.len() as u64) as usize); }
        leaves.push(gen_operand_set(rng));
        return Expr::Leaf(leaves.len() - 1);
    }
    let n = 2 + rng.i(2) as usize;
    let children: Vec<Expr> = (0..n).map(|_| gen_expr(rng, depth - 1, leaves, false)).collect();
    match rng.i(3) { 0 => Expr::Add(children), 1 => Expr::Subtract(children), _ => Expr::Intersect(children) }
}

fn check_combine(stats: &mut Stats, rng: &mut Rng, expr: &Expr, leaves: &Vec<Vec<P>>, key: &str, n_uniform: usize, n_near: usize) {
    let os: Vec<Operand> = leaves.iter().map(Operand::new).collect();
    let refs: Vec<&Operand> = os.iter().collect();
    let pr = probes(rng, &refs, n_uniform, n_near);
    // an operand used twice meets itself along its whole boundary (identical operands), and so does a sub-expression
    // that is combined with one of its own leaves
    let shown = expr.show();
    let repeated = (0..leaves.len()).any(|i| shown.matches(&format!("L{}", i)).count() > 1);
    let key = &format!("{}{}", key, if repeated { ".repeated_operand" } else { contact_suffix_all(&leaves.iter().collect::<Vec<_>>()) });
    let detail = || format!("expr={} {}", expr.show(), leaves.iter().enumerate().map(|(i, s)| format!("L{}={:?}", i, s)).collect::<Vec<_>>().join(" "));
    stats.count("op.combine");
    let tree = expr.build(leaves);
    if let Some(res) = run_guarded(stats, PROP, "path_combine", &detail, move || path_combine::<P>(tree, ACC)) {
        check_output_paths(stats, PROP, "combine", &res, &detail);
        check_membership(stats, PROP, key, &res, &pr, &|p, f| expr.eval(&|i| os[i].contains(p, f)), &detail);
    }
}

// ------------------------------------------------------------------------------------------------ fixed corpora

fn empty_operand_laws(stats: &mut Stats, rng: &mut Rng) {
    let sets: Vec<(&str, Vec<P>)> = vec![
        ("circle", vec![circle(50.0, 50.0, 20.0)]),
        ("rect_with_hole", vec![rect(10.0, 10.0, 90.0, 90.0), circle(50.0, 50.0, 20.0)]),
        ("two_circles", vec![circle(30.0, 30.0, 10.0), reversed(&circle(70.0, 70.0, 10.0))]),
    ];
    let t: Vec<P> = vec![rect(40.0, 40.0, 80.0, 60.0)];
    let ot = Operand::new(&t);
    let empty: Vec<P> = vec![];
    for (name, s) in &sets {
        let os = Operand::new(s);
        let pr = probes(rng, &[&os, &ot], 200, 200);
        let none = |_: Coord2, _: bool| false;
        let all = |p: Coord2, f: bool| os.contains(p, f);
        // cut / full_intersect
        for side in ["empty_second_operand", "empty_first_operand"] {
            let (a, b) = if side == "empty_second_operand" { (s.clone(), empty.clone()) } else { (empty.clone(), s.clone()) };
            let detail = || format!("set={} A={:?} B={:?}", name, a, b);
            stats.case(&format!("law cut/full_intersect {} {}", side, detail()), true);
            let (a2, b2) = (a.clone(), b.clone());
            if let Some(cut) = run_guarded(stats, PROP, "path_cut", &detail, move || { let c = path_cut::<P>(&a2, &b2, ACC); (c.interior_path, c.exterior_path) }) {
                check_membership(stats, PROP, &format!("cut.interior.{}", side), &cut.0, &pr, &none, &detail);
                if side == "empty_second_operand" { check_membership(stats, PROP, &format!("cut.exterior.{}", side), &cut.1, &pr, &all, &detail); } else { check_membership(stats, PROP, &format!("cut.exterior.{}", side), &cut.1, &pr, &none, &detail); }
            }
            let (a2, b2) = (a.clone(), b.clone());
            if let Some(fi) = run_guarded(stats, PROP, "path_full_intersect", &detail, move || { let c = path_full_intersect::<P>(&a2, &b2, ACC); (c.intersecting_path, c.exterior_paths) }) {
                check_membership(stats, PROP, &format!("full_intersect.intersecting.{}", side), &fi.0, &pr, &none, &detail);
                let first = side == "empty_second_operand";
                if first { check_membership(stats, PROP, &format!("full_intersect.exterior0.{}", side), &fi.1[0], &pr, &all, &detail); } else { check_membership(stats, PROP, &format!("full_intersect.exterior0.{}", side), &fi.1[0], &pr, &none, &detail); }
                if first { check_membership(stats, PROP, &format!("full_intersect.exterior1.{}", side), &fi.1[1], &pr, &none, &detail); } else { check_membership(stats, PROP, &format!("full_intersect.exterior1.{}", side), &fi.1[1], &pr, &all, &detail); }
            }
        }
        // chains with empty operands
        let chains: Vec<(&str, Vec<Vec<P>>)> = vec![
            ("single_operand", vec![s.clone()]),
            ("empty_first_operand", vec![empty.clone(), s.clone()]),
            ("empty_last_operand", vec![s.clone(), empty.clone()]),
            ("empty_middle_operand", vec![s.clone(), empty.clone(), t.clone()]),
            ("only_empty_operands", vec![empty.clone(), empty.clone()]),
            ("no_operands", vec![]),
        ];
        for (cname, chain) in &chains {
            stats.case(&format!("law add_chain {} {}", cname, ops_detail(&chain.iter().collect::<Vec<_>>())), !chain.is_empty());
            let c2 = chain.clone();
            let detail = || ops_detail(&chain.iter().collect::<Vec<_>>());
            if let Some(res) = run_guarded(stats, PROP, "path_add_chain", &detail, move || path_add_chain::<P>(&c2, ACC)) {
                let has_s = chain.iter().any(|c| c.len() == s.len() && !c.is_empty() && c[0] == s[0]);
                let has_t = chain.iter().any(|c| c.len() == 1 && c[0] == t[0]);
                check_membership(stats, PROP, &format!("add_chain.{}", cname), &res, &pr, &|p, f| (has_s && os.contains(p, f)) || (has_t && ot.contains(p, f)), &detail);
            }
        }
        // expression trees with empty leaves
        let leaves = vec![s.clone(), empty.clone(), t.clone()];
        let exprs: Vec<(&str, Expr)> = vec![
            ("add.empty_first_operand", Expr::Add(vec![Expr::Leaf(1), Expr::Leaf(0)])),
            ("add.empty_second_operand", Expr::Add(vec![Expr::Leaf(0), Expr::Leaf(1)])),
            ("subtract.empty_first_operand", Expr::Subtract(vec![Expr::Leaf(1), Expr::Leaf(0)])),
            ("subtract.empty_second_operand", Expr::Subtract(vec![Expr::Leaf(0), Expr::Leaf(1)])),
            ("intersect.empty_first_operand", Expr::Intersect(vec![Expr::Leaf(1), Expr::Leaf(0)])),
            ("intersect.empty_second_operand", Expr::Intersect(vec![Expr::Leaf(0), Expr::Leaf(1)])),
            ("intersect.empty_intermediate_result", Expr::Add(vec![Expr::Intersect(vec![Expr::Leaf(0), Expr::Leaf(1)]), Expr::Leaf(2)])),
            ("subtract.empty_intermediate_result", Expr::Subtract(vec![Expr::Leaf(2), Expr::Subtract(vec![Expr::Leaf(1), Expr::Leaf(0)])])),
            ("add.no_operands", Expr::Add(vec![])),
            ("subtract.no_operands", Expr::Subtract(vec![])),
            ("intersect.no_operands", Expr::Intersect(vec![])),
        ];
        for (ename, e) in &exprs {
            stats.case(&format!("law combine {} set={}", ename, name), true);
            let oe = Operand::new(&empty);
            let os3 = [&os, &oe, &ot];
            let detail = || format!("expr={} L0={:?} L1=[] L2={:?}", e.show(), s, t);
            let tree = e.build(&leaves);
            if let Some(res) = run_guarded(stats, PROP, "path_combine", &detail, move || path_combine::<P>(tree, ACC)) {
                check_membership(stats, PROP, &format!("combine.{}", ename), &res, &pr, &|p, f| e.eval(&|i| os3[i].contains(p, f)), &detail);
            }
        }
    }
}

pub fn search(seed: u64, n: u64) {
    quiet_panics();
    let mut rng = Rng(seed ^ 0x5EA2C11);
    let mut rng_few = Rng(seed ^ 0xFE3);
    let mut stats = Stats::new();
    empty_operand_laws(&mut stats, &mut rng);
    // the tangent corpus x 4 variants through cut, full_intersect, a two-operand chain and the three one-level expressions
    for (name, a, b) in tangent_corpus() {
        for v in 0..4 {
            let (a, b) = corpus_variant(&a, &b, v);
            let class = format!("corpus.{}.{}", name, VARIANTS[v]);
            stats.case(&format!("{} A={:?} B={:?}", class, a, b), true);
            stats.count("corpus_case");
            check_cut_and_full(&mut stats, &mut rng, &a, &b, &class, 300, 300);
            let sets = vec![a.clone(), b.clone()];
            check_chain(&mut stats, &mut rng, &sets, &format!("add_chain.probe_membership.{}", class), 300, 300);
            for (oname, e) in [("add", Expr::Add(vec![Expr::Leaf(0), Expr::Leaf(1)])), ("subtract", Expr::Subtract(vec![Expr::Leaf(0), Expr::Leaf(1)])), ("intersect", Expr::Intersect(vec![Expr::Leaf(0), Expr::Leaf(1)]))] {
                check_combine(&mut stats, &mut rng, &e, &sets, &format!("combine.{}.probe_membership.{}", oname, class), 300, 300);
            }
        }
    }
    // ring operands (own stream): A lies in the solid part of B = [outer shape, hole], with B's hole strictly inside A - no boundary of A
    // meets a boundary of B, so every edge of A is classified the same way in the first pass although A - B is not empty (the hole)
    let mut rng_ring = Rng(seed ^ 0x21C6C11);
    for k in 0..(4 + n / 20) {
        let c = Coord2(rng_ring.r(40.0, 60.0), rng_ring.r(40.0, 60.0));
        let jit = |rng: &mut Rng, c: Coord2, j: f64| Coord2(c.0 + rng.r(-j, j), c.1 + rng.r(-j, j));
        let (r_hole, r_a, r_out) = (rng_ring.r(3.0, 7.0), rng_ring.r(12.0, 18.0), rng_ring.r(26.0, 34.0));
        let shape = |rng: &mut Rng, c: Coord2, r: f64| -> P { match rng.i(3) { 0 => circle(c.0, c.1, r), 1 => circle45(c.0, c.1, r), _ => rect(c.0 - r * 0.8, c.1 - r * 0.8, c.0 + r * 0.8, c.1 + r * 0.8) } };
        let ca = jit(&mut rng_ring, c, 1.5);
        let sa = shape(&mut rng_ring, ca, r_a);
        let a = vec![redirect(&mut rng_ring, &sa)];
        let ch = jit(&mut rng_ring, c, 1.5);
        let hole = shape(&mut rng_ring, ch, r_hole);
        let co = jit(&mut rng_ring, c, 1.5);
        let outer = shape(&mut rng_ring, co, r_out);
        let b = if k % 2 == 0 { vec![outer, hole] } else { vec![hole, outer] };
        stats.count("pair.first_inside_ring_of_second");
        stats.case(&format!("ring A={:?} B={:?}", a, b), true);
        check_cut_and_full(&mut stats, &mut rng_ring, &a, &b, "first_inside_ring_of_second", 150, 150);
        check_cut_and_full(&mut stats, &mut rng_ring, &b, &a, "second_inside_ring_of_first", 150, 150);
    }
    // an operand ALL OF WHOSE POINTS (control points included) lie inside an earlier operand that does not cover it: a bar across the notch
    // of a U, a plate over the hole of a frame - the union has to fill the notch / the hole (own stream; from seeded change C11-m10)
    let mut rng_n = Rng(seed ^ 0x207C4C11);
    for k in 0..(4 + n / 20) {
        let (x0, y0) = (rng_n.r(8.0, 20.0), rng_n.r(8.0, 20.0));
        let (w, h) = (rng_n.r(50.0, 70.0), rng_n.r(45.0, 65.0));
        let (x1, y1) = (x0 + w, y0 + h);
        let (xa, xb) = (x0 + w * rng_n.r(0.3, 0.4), x0 + w * rng_n.r(0.6, 0.7));
        let sets: Vec<Vec<P>> = if k % 2 == 0 {
            let yn = y0 + h * rng_n.r(0.25, 0.4);
            let u = polygon(&[Coord2(x0, y0), Coord2(x0, y1), Coord2(xa, y1), Coord2(xa, yn), Coord2(xb, yn), Coord2(xb, y1), Coord2(x1, y1), Coord2(x1, y0)]);
            let (by0, by1) = (yn + (y1 - yn) * rng_n.r(0.2, 0.4), yn + (y1 - yn) * rng_n.r(0.6, 0.8));
            let bar = rect(x0 + (xa - x0) * rng_n.r(0.3, 0.7), by0, xb + (x1 - xb) * rng_n.r(0.3, 0.7), by1);
            stats.count("chain.bar_across_notch");
            let mut v = vec![vec![redirect(&mut rng_n, &u)], vec![redirect(&mut rng_n, &bar)]];
            if k % 4 == 2 { v.insert(0, vec![circle(x1 + 12.0, y1 + 12.0, rng_n.r(4.0, 9.0))]); }
            v
        } else {
            let (ya, yb) = (y0 + h * rng_n.r(0.3, 0.4), y0 + h * rng_n.r(0.6, 0.7));
            let frame = if k % 4 == 1 { vec![rect(x0, y0, x1, y1), rect(xa, ya, xb, yb)] } else { vec![rect(xa, ya, xb, yb), rect(x0, y0, x1, y1)] };
            let m = rng_n.r(2.0, 6.0);
            let plate = if k % 3 == 0 { circle((xa + xb) * 0.5, (ya + yb) * 0.5, ((xb - xa).max(yb - ya)) * 0.5 * 1.45 + m) } else { rect(xa - m, ya - m, xb + m, yb + m) };
            stats.count("chain.plate_over_hole");
            vec![frame, vec![redirect(&mut rng_n, &plate)]]
        };
        stats.case(&format!("covered_points_not_covered_shape {}", ops_detail(&sets.iter().collect::<Vec<_>>())), true);
        check_chain(&mut stats, &mut rng_n, &sets, &format!("add_chain.probe_membership.{}", if k % 2 == 0 { "bar_across_notch" } else { "plate_over_hole" }), 200, 260);
        let e = Expr::Add((0..sets.len()).map(Expr::Leaf).collect());
        check_combine(&mut stats, &mut rng_n, &e, &sets, &format!("combine.add.probe_membership.{}", if k % 2 == 0 { "bar_across_notch" } else { "plate_over_hole" }), 200, 260);
    }
    for _ in 0..n {
        // cut / full_intersect over the C01 pairs
        let pair = gen_pair(&mut rng);
        count_pair(&mut stats, &pair);
        stats.case(&format!("pair {} A={:?} B={:?}", pair.relation, pair.a, pair.b), true);
        check_cut_and_full(&mut stats, &mut rng, &pair.a, &pair.b, &pair.class, 120, 120);
        // chains of 1..6 operands
        let k = 1 + rng.i(6) as usize;
        let mut sets: Vec<Vec<P>> = vec![];
        for _ in 0..k {
            let s = if !sets.is_empty() && rng.i(10) == 0 { sets[rng.i(sets.len() as u64) as usize].clone() } else { gen_operand_set(&mut rng) };
            // one operand in eight is a shape enclosed by only one or two curve sections (teardrop, two-arc lens): drawn from a stream of its
            // own, so that the other operands stay what they were before these shapes existed
            let s = if rng_few.i(8) == 0 { vec![few_section_shape(&mut rng_few)] } else { s };
            sets.push(s);
        }
        stats.count(&format!("chain.n{}", k));
        stats.case(&format!("chain {}", ops_detail(&sets.iter().collect::<Vec<_>>())), k > 1);
        let shared = if sets_share_edge(&sets) { stats.count("chain.has_shared_edge"); ".shared_edge" } else { "" };
        check_chain(&mut stats, &mut rng, &sets, &format!("add_chain.probe_membership.n{}{}", k, shared), 120, 160);
        // expression trees of depth <= 3
        let depth = 1 + rng.i(3) as usize;
        let mut leaves = vec![];
        let expr = gen_expr(&mut rng, depth, &mut leaves, true);
        stats.count(&format!("tree.depth{}", expr.depth()));
        stats.count(&format!("tree.root_{}", expr.root()));
        stats.count(&format!("tree.leaves{}", leaves.len()));
        stats.case(&format!("tree {} {:?}", expr.show(), leaves), expr.depth() > 0);
        let shared = if sets_share_edge(&leaves) { stats.count("tree.has_shared_edge"); ".shared_edge" } else { "" };
        check_combine(&mut stats, &mut rng, &expr, &leaves, &format!("combine.{}.probe_membership.depth{}{}", expr.root(), expr.depth(), shared), 120, 160);
    }
    stats.print(PROP, "search");
}
