//! C13: intersection pruning never discards a parameter range that can hold a hit (through hook H1).
use crate::util::*;
use flo_curves::bezier::verif_hooks::FatLine;
use flo_curves::bezier::*;
use flo_curves::*;

fn hx2(p: Coord2) -> String { format!("{} {}", hx(p.0), hx(p.1)) }
fn hxc(c: &Curve<Coord2>) -> String { let (a, b) = c.control_points(); format!("{} {} {} {}", hx2(c.start_point()), hx2(a), hx2(b), hx2(c.end_point())) }

pub fn gen_curve(rng: &mut Rng, mode: u64) -> (Curve<Coord2>, &'static str) {
    let dy = mode % 2 == 1;
    let mut g = |rng: &mut Rng| if !dy { Coord2(rng.r(0.0, 100.0), rng.r(0.0, 100.0)) } else { Coord2((rng.i(9) as f64) * 12.5, (rng.i(9) as f64) * 12.5) };
    let mut p = [g(rng), g(rng), g(rng), g(rng)];
    let kind = match (mode / 2) % 7 {
        1 => { p[3] = p[0]; "coincident_ends" }
        2 => { let d = p[3] - p[0]; p[1] = p[0] + d * rng.f(); "cp1_on_base_line" }
        3 => { let d = p[3] - p[0]; p[1] = p[0] + d * rng.f(); p[2] = p[0] + d * rng.f(); "both_cps_on_base_line" }
        4 => { let d = p[3] - p[0]; let n = Coord2(-d.1, d.0); p[1] = p[0] + d * 0.3 + n * 0.2; p[2] = p[0] + d * 0.7 - n * 0.2; "opposite_sides" }
        5 => { let d = p[3] - p[0]; let n = Coord2(-d.1, d.0); p[1] = p[0] + d * (1.0 / 3.0) + n * 0.25; p[2] = p[0] + d * (2.0 / 3.0) + n * 0.25; "same_side_symmetric" }
        6 => { p[1] = p[0]; p[2] = p[3]; "degenerate_cps" }
        _ => "random",
    };
    (Curve::from_points(p[0], (p[1], p[2]), p[3]), kind)
}

fn section_of(rng: &mut Rng, c: &Curve<Coord2>, it: u64) -> Curve<Coord2> {
    if it % 3 != 0 { return c.clone(); }
    let len = 10f64.powf(rng.r(-6.0, 0.0));
    let lo = (rng.f() * (1.0 - len)).max(0.0);
    let s = c.section(lo, (lo + len).min(1.0));
    Curve::from_curve(&s)
}

fn opt(r: Option<(f64, f64)>) -> String { match r { None => "0 0000000000000000 0000000000000000".into(), Some((a, b)) => format!("1 {} {}", hx(a), hx(b)) } }

pub fn corr(seed: u64, n: u64) {
    let mut rng = Rng(seed ^ 0xC13);
    let mut stats = Stats::new();
    for it in 0..n {
        let (a0, kind) = gen_curve(&mut rng, it);
        let (b0, _) = gen_curve(&mut rng, it / 7);
        let a = section_of(&mut rng, &a0, it + 1);
        let b = section_of(&mut rng, &b0, it);
        let fl = FatLine::from_curve(&a);
        let pl = FatLine::from_curve_perpendicular(&a);
        let (c, pc) = (fl.verif_coeff(), pl.verif_coeff());
        let line = format!("C13 fat R {} | {} {} {} {} {} {} {} {} {} {}", hxc(&a), hx(fl.verif_d_min()), hx(fl.verif_d_max()), hx(c.0), hx(c.1), hx(c.2), hx(pl.verif_d_min()), hx(pl.verif_d_max()), hx(pc.0), hx(pc.1), hx(pc.2));
        stats.case(&line, kind != "degenerate_cps");
        stats.count(&format!("fat.{}", kind));
        println!("{}", line);
        let line = format!("C13 clipt R {} {} | {} {}", hxc(&a), hxc(&b), opt(fl.clip_t(&b)), opt(pl.clip_t(&b)));
        stats.case(&line, fl.clip_t(&b).is_some());
        stats.count(if fl.clip_t(&b).is_some() { "clip_t.some" } else { "clip_t.none" });
        println!("{}", line);
    }
    stats.print("C13", "corr");
}

/// the property's own test on the real code: strips contain their curve, clip_t leaves nothing inside the strip outside the range
pub fn check_pair(a: &Curve<Coord2>, b: &Curve<Coord2>, stats: &mut Stats, desc: &str) {
    let scale = 200.0;
    let tol = 1e-9 * scale;
    for (which, fl) in [("from_curve", FatLine::from_curve(a)), ("from_curve_perpendicular", FatLine::from_curve_perpendicular(a))] {
        let (dmin, dmax) = (fl.verif_d_min(), fl.verif_d_max());
        if !dmin.is_finite() || !dmax.is_finite() { stats.fail("C13", &format!("strip_not_finite.{}", which), &format!("{} strip=[{}, {}]", desc, dmin, dmax)); continue; }
        // the strip contains every point of its own curve; for coincident end points the base line goes through the
        // start point only and the documented slack is the distance of the end point (<= 1e-7)
        let slack = if a.start_point().is_near_to(&a.end_point(), 0.0000001) { 1e-7 } else { 0.0 };
        for k in 0..=1000 {
            let t = k as f64 / 1000.0;
            let d = fl.distance(&a.point_at_pos(t));
            if lt(d, dmin - tol - slack) || gt(d, dmax + tol + slack) {
                stats.fail("C13", &format!("strip_does_not_contain_curve.{}", which), &format!("{} t={} distance={} strip=[{}, {}]", desc, t, d, dmin, dmax));
                break;
            }
        }
        let clip = fl.clip_t(b);
        if clip.is_none() { stats.count("clip_t.none"); } else { stats.count("clip_t.some"); }
        for k in 0..=1000 {
            let t = k as f64 / 1000.0;
            let d = fl.distance(&b.point_at_pos(t));
            if d >= dmin + tol && d <= dmax - tol {
                match clip {
                    None => { stats.fail("C13", &format!("clip_none_but_point_in_strip.{}", which), &format!("{} t={} distance={} strip=[{}, {}]", desc, t, d, dmin, dmax)); break; }
                    Some((t1, t2)) => {
                        // 1e-5: the snapping window of round_y_value
                        if lt(t, t1 - 1e-5 - 1e-9) || gt(t, t2 + 1e-5 + 1e-9) { stats.fail("C13", &format!("point_in_strip_outside_clip_range.{}", which), &format!("{} t={} distance={} strip=[{}, {}] clip=({}, {})", desc, t, d, dmin, dmax, t1, t2)); break; }
                    }
                }
            }
        }
    }
}

pub fn search(seed: u64, n: u64) {
    let mut rng = Rng(seed ^ 0x5EA2C13);
    let mut stats = Stats::new();
    // the two curves of the fixed defect (zero distance with a sign: -inf quotient in the hull ordering) in both orders
    let c1 = Curve::from_points(Coord2(0.0, 0.0), (Coord2(1.0, 2.0 / 3.0), Coord2(2.0, -2.0 / 3.0)), Coord2(3.0, 0.0));
    let c2 = Curve::from_points(Coord2(0.0, 1.0), (Coord2(1.0, -2.0), Coord2(2.0, 1.0)), Coord2(3.0, 1.0));
    check_pair(&c1, &c2, &mut stats, "corpus F2 c1,c2");
    check_pair(&c2, &c1, &mut stats, "corpus F2 c2,c1");
    for it in 0..n {
        let (a0, kind) = gen_curve(&mut rng, it);
        let (b0, kind2) = gen_curve(&mut rng, it / 7);
        let a = section_of(&mut rng, &a0, it + 1);
        let b = section_of(&mut rng, &b0, it);
        let desc = format!("against={:?} curve={:?}", a, b);
        stats.case(&desc, kind != "degenerate_cps");
        stats.count(&format!("against.{}", kind));
        stats.count(&format!("curve.{}", kind2));
        check_pair(&a, &b, &mut stats, &desc);
    }
    stats.print("C13", "search");
}
