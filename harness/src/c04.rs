//! C04: curve-line and line-line intersections agree with the exact root set.
use crate::util::*;
use flo_curves::bezier::*;
use flo_curves::line::*;
use flo_curves::*;

type L = (Coord2, Coord2);

fn gen_coord(rng: &mut Rng, dyadic: bool) -> f64 { if dyadic { rng.dyadic(-8, 8, 1) } else { rng.r(-50.0, 150.0) } }
fn gen_pt(rng: &mut Rng, dyadic: bool) -> Coord2 { Coord2(gen_coord(rng, dyadic), gen_coord(rng, dyadic)) }

fn gen_line_pair(rng: &mut Rng, dyadic: bool) -> (L, L) {
    let a = (gen_pt(rng, dyadic), gen_pt(rng, dyadic));
    let mut b = (gen_pt(rng, dyadic), gen_pt(rng, dyadic));
    match rng.i(10) {
        0 => { let d = a.1 - a.0; let o = gen_pt(rng, dyadic); b = (o, o + d); }                 // parallel
        1 => { let d = a.1 - a.0; b = (a.0 + d * 0.25, a.0 + d * 0.75); }                         // collinear
        2 => { b.0 = a.0; }                                                                       // shared end
        3 => { b.0 = a.0 + (a.1 - a.0) * 0.5; }                                                   // T junction
        4 => { b = (b.0, b.0); }                                                                  // point line
        5 => { b.1 = a.1; }
        _ => {}
    }
    (a, b)
}

fn hx2(p: Coord2) -> String { format!("{} {}", hx(p.0), hx(p.1)) }
fn hxl(l: &L) -> String { format!("{} {}", hx2(l.0), hx2(l.1)) }
fn opt_pt(p: Option<Coord2>) -> String { match p { None => "0".into(), Some(p) => format!("1 {}", hx2(p)) } }

pub fn gen_curve(rng: &mut Rng) -> Curve<Coord2> {
    let mut p: Vec<Coord2> = (0..4).map(|_| Coord2(rng.r(-50.0, 150.0), rng.r(-50.0, 150.0))).collect();
    let inbox = |q: Coord2| q.0 >= -50.0 && q.0 <= 150.0 && q.1 >= -50.0 && q.1 <= 150.0;
    match rng.i(10) {
        0 => { // near-degenerate cubic: leading coefficient ~1e-9..1e-7 (the solver switch), all points in the box
            let eps = 10f64.powf(rng.r(-9.5, -6.5)) * if rng.b() { 1.0 } else { -1.0 };
            loop {
                p[1] = Coord2(rng.r(-50.0, 150.0), rng.r(-50.0, 150.0));
                p[2] = p[1] + (p[3] - p[0]) * (1.0 / 3.0) + Coord2(eps, eps * 0.5) * (1.0 / 3.0);
                if inbox(p[2]) { break; }
            }
        }
        1 => { // (numerically) exact quadratic
            loop {
                p[1] = Coord2(rng.r(-50.0, 150.0), rng.r(-50.0, 150.0));
                p[2] = p[1] + (p[3] - p[0]) * (1.0 / 3.0);
                if inbox(p[2]) { break; }
            }
        }
        2 => { let d = p[3] - p[0]; p[1] = p[0] + d * rng.f(); p[2] = p[0] + d * rng.f(); }  // straight
        3 => { p[1] = p[0]; }
        4 => { for k in 0..4 { p[k] = Coord2((p[k].0 / 12.5).round() * 12.5, (p[k].1 / 12.5).round() * 12.5); } }
        _ => {}
    }
    Curve::from_points(p[0], (p[1], p[2]), p[3])
}

pub fn gen_line_for(rng: &mut Rng, c: &Curve<Coord2>) -> L {
    let (cp1, cp2) = c.control_points();
    match rng.i(9) {
        0 => (c.start_point(), Coord2(rng.r(-50.0, 150.0), rng.r(-50.0, 150.0))),       // through the start point
        1 => (Coord2(rng.r(-50.0, 150.0), rng.r(-50.0, 150.0)), c.end_point()),          // through the end point
        2 => { let y = rng.r(-50.0, 150.0); (Coord2(-50.0, y), Coord2(150.0, y)) }       // axis-parallel
        3 => { let x = rng.r(-50.0, 150.0); (Coord2(x, -50.0), Coord2(x, 150.0)) }
        4 => (cp1, cp2),                                                                  // through control points
        5 => { let t = rng.f(); let q = c.point_at_pos(t); (q, Coord2(rng.r(-50.0, 150.0), rng.r(-50.0, 150.0))) } // through a curve point
        6 => { let q = c.point_at_pos(rng.f()); let r = c.point_at_pos(rng.f()); (q, r) }                          // chord
        _ => (Coord2(rng.r(-50.0, 150.0), rng.r(-50.0, 150.0)), Coord2(rng.r(-50.0, 150.0), rng.r(-50.0, 150.0))),
    }
}

pub fn corr(seed: u64, n: u64) {
    let mut rng = Rng(seed ^ 0xC04);
    let mut stats = Stats::new();
    for i in 0..n {
        let dyadic = i % 2 == 0;
        let s = if dyadic { "D" } else { "R" };
        match rng.i(6) {
            0 | 1 => {
                let (a, b) = gen_line_pair(&mut rng, dyadic);
                let (op, r) = match rng.i(3) { 0 => ("lil", line_intersects_line(&a, &b)), 1 => ("lir", line_intersects_ray(&a, &b)), _ => ("rir", ray_intersects_ray(&a, &b)) };
                let line = format!("C04 {} {} {} {} | {}", op, s, hxl(&a), hxl(&b), opt_pt(r));
                stats.case(&line, r.is_some());
                stats.count(&format!("{}.{}.{}", op, s, if r.is_some() { "some" } else { "none" }));
                println!("{}", line);
            }
            2 => {
                let a = (gen_pt(&mut rng, dyadic), gen_pt(&mut rng, dyadic));
                let b = (gen_pt(&mut rng, dyadic), gen_pt(&mut rng, dyadic));
                let r = line_clip_to_bounds(&a, &b);
                let line = format!("C04 clip {} {} {} | {}", s, hxl(&a), hxl(&b), match r { None => "0".to_string(), Some(l) => format!("1 {}", hxl(&l)) });
                stats.case(&line, r.is_some());
                stats.count(&format!("clip.{}.{}", s, if r.is_some() { "some" } else { "none" }));
                println!("{}", line);
            }
            3 | 4 => {
                let c = gen_curve(&mut rng);
                let l = gen_line_for(&mut rng, &c);
                let _ = flo_curves::bezier::verif_roots::take();
                let hits = curve_intersects_ray(&c, &l);
                // hook H3: the polynomial and the raw roots the external solver returned inside that call
                let (poly, raw) = flo_curves::bezier::verif_roots::take().unwrap_or(((f64::NAN, f64::NAN, f64::NAN, f64::NAN), vec![]));
                let (cp1, cp2) = c.control_points();
                let mut line = format!("C04 cir R {} {} {} {} {} #{} {} {} | {}", hx2(c.start_point()), hx2(cp1), hx2(cp2), hx2(c.end_point()), hxl(&l), raw.len(), hxs(&raw), hxs(&[poly.0, poly.1, poly.2, poly.3]), hits.len());
                stats.count(&format!("cir.solver_roots{}", raw.len()));
                for (t, sp, p) in hits.iter() { line += &format!(" {} {} {}", hx(*t), hx(*sp), hx2(*p)); }
                stats.case(&line, !hits.is_empty());
                stats.count(&format!("cir.hits{}", hits.len()));
                println!("{}", line);
            }
            _ => {
                let l = (gen_pt(&mut rng, dyadic), gen_pt(&mut rng, dyadic));
                let p = gen_pt(&mut rng, dyadic);
                let c = line_coefficients_2d_unnormalized(&l);
                let line = format!("C04 lcoef {} {} {} | {} {} {} {}", s, hxl(&l), hx2(p), hx(c.0), hx(c.1), hx(c.2), hx(c.distance_to(&p)));
                stats.case(&line, l.0 != l.1);
                stats.count(&format!("lcoef.{}", s));
                println!("{}", line);
            }
        }
    }
    stats.print("C04", "corr");
}

fn near(a: Coord2, b: Coord2, tol: f64) -> bool { a.distance_to(&b) <= tol }

/// line-line on an integer grid: exact rational oracle
fn search_lines_grid(stats: &mut Stats, g: i32) {
    for x1 in 0..=g { for y1 in 0..=g { for x2 in 0..=g { for y2 in 0..=g { for x3 in 0..=g { for y3 in 0..=g { for x4 in 0..=g { for y4 in 0..=g {
        let l1 = (Coord2(x1 as f64, y1 as f64), Coord2(x2 as f64, y2 as f64));
        let l2 = (Coord2(x3 as f64, y3 as f64), Coord2(x4 as f64, y4 as f64));
        let d = (y4 - y3) * (x2 - x1) - (x4 - x3) * (y2 - y1);
        let na = (x4 - x3) * (y1 - y3) - (y4 - y3) * (x1 - x3);
        let nb = (x2 - x1) * (y1 - y3) - (y2 - y1) * (x1 - x3);
        stats.evaluations += 1;
        if d != 0 { stats.nontrivial.insert((((x1 * 5 + y1) * 5 + x2) as u64) << 40 | (((y2 * 5 + x3) * 5 + y3) as u64) << 20 | ((x4 * 5 + y4) as u64)); }
        let in01 = |n: i32| if d > 0 { n >= 0 && n <= d } else { n <= 0 && n >= d };
        let pt = || Coord2(x1 as f64 + (na as f64 / d as f64) * (x2 - x1) as f64, y1 as f64 + (na as f64 / d as f64) * (y2 - y1) as f64);
        let desc = || format!("l1={:?} l2={:?}", l1, l2);
        // line_intersects_line
        let want = if d != 0 && in01(na) && in01(nb) { Some(pt()) } else { None };
        let got = line_intersects_line(&l1, &l2);
        if !(match (got, want) { (None, None) => true, (Some(a), Some(b)) => near(a, b, 1e-12), _ => false }) { stats.fail("C04", "line_intersects_line", &format!("{} got={:?} want={:?}", desc(), got, want)); }
        let want = if d != 0 && in01(na) { Some(pt()) } else { None };
        let got = line_intersects_ray(&l1, &l2);
        if !(match (got, want) { (None, None) => true, (Some(a), Some(b)) => near(a, b, 1e-12), _ => false }) { stats.fail("C04", "line_intersects_ray", &format!("{} got={:?} want={:?}", desc(), got, want)); }
        let want = if d != 0 { Some(pt()) } else { None };
        let got = ray_intersects_ray(&l1, &l2);
        if !(match (got, want) { (None, None) => true, (Some(a), Some(b)) => near(a, b, 1e-12), _ => false }) { stats.fail("C04", "ray_intersects_ray", &format!("{} got={:?} want={:?}", desc(), got, want)); }
    } } } } } } } }
}

/// line_clip_to_bounds on an integer grid: maximal sub-segment by exact parameter enumeration
fn search_clip_grid(stats: &mut Stats, g: i32) {
    for x1 in -1..=g { for y1 in -1..=g { for x2 in -1..=g { for y2 in -1..=g {
    for bx0 in 0..g { for bx1 in bx0..=g { for by0 in 0..g { for by1 in by0..=g {
        let line = (Coord2(x1 as f64, y1 as f64), Coord2(x2 as f64, y2 as f64));
        let bounds = (Coord2(bx0 as f64, by0 as f64), Coord2(bx1 as f64, by1 as f64));
        stats.evaluations += 1;
        let res = line_clip_to_bounds(&line, &bounds);
        // candidate parameters: 0, 1 and the edge crossings, all multiples of 1/lcm(1..g+1): use 1/840 steps (lcm(1..8))
        let den = 840;
        let inside = |k: i32| {
            let xn = x1 * den + k * (x2 - x1); let yn = y1 * den + k * (y2 - y1);
            xn >= bx0 * den && xn <= bx1 * den && yn >= by0 * den && yn <= by1 * den
        };
        let mut lo = None; let mut hi = None;
        for k in 0..=den { if inside(k) { if lo.is_none() { lo = Some(k); } hi = Some(k); } }
        let at = |k: i32| Coord2(x1 as f64 + (k as f64 / den as f64) * (x2 - x1) as f64, y1 as f64 + (k as f64 / den as f64) * (y2 - y1) as f64);
        match (res, lo) {
            (None, None) => {}
            (Some(seg), Some(lo)) => {
                stats.nontrivial.insert(fnv(&format!("{:?}{:?}", line, bounds)));
                let (p, q2) = seg;
                if !near(p, at(lo), 1e-9) || !near(q2, at(hi.unwrap()), 1e-9) { stats.fail("C04", "line_clip_to_bounds_not_maximal", &format!("line={:?} box={:?} got={:?} want={:?}-{:?}", line, bounds, (p, q2), at(lo), at(hi.unwrap()))); }
            }
            (a, b) => stats.fail("C04", "line_clip_to_bounds_some_none", &format!("line={:?} box={:?} got={:?} want lo={:?}", line, bounds, a, b)),
        }
    } } } } } } } }
}

/// signed distance of a point from the infinite line, normalised
fn sdist(l: &L, p: Coord2) -> f64 {
    let a = l.1 .1 - l.0 .1; let b = l.0 .0 - l.1 .0;
    let c = -(a * l.0 .0 + b * l.0 .1);
    (a * p.0 + b * p.1 + c) / (a * a + b * b).sqrt()
}

/// curve against line on the real code: soundness of every hit, filter equality, completeness by a sign-change scan
pub fn check_curve_line(c: &Curve<Coord2>, l: &L, stats: &mut Stats, desc: &str) {
    let hits = curve_intersects_ray(c, l);
    if l.0 == l.1 { if !hits.is_empty() { stats.fail("C04", "point_line_has_hits", desc); } return; }
    for (t, s, p) in hits.iter() {
        if !(*t >= 0.0 && *t <= 1.0) { stats.fail("C04", "hit_t_out_of_range", &format!("{} t={}", desc, t)); continue; }
        let on_curve = c.point_at_pos(*t);
        if !near(on_curve, *p, 1e-9 * 200.0) { stats.fail("C04", "hit_not_on_curve", &format!("{} t={} pos={:?} curve={:?}", desc, t, p, on_curve)); }
        let snapped = *t == 0.0 || *t == 1.0;
        let tol = if snapped { 0.001 } else { 1e-6 };
        let on_line = l.0 + (l.1 - l.0) * *s;
        let d_line = sdist(l, *p).abs();
        if gt(d_line, tol) || !near(on_line, *p, tol * 1.5 + 1e-9) {
            let key = if snapped { "snapped_hit_off_line" } else { "unsnapped_hit_off_line" };
            stats.fail("C04", key, &format!("{} t={} s={} pos={:?} line_point={:?} distance_from_line={:e}", desc, t, s, p, on_line, d_line));
        }
    }
    // curve_intersects_line = those with 0 <= s <= 1
    let lh = curve_intersects_line(c, l);
    let want: Vec<(f64, f64, Coord2)> = hits.iter().cloned().filter(|(_, s, _)| *s >= 0.0 && *s <= 1.0).collect();
    if lh.len() != want.len() || lh.iter().zip(want.iter()).any(|(a, b)| a != b) { stats.fail("C04", "intersects_line_not_filter", desc); }
    // completeness: sign changes of the signed distance inside (0,1)
    let n = 2000;
    let mut prev = sdist(l, c.point_at_pos(0.5 / n as f64));
    for k in 1..n {
        let t = (k as f64 + 0.5) / n as f64;
        let cur = sdist(l, c.point_at_pos(t));
        // a clear sign change: both sides farther from the line than 1e-6, the tolerance at which the statement itself judges "on the line"
        // (a touch whose excursion to the other side stays below that is not resolvable at the statement's own resolution; a floor of 1e-7
        // flagged one such near-tangent touch in 1.6 million cases of the extended tier)
        if prev * cur < 0.0 && prev.abs() > 1e-6 && cur.abs() > 1e-6 {
            let t0 = (k as f64 - 0.5) / n as f64;
            if !hits.iter().any(|(ht, _, _)| *ht >= t0 - 1e-3 && *ht <= t + 1e-3) {
                stats.fail("C04", "sign_change_not_reported", &format!("{} sign change in t=[{}, {}] hits={:?}", desc, t0, t, hits.iter().map(|h| h.0).collect::<Vec<_>>()));
            }
            stats.count("sign_changes");
        }
        prev = cur;
    }
}

pub fn search(seed: u64, n: u64) {
    let mut rng = Rng(seed ^ 0x5EA2C04);
    let mut stats = Stats::new();
    let thorough = n >= 100000;
    search_lines_grid(&mut stats, if thorough { 4 } else { 3 });
    search_clip_grid(&mut stats, if thorough { 4 } else { 3 });
    // short, almost straight edges (0.1 .. 1 units long, control points 1e-4 .. 1e-2 off the chord's third points) crossed at a general angle
    // (own stream): the distance cubic's leading coefficients are a millionth of the linear one, the quadratic that is solved instead has a
    // second root hundreds of units outside the curve
    let mut rng_s = Rng(seed ^ 0x5707C04);
    let regress = [
        ([Coord2(30.401237216906033, 53.74612452605386), Coord2(30.500472658824105, 53.75021216917833), Coord2(30.600440300680898, 53.752623620754285), Coord2(30.701117361068853, 53.75344481963659)], (Coord2(27.636417767290794, 64.03989485775425), Coord2(19.365841595660566, 93.32384569681716))),
        ([Coord2(20.23903371159554, 62.52588669633538), Coord2(20.23734451093884, 62.61166612053081), Coord2(20.23625797773748, 62.697712251579176), Coord2(20.236257977737484, 62.78401215605426)], (Coord2(69.47173285306698, 61.09557514901203), Coord2(55.48957548276799, 61.53252056313267))),
    ];
    for (w, l) in regress.iter() {
        let c = Curve::from_points(w[0], (w[1], w[2]), w[3]);
        let desc = format!("curve=[{:?},{:?},{:?},{:?}] line={:?}", w[0], w[1], w[2], w[3], l);
        stats.case(&desc, true);
        stats.count("short_nearly_straight_edge.corpus");
        check_curve_line(&c, l, &mut stats, &desc);
    }
    for _ in 0..n / 4 {
        let a = Coord2(rng_s.r(5.0, 95.0), rng_s.r(5.0, 95.0));
        let ang = rng_s.r(0.0, std::f64::consts::TAU);
        let len = 10f64.powf(rng_s.r(-1.0, 0.0));
        let (u, nn) = (Coord2(ang.cos(), ang.sin()), Coord2(-ang.sin(), ang.cos()));
        let bend = |rng: &mut Rng| 10f64.powf(rng.r(-4.0, -2.0)) * if rng.b() { 1.0 } else { -1.0 };
        let mut w = [a, a + u * (len / 3.0) + nn * bend(&mut rng_s), a + u * (len * 2.0 / 3.0) + nn * bend(&mut rng_s), a + u * len];
        if rng_s.i(3) != 0 {
            // two in three: a short piece (0.2 % .. 2 % of the parameter range) of a large smooth curve, as the collision stage produces them:
            // the cubic, quadratic and linear coefficients then scale like len^3, len^2, len
            let big = gen_curve(&mut rng_s);
            let t0 = rng_s.r(0.0, 0.97);
            let piece: Curve<Coord2> = Curve::from_curve(&big.section(t0, t0 + 10f64.powf(rng_s.r(-2.7, -1.7))));
            let (c1, c2) = piece.control_points();
            w = [piece.start_point(), c1, c2, piece.end_point()];
        }
        let ang = { let dd = w[3] - w[0]; dd.1.atan2(dd.0) };
        let c = Curve::from_points(w[0], (w[1], w[2]), w[3]);
        // a line through a point of the edge, 20 .. 160 degrees to it, given by two points tens of units away
        let q = c.point_at_pos(rng_s.r(0.1, 0.9));
        let la = ang + rng_s.r(0.35, 2.8);
        let d = Coord2(la.cos(), la.sin());
        let (s1, s2) = (rng_s.r(5.0, 40.0), rng_s.r(5.0, 40.0));
        let l = if rng_s.b() { (q + d * s1, q + d * (s1 + s2)) } else { (q - d * s1, q + d * s2) };
        let desc = format!("curve=[{:?},{:?},{:?},{:?}] line={:?}", w[0], w[1], w[2], w[3], l);
        stats.case(&desc, true);
        stats.count("short_nearly_straight_edge");
        check_curve_line(&c, &l, &mut stats, &desc);
    }
    for _ in 0..n {
        let c = gen_curve(&mut rng);
        let l = gen_line_for(&mut rng, &c);
        let (cp1, cp2) = c.control_points();
        let desc = format!("curve=[{:?},{:?},{:?},{:?}] line={:?}", c.start_point(), cp1, cp2, c.end_point(), l);
        stats.case(&desc, true);
        check_curve_line(&c, &l, &mut stats, &desc);
    }
    stats.print("C04", "search");
}
