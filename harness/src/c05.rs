//! C05: evaluation, subdivision, sections and reversal describe the same curve.
use crate::util::*;
use flo_curves::bezier::path::*;
use flo_curves::bezier::*;
use flo_curves::*;

fn comps<P: Coordinate>(p: &P) -> Vec<f64> { (0..P::len()).map(|i| p.get(i)).collect() }
fn flat<P: Coordinate>(ps: &[P]) -> Vec<f64> { ps.iter().flat_map(|p| comps(p)).collect() }

/// four control points: stream D = dyadic grid k/8 in [-64,64], R = arbitrary reals with special shapes
fn gen_points<P: Coordinate>(rng: &mut Rng, dyadic: bool) -> [P; 4] {
    let d = P::len();
    let shape = rng.i(8);
    let mut pts: Vec<Vec<f64>> = (0..4).map(|_| (0..d).map(|_| if dyadic { rng.dyadic(-64, 64, 8) } else { rng.r(-100.0, 100.0) }).collect()).collect();
    match shape {
        0 => { pts[1] = pts[0].clone(); }
        1 => { pts[3] = pts[0].clone(); }
        2 => { let p = pts[0].clone(); for k in 0..4 { pts[k] = p.clone(); } }
        3 if !dyadic => { for k in 0..4 { for c in 0..d { pts[k][c] *= 1e-6; } } }
        4 if !dyadic => { for k in 0..4 { for c in 0..d { pts[k][c] *= 1e6; } } }
        _ => {}
    }
    [P::from_components(&pts[0]), P::from_components(&pts[1]), P::from_components(&pts[2]), P::from_components(&pts[3])]
}

fn gen_t(rng: &mut Rng, dyadic: bool) -> f64 {
    match rng.i(12) {
        0 => 0.0,
        1 => 1.0,
        2 => 0.5,
        // "all t": parameters outside [0,1] extrapolate the same cubic (the identities are polynomial identities)
        // (on the dyadic stream only, where equality is exact: the tolerance of the real stream is in units of the control polygon size,
        // which extrapolated values exceed)
        10 => if dyadic { [-1.0, -0.5, 1.5, 2.0][rng.i(4) as usize] } else { rng.f() },
        11 => if dyadic { [-0.25, 1.25, 3.0, -2.0][rng.i(4) as usize] } else { rng.f() },
        _ => if dyadic { rng.dyadic(0, 1, 16) } else { rng.f() },
    }
}

/// (a, b) with 0 <= a <= b <= 1 including a=b, a=1; dyadic: 1-a and b-a powers of two where a division is involved
fn gen_ab(rng: &mut Rng, dyadic: bool) -> (f64, f64) {
    if dyadic {
        let a = [0.0, 0.5, 0.75, 0.875, 1.0, 0.0, 0.5][rng.i(7) as usize];
        let widths = [0.0, 1.0, 0.5, 0.25, 0.125, 0.0625];
        let mut b = a + widths[rng.i(6) as usize];
        if b > 1.0 { b = 1.0; }
        (a, b)
    } else {
        match rng.i(8) {
            0 => (0.0, 1.0),
            1 => (1.0, 1.0),
            2 => { let a = rng.f(); (a, a) }
            3 => (rng.f(), 1.0),
            4 => { let a = 1.0 - rng.f() * 1e-6; (a, 1.0) }
            _ => { let a = rng.f(); let b = rng.f(); if a <= b { (a, b) } else { (b, a) } }
        }
    }
}

fn corr_dim<P: Coordinate>(rng: &mut Rng, dyadic: bool, stats: &mut Stats) {
    let d = P::len();
    let s = if dyadic { "D" } else { "R" };
    let w: [P; 4] = gen_points(rng, dyadic);
    let curve = Curve::from_points(w[0], (w[1], w[2]), w[3]);
    let wtxt = hxs(&flat(&w));
    match rng.i(6) {
        0 => {
            let t = gen_t(rng, dyadic);
            let out = [curve.point_at_pos(t), basis(t, w[0], w[1], w[2], w[3]), de_casteljau4(t, w[0], w[1], w[2], w[3])];
            let line = format!("C05 basis {} {} {} {} | {}", s, d, hx(t), wtxt, hxs(&flat(&out)));
            stats.case(&line, t != 0.0 && t != 1.0 && w[0] != w[3]);
            stats.count(&format!("basis.{}d.{}", d, s));
            println!("{}", line);
        }
        1 => {
            let t = gen_t(rng, dyadic);
            let (l, r): (Curve<P>, Curve<P>) = curve.subdivide(t);
            let out = [l.start_point(), l.control_points().0, l.control_points().1, l.end_point(), r.start_point(), r.control_points().0, r.control_points().1, r.end_point()];
            let line = format!("C05 subdivide {} {} {} {} | {}", s, d, hx(t), wtxt, hxs(&flat(&out)));
            stats.case(&line, t != 0.0 && t != 1.0 && w[0] != w[3]);
            stats.count(&format!("subdivide.{}d.{}", d, s));
            println!("{}", line);
        }
        2 => {
            let (a, b) = gen_ab(rng, dyadic);
            let sp = gen_t(rng, dyadic);
            let sec = curve.section(a, b);
            let (cp1, cp2) = sec.control_points();
            let out = [sec.point_at_pos(sp), sec.start_point(), sec.end_point(), cp1, cp2];
            let (ta, tb) = sec.original_curve_t_values();
            let line = format!("C05 section {} {} {} {} {} {} | {} {} {}", s, d, hx(a), hx(b), hx(sp), wtxt, hxs(&flat(&out)), hx(ta), hx(tb));
            stats.case(&line, a < b && w[0] != w[3]);
            stats.count(&format!("section.{}d.{}", d, s));
            if a == 1.0 { stats.count("section.a=1"); }
            if a == b { stats.count("section.a=b"); }
            println!("{}", line);
        }
        3 => {
            let (a, b) = gen_ab(rng, dyadic);
            let (c, e) = gen_ab(rng, dyadic);
            let sp = gen_t(rng, dyadic);
            let sec = curve.section(a, b);
            let sub = sec.subsection(c, e);
            let (ta, tb) = sub.original_curve_t_values();
            let line = format!("C05 subsection {} {} {} {} {} {} {} {} | {} {} {}", s, d, hx(a), hx(b), hx(c), hx(e), hx(sp), wtxt, hxs(&comps(&sub.point_at_pos(sp))), hx(ta), hx(tb));
            stats.case(&line, a < b && c < e && w[0] != w[3]);
            stats.count(&format!("subsection.{}d.{}", d, s));
            println!("{}", line);
        }
        4 => {
            let r: Curve<P> = curve.clone().reverse();
            let out = [r.start_point(), r.control_points().0, r.control_points().1, r.end_point()];
            let line = format!("C05 reverse {} {} {} | {}", s, d, wtxt, hxs(&flat(&out)));
            stats.case(&line, w[0] != w[3] || w[1] != w[2]);
            stats.count(&format!("reverse.{}d", d));
            println!("{}", line);
        }
        _ => {
            // t_for_t and its inverse; dyadic stream keeps the divisor t_m a power of two
            let (a, b) = gen_ab(rng, dyadic);
            let t = gen_t(rng, dyadic);
            let sec = curve.section(a, b);
            let u = sec.t_for_t(t);
            let back = sec.section_t_for_original_t(u);
            let line = format!("C05 tfor {} {} {} {} | {} {}", s, hx(a), hx(b), hx(t), hx(u), hx(back));
            stats.case(&line, a < b);
            stats.count(&format!("tfor.{}", s));
            println!("{}", line);
        }
    }
}

/// a random path: start point only, or 1..6 curves (all coordinates arbitrary: the operation only moves them)
fn gen_path(rng: &mut Rng) -> SimpleBezierPath {
    let n = rng.i(7) as usize;
    let start = Coord2(rng.dyadic(-64, 64, 8), rng.dyadic(-64, 64, 8));
    let mut pts: Vec<(Coord2, Coord2, Coord2)> = vec![];
    let mut prev = start;
    for _ in 0..n {
        let p = |rng: &mut Rng| Coord2(rng.r(-100.0, 100.0), rng.r(-100.0, 100.0));
        let sec = match rng.i(8) {
            0 => (p(rng), p(rng), prev),        // a section that returns to its own start (teardrop / loop)
            1 => (prev, prev, prev),            // a zero-length section
            _ => (p(rng), p(rng), p(rng)),
        };
        prev = sec.2;
        pts.push(sec);
    }
    (start, pts)
}

/// BezierPath::reversed against the generated `path_reversed` (no arithmetic: bit-exact)
fn corr_path(rng: &mut Rng, stats: &mut Stats) {
    let path = gen_path(rng);
    let rev: SimpleBezierPath = path.reversed();
    let fl = |p: &SimpleBezierPath| { let mut v = vec![p.0 .0, p.0 .1]; for (a, b, c) in &p.1 { v.extend_from_slice(&[a.0, a.1, b.0, b.1, c.0, c.1]); } v };
    let line = format!("C05 pathrev D {} | #{} {}", hxs(&fl(&path)), rev.1.len(), hxs(&fl(&rev)));
    stats.case(&line, path.1.len() > 1);
    stats.count(&format!("pathrev.curves_{}", path.1.len()));
    println!("{}", line);
}

pub fn corr(seed: u64, n: u64) {
    let mut rng = Rng(seed ^ 0xC05);
    let mut stats = Stats::new();
    for i in 0..n {
        let dyadic = i % 2 == 0;
        if i % 16 == 15 { corr_path(&mut rng, &mut stats); continue; }
        match rng.i(3) {
            0 => corr_dim::<f64>(&mut rng, dyadic, &mut stats),
            1 => corr_dim::<Coord2>(&mut rng, dyadic, &mut stats),
            _ => corr_dim::<Coord3>(&mut rng, dyadic, &mut stats),
        }
    }
    stats.print("C05", "corr");
}

fn maxabs<P: Coordinate>(ps: &[P]) -> f64 { flat(ps).iter().fold(0.0f64, |m, v| nmax(m, v.abs())) }
fn dist<P: Coordinate>(a: &P, b: &P) -> f64 { comps(a).iter().zip(comps(b).iter()).fold(0.0f64, |m, (x, y)| nmax(m, (x - y).abs())) }

/// the property itself on the real code: dyadic inputs with zero tolerance, reals to a few ulps of the polygon size
fn search_dim<P: Coordinate>(rng: &mut Rng, dyadic: bool, stats: &mut Stats) {
    let d = P::len();
    let w: [P; 4] = gen_points(rng, dyadic);
    let curve = Curve::from_points(w[0], (w[1], w[2]), w[3]);
    let scale = maxabs(&w);
    let tol = |c: f64| if dyadic { 0.0 } else { c * f64::EPSILON * scale };
    let desc = |extra: String| format!("dim={} stream={} w={:?} {}", d, if dyadic { "D" } else { "R" }, flat(&w), extra);
    let t = gen_t(rng, dyadic);
    let s = gen_t(rng, dyadic);
    stats.case(&desc(format!("t={} s={}", t, s)), w[0] != w[3] && t != 0.0 && t != 1.0);

    // evaluation
    let p = curve.point_at_pos(t);
    let q = de_casteljau4(t, w[0], w[1], w[2], w[3]);
    if !(dist(&p, &q) <= tol(64.0)) { stats.fail("C05", "point_at_pos_vs_de_casteljau", &desc(format!("t={} point_at_pos={:?} de_casteljau={:?}", t, comps(&p), comps(&q)))); }
    if curve.point_at_pos(0.0) != w[0] { stats.fail("C05", "start_not_exact", &desc(String::new())); }
    if curve.point_at_pos(1.0) != w[3] { stats.fail("C05", "end_not_exact", &desc(String::new())); }

    // subdivision
    let (l, r): (Curve<P>, Curve<P>) = curve.subdivide(t);
    if l.end_point() != r.start_point() { stats.fail("C05", "subdivide_split_point_not_shared", &desc(format!("t={}", t))); }
    if !(dist(&l.end_point(), &p) <= tol(64.0)) { stats.fail("C05", "subdivide_split_point_off_curve", &desc(format!("t={}", t))); }
    let lp = l.point_at_pos(s);
    let lw = curve.point_at_pos(s * t);
    if !(dist(&lp, &lw) <= tol(64.0)) { stats.fail("C05", "subdivide_left", &desc(format!("t={} s={} left={:?} curve={:?}", t, s, comps(&lp), comps(&lw)))); }
    let rp = r.point_at_pos(s);
    let rw = curve.point_at_pos(t + s * (1.0 - t));
    if !(dist(&rp, &rw) <= tol(64.0)) { stats.fail("C05", "subdivide_right", &desc(format!("t={} s={} right={:?} curve={:?}", t, s, comps(&rp), comps(&rw)))); }

    // sections
    let (a, b) = gen_ab(rng, dyadic);
    let sec = curve.section(a, b);
    let want = curve.point_at_pos(a + s * (b - a));
    let got = sec.point_at_pos(s);
    if !(dist(&got, &want) <= tol(256.0)) { stats.fail("C05", "section_point", &desc(format!("a={} b={} s={} got={:?} want={:?}", a, b, s, comps(&got), comps(&want)))); }
    let sc: Curve<P> = Curve::from_curve(&sec);
    let got = sc.point_at_pos(s);
    if !(dist(&got, &want) <= tol(1024.0)) { stats.fail("C05", if a == 1.0 { "section_control_points_a=1" } else { "section_control_points" }, &desc(format!("a={} b={} s={} got={:?} want={:?}", a, b, s, comps(&got), comps(&want)))); }
    let (c, e) = gen_ab(rng, dyadic);
    let sub = sec.subsection(c, e);
    let want = curve.point_at_pos(a + (c + s * (e - c)) * (b - a));
    let got = sub.point_at_pos(s);
    if !(dist(&got, &want) <= tol(256.0)) { stats.fail("C05", "subsection_point", &desc(format!("a={} b={} c={} e={} s={}", a, b, c, e, s))); }
    if a == 1.0 { stats.count("section.a=1"); }
    if a == b { stats.count("section.a=b"); }
    // the generic curve operations applied to a SECTION describe the section (a section is a curve: whatever CurveSection
    // overrides or inherits must agree with the cubic of its own control points) - from seeded change C05-m8
    let rsec: Curve<P> = curve.section(a, b).reverse();
    let got = rsec.point_at_pos(s);
    let want = sec.point_at_pos(1.0 - s);
    let sec_key = |k: &str| format!("{}{}", k, if b == 1.0 { ".b=1" } else if a == b { ".a=b" } else { "" });
    if b == 1.0 { stats.count("section.b=1"); }
    if !(dist(&got, &want) <= tol(2048.0)) { stats.fail("C05", &sec_key("section_reverse_point"), &desc(format!("a={} b={} s={} got={:?} want={:?}", a, b, s, comps(&got), comps(&want)))); }
    let rback: Curve<P> = rsec.clone().reverse();
    if !(dist(&rback.point_at_pos(s), &sec.point_at_pos(s)) <= tol(2048.0)) { stats.fail("C05", &sec_key("section_reverse_twice"), &desc(format!("a={} b={} s={}", a, b, s))); }
    let (sl, sr): (Curve<P>, Curve<P>) = curve.section(a, b).subdivide(t);
    let want_l = sec.point_at_pos(s * t);
    let want_r = sec.point_at_pos(t + s * (1.0 - t));
    if !(dist(&sl.point_at_pos(s), &want_l) <= tol(2048.0)) { stats.fail("C05", &sec_key("section_subdivide_left"), &desc(format!("a={} b={} t={} s={}", a, b, t, s))); }
    if !(dist(&sr.point_at_pos(s), &want_r) <= tol(2048.0)) { stats.fail("C05", &sec_key("section_subdivide_right"), &desc(format!("a={} b={} t={} s={}", a, b, t, s))); }
    if sl.end_point() != sr.start_point() { stats.fail("C05", "section_subdivide_split_point_not_shared", &desc(format!("a={} b={} t={}", a, b, t))); }

    // reversal
    let rev: Curve<P> = curve.clone().reverse();
    let got = rev.point_at_pos(s);
    let want = curve.point_at_pos(1.0 - s);
    if !(dist(&got, &want) <= tol(64.0)) { stats.fail("C05", "reverse_point", &desc(format!("s={}", s))); }
    let back: Curve<P> = rev.reverse();
    if back != curve { stats.fail("C05", "reverse_twice", &desc(String::new())); }
}

fn search_path(rng: &mut Rng, stats: &mut Stats) {
    // reversing a path traverses the same curves backwards; reversing twice is the identity
    let path: SimpleBezierPath = gen_path(rng);
    let n = path.1.len();
    
    let rev: SimpleBezierPath = path.reversed();
    let back: SimpleBezierPath = rev.reversed();
    let desc = format!("path={:?}", path);
    stats.case(&desc, n > 1);
    stats.count(if n == 0 { "path_reversed.no_curves" } else { "path_reversed" });
    if rev.0 != path.1.last().map(|p| p.2).unwrap_or(path.0) { stats.fail("C05", "path_reversed_start", &desc); }
    if back != path { stats.fail("C05", "path_reversed_twice", &desc); }
    let curves: Vec<Curve<Coord2>> = path.to_curves();
    let rcurves: Vec<Curve<Coord2>> = rev.to_curves();
    if curves.len() != rcurves.len() { stats.fail("C05", "path_reversed_length", &desc); return; }
    for (i, c) in curves.iter().enumerate() {
        let r = &rcurves[curves.len() - 1 - i];
        let want: Curve<Coord2> = c.clone().reverse();
        if *r != want { stats.fail("C05", "path_reversed_curve", &format!("{} curve {}", desc, i)); }
    }
}

pub fn search(seed: u64, n: u64) {
    let mut rng = Rng(seed ^ 0x5EA2C405);
    let mut stats = Stats::new();
    for i in 0..n {
        let dyadic = i % 2 == 0;
        match rng.i(7) {
            0 | 1 => search_dim::<f64>(&mut rng, dyadic, &mut stats),
            2 | 3 => search_dim::<Coord2>(&mut rng, dyadic, &mut stats),
            4 | 5 => search_dim::<Coord3>(&mut rng, dyadic, &mut stats),
            _ => search_path(&mut rng, &mut stats),
        }
    }
    stats.print("C05", "search");
}
