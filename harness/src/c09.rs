//! C09: nearest-point queries return the global minimum (to 0.01 units in a 100-unit box); nearest_point / distance_to
//! agree with nearest_t; path_closest_point is the minimum over the path's curves with matching index and parameter.
//! Oracle: brute force over a 1/4000 parameter grid refined by golden section, on an evaluation independent of the library.
use crate::guard::*;
use crate::cshapes::*;
use crate::util::*;
use flo_curves::bezier::path::*;
use flo_curves::bezier::*;
use std::collections::BTreeMap;

const TOL: f64 = 0.01;
const GRID: usize = 4000;
const TIMEOUT: f64 = 3.0;
/// after this many abandoned calls for one curve class the remaining cases of the class are not run (they are counted)
const HANG_BUDGET: u64 = 3;

pub const QUERY_CLASSES: [&str; 10] = ["inside_hull", "box", "far_outside", "on_curve", "near_curve", "equidistant_two_branches", "arch_circle_centre", "at_control_point", "at_end_point", "beyond_end_along_tangent"];

fn circumcentre(a: Coord2, b: Coord2, c: Coord2) -> Option<Coord2> {
    let d = 2.0 * (a.0 * (b.1 - c.1) + b.0 * (c.1 - a.1) + c.0 * (a.1 - b.1));
    if d.abs() < 1e-9 { return None; }
    let (a2, b2, c2) = (a.0 * a.0 + a.1 * a.1, b.0 * b.0 + b.1 * b.1, c.0 * c.0 + c.1 * c.1);
    let p = Coord2((a2 * (b.1 - c.1) + b2 * (c.1 - a.1) + c2 * (a.1 - b.1)) / d, (a2 * (c.0 - b.0) + b2 * (a.0 - c.0) + c2 * (b.0 - a.0)) / d);
    if finite2(p) && p.0.abs() < 1e4 && p.1.abs() < 1e4 { Some(p) } else { None }
}

pub fn gen_query(rng: &mut Rng, w: &Cub, class: &str) -> Coord2 {
    let fallback = Coord2(rng.r(0.0, 100.0), rng.r(0.0, 100.0));
    match class {
        "inside_hull" => { let mut k = [rng.f(), rng.f(), rng.f(), rng.f()]; let s: f64 = k.iter().sum::<f64>().max(1e-9); for v in k.iter_mut() { *v /= s; } w[0] * k[0] + w[1] * k[1] + w[2] * k[2] + w[3] * k[3] }
        "far_outside" => { let a = rng.r(0.0, std::f64::consts::TAU); let r = rng.r(150.0, 1000.0); Coord2(50.0 + r * a.cos(), 50.0 + r * a.sin()) }
        "on_curve" => eval(w, if rng.i(4) == 0 { rng.dyadic(0, 1, 8) } else { rng.f() }),
        "near_curve" => { let t = rng.f(); let v = deriv(w, t); let l = (v.0 * v.0 + v.1 * v.1).sqrt(); let e = 10f64.powf(rng.r(-6.0, 0.5)) * if rng.b() { 1.0 } else { -1.0 }; if l > 1e-9 { eval(w, t) + Coord2(-v.1, v.0) * (e / l) } else { eval(w, t) + Coord2(e, 0.0) } }
        "equidistant_two_branches" => {
            // a point of the perpendicular bisector of two curve points
            let (t1, t2) = (rng.f(), rng.f());
            let (a, b) = (eval(w, t1), eval(w, t2));
            let m = (a + b) * 0.5; let d = b - a;
            m + Coord2(-d.1, d.0) * rng.r(-1.0, 1.0)
        }
        "arch_circle_centre" => circumcentre(w[0], eval(w, 0.5), w[3]).unwrap_or(fallback),
        "at_control_point" => w[rng.i(4) as usize],
        "at_end_point" => if rng.b() { w[0] } else { w[3] },
        "beyond_end_along_tangent" => { let (p, v) = if rng.b() { (w[3], deriv(w, 1.0)) } else { (w[0], deriv(w, 0.0) * -1.0) }; p + v * rng.r(0.01, 1.0) }
        _ => fallback,
    }
}

struct Ctx { stats: Stats, hangs: BTreeMap<String, u64> }

/// one nearest_t query with all the curve-level checks; returns false when the call was not run (hang budget)
fn check_query(cx: &mut Ctx, w: &Cub, q: Coord2, cclass: &str, qclass: &str) -> bool {
    let desc = format!("curve={} class={} query={:?} query_class={}", fmt_cub(w), cclass, q, qclass);
    if *cx.hangs.get(cclass).unwrap_or(&0) >= HANG_BUDGET { cx.stats.count(&format!("not_run.hang_budget_exhausted.{}", cclass)); return false; }
    cx.stats.case(&desc, cclass != "point");
    cx.stats.count(&format!("curve.{}", cclass));
    cx.stats.count(&format!("query.{}", qclass));
    let c = lib_curve(w);
    let t = match guarded(TIMEOUT, move || c.nearest_t(&q)) {
        Outcome::Done(t) => t,
        Outcome::Panic(m) => { cx.stats.fail("C09", &format!("panic.nearest_t.{}", cclass), &format!("{} panic={}", desc, m)); return true; }
        Outcome::Hang => {
            *cx.hangs.entry(cclass.to_string()).or_insert(0) += 1;
            cx.stats.fail("C09", &format!("hang.nearest_t.{}", cclass), &format!("{} no result after {} s", desc, TIMEOUT));
            return true;
        }
    };
    let (bt, bd) = nearest_on_cub(w, q, GRID);
    if !(t >= 0.0 && t <= 1.0) {
        cx.stats.fail("C09", &format!("nearest.t_out_of_range.{}", cclass), &format!("{} t={:?}", desc, t));
    } else {
        let d = dist(eval(w, t), q);
        cx.stats.count(if d <= bd + 1e-9 { "result.optimal_to_1e-9" } else if d <= bd + TOL { "result.within_tolerance" } else { "result.not_minimum" });
        // bd is attained at parameter bt of the same curve, so d > bd + TOL is a witness against the global minimum
        if d > bd + TOL {
            cx.stats.fail("C09", &format!("nearest.not_global_minimum.{}.{}", cclass, qclass), &format!("{} nearest_t={:?} distance={:?} but t={:?} has distance={:?} (excess {:e})", desc, t, d, bt, bd, d - bd));
        }
    }
    // nearest_point and distance_to (nearest_t returned on this input, so these return too)
    let c = lib_curve(w);
    match catch(|| (c.nearest_point(&q), c.distance_to(&q), c.point_at_pos(t))) {
        Err(m) => cx.stats.fail("C09", &format!("panic.nearest_point.{}", cclass), &format!("{} panic={}", desc, m)),
        Ok((np, dt, pt)) => {
            if t.is_finite() {
                if !(dist(np, pt) <= 1e-9) { cx.stats.fail("C09", &format!("nearest_point_inconsistent.{}", cclass), &format!("{} nearest_t={:?} point_at_pos={:?} nearest_point={:?}", desc, t, pt, np)); }
                if !((dt - dist(np, q)).abs() <= 1e-9) { cx.stats.fail("C09", &format!("distance_to_inconsistent.{}", cclass), &format!("{} nearest_point={:?} |nearest_point-query|={:?} distance_to={:?}", desc, np, dist(np, q), dt)); }
            }
        }
    }
    true
}

/// a connected chain of curves as a path
fn gen_path(rng: &mut Rng, avoid: &[String]) -> (Vec<Cub>, Vec<&'static str>) {
    let k = 1 + rng.i(5) as usize;
    let (mut curves, mut classes) = (vec![], vec![]);
    let mut pos: Option<Coord2> = None;
    for _ in 0..k {
        // a class whose hang budget is used up is no longer put into paths (the single-curve cases report it)
        let mut class = CURVE_CLASSES[rng.i(CURVE_CLASSES.len() as u64) as usize];
        if avoid.iter().any(|a| a == class) { class = "random"; }
        let mut w = gen_class(rng, class);
        // translate so that the chain is connected; coincident control points stay exactly coincident
        if let Some(p) = pos { let o = w[0]; for q in w.iter_mut() { *q = p + (*q - o); } }
        pos = Some(w[3]);
        curves.push(w); classes.push(class);
    }
    if rng.i(3) == 0 && k > 1 {
        // closed path: the last curve ends at the first point; this can turn a point curve into one with three coincident
        // control points, so the class is taken from the geometry again
        let last = curves.len() - 1;
        let mut w = curves[last];
        w[3] = curves[0][0];
        let class = if biteq(w[0], w[1]) && biteq(w[1], w[2]) && !biteq(w[2], w[3]) { "three_coincident_control_points" } else { classes[last] };
        if !avoid.iter().any(|a| a == class) { curves[last] = w; classes[last] = class; }
    }
    (curves, classes)
}

fn check_path(cx: &mut Ctx, rng: &mut Rng) {
    let avoid: Vec<String> = cx.hangs.iter().filter(|(_, v)| **v >= HANG_BUDGET).map(|(k, _)| k.clone()).collect();
    if !avoid.is_empty() { cx.stats.count("path.generated_without_classes_that_used_up_their_hang_budget"); }
    let (curves, classes) = gen_path(rng, &avoid);
    let which = rng.i(curves.len() as u64) as usize;
    let qclass = ["box", "on_curve", "near_curve", "far_outside", "equidistant_two_branches", "at_end_point"][rng.i(6) as usize];
    let q = if qclass == "equidistant_two_branches" && curves.len() > 1 {
        // equidistant from points of two different curves of the path
        let (a, b) = (eval(&curves[0], rng.f()), eval(&curves[curves.len() - 1], rng.f()));
        let d = b - a; (a + b) * 0.5 + Coord2(-d.1, d.0) * rng.r(-0.5, 0.5)
    } else { gen_query(rng, &curves[which], qclass) };
    let path: SimpleBezierPath = (curves[0][0], curves.iter().map(|w| (w[1], w[2], w[3])).collect());
    let desc = format!("path={:?} classes={:?} query={:?} query_class={}", path, classes, q, qclass);
    let hang_prone = classes.iter().any(|c| *cx.hangs.get(*c).unwrap_or(&0) >= HANG_BUDGET);
    if hang_prone { cx.stats.count("not_run.hang_budget_exhausted.path"); return; }
    let kind = if classes.contains(&"three_coincident_control_points") { "contains_three_coincident_control_points" } else { "other" };
    cx.stats.case(&desc, curves.len() > 1);
    cx.stats.count(&format!("path.curves{}", curves.len()));
    cx.stats.count(&format!("path.query.{}", qclass));
    let p2 = path.clone();
    let (idx, t, d, pt) = match guarded(TIMEOUT, move || path_closest_point(&p2, &q)) {
        Outcome::Done(r) => r,
        Outcome::Panic(m) => { cx.stats.fail("C09", &format!("panic.path_closest_point.{}", kind), &format!("{} panic={}", desc, m)); return; }
        Outcome::Hang => {
            for c in classes.iter() { if *c == "three_coincident_control_points" { *cx.hangs.entry(c.to_string()).or_insert(0) += 1; } }
            cx.stats.fail("C09", &format!("hang.path_closest_point.{}", kind), &format!("{} no result after {} s", desc, TIMEOUT)); return;
        }
    };
    let brute: Vec<(f64, f64)> = curves.iter().map(|w| nearest_on_cub(w, q, GRID)).collect();
    let mut bi = 0;
    for (i, b) in brute.iter().enumerate() { if b.1 < brute[bi].1 { bi = i; } }
    if idx >= curves.len() || !(t >= 0.0 && t <= 1.0) {
        cx.stats.fail("C09", "path_closest_point.index_or_param_out_of_range", &format!("{} result=({}, {:?}, {:?}, {:?})", desc, idx, t, d, pt));
        return;
    }
    let on = eval(&curves[idx], t);
    if !(dist(on, pt) <= 1e-9) || !((d - dist(pt, q)).abs() <= 1e-9) {
        cx.stats.fail("C09", "path_closest_point.index_param_mismatch", &format!("{} result=({}, {:?}, {:?}, {:?}) but curve {} at t is {:?}, |point-query|={:?}", desc, idx, t, d, pt, idx, on, dist(pt, q)));
    }
    if dist(on, q) > brute[bi].1 + TOL {
        cx.stats.fail("C09", "path_closest_point.not_minimum", &format!("{} result=({}, {:?}, {:?}, {:?}) but curve {} at t={:?} has distance {:?}", desc, idx, t, d, pt, bi, brute[bi].0, brute[bi].1));
    }
}

pub fn search(seed: u64, n: u64) {
    let mut rng = Rng(seed ^ 0x5EA2C09);
    let mut cx = Ctx { stats: Stats::new(), hangs: BTreeMap::new() };
    install_silent_hook();
    // corpus: the recorded non-terminating query, its mirror image, and a symmetric arch queried at its circle centre
    let corpus: [(Cub, Coord2, &str, &str); 4] = [
        ([Coord2(5.0, 5.0), Coord2(5.0, 5.0), Coord2(5.0, 5.0), Coord2(9.0, 7.0)], Coord2(7.0, 6.0), "three_coincident_control_points", "corpus"),
        ([Coord2(9.0, 7.0), Coord2(5.0, 5.0), Coord2(5.0, 5.0), Coord2(5.0, 5.0)], Coord2(7.0, 6.0), "three_coincident_control_points", "corpus"),
        ([Coord2(10.0, 50.0), Coord2(10.0, 50.0 + 40.0 * 0.5522847498), Coord2(50.0 - 40.0 * 0.5522847498, 90.0), Coord2(50.0, 90.0)], Coord2(50.0, 50.0), "arch", "arch_circle_centre"),
        ([Coord2(0.0, 0.0), Coord2(30.0, 60.0), Coord2(70.0, 60.0), Coord2(100.0, 0.0)], Coord2(50.0, 0.0), "arch", "equidistant_two_branches"),
    ];
    for (w, q, cc, qc) in corpus.iter() { check_query(&mut cx, w, *q, cc, qc); }
    for it in 0..n {
        if it % 5 == 4 { check_path(&mut cx, &mut rng); continue; }
        let cclass = CURVE_CLASSES[rng.i(CURVE_CLASSES.len() as u64) as usize];
        let w = gen_class(&mut rng, cclass);
        // one top-level case = one curve with three queries of different classes
        for _ in 0..3 {
            let qclass = QUERY_CLASSES[rng.i(QUERY_CLASSES.len() as u64) as usize];
            let q = gen_query(&mut rng, &w, qclass);
            check_query(&mut cx, &w, q, cclass, qclass);
        }
    }
    cx.stats.add("abandoned_threads", abandoned_threads());
    cx.stats.print("C09", "search");
    finish();
}
