//! C09: nearest-point queries return the global minimum (to 0.01 units in a 100-unit box); nearest_point / distance_to
//! agree with nearest_t; path_closest_point is the minimum over the path's curves with matching index and parameter.
//! Oracle: brute force over a 1/4000 parameter grid refined by golden section, on an evaluation independent of the library.
use crate::guard::*;
use crate::cshapes::*;
use crate::util::*;
use flo_curves::bezier::path::*;
use flo_curves::bezier::*;
use std::collections::BTreeMap;

const TOL: f64 = 0.01;
const GRID: usize = 4000;
const TIMEOUT: f64 = 3.0;
/// after this many abandoned calls for one curve class the remaining cases of the class are not run (they are counted)
const HANG_BUDGET: u64 = 3;

pub const QUERY_CLASSES: [&str; 10] = ["inside_hull", "box", "far_outside", "on_curve", "near_curve", "equidistant_two_branches", "arch_circle_centre", "at_control_point", "at_end_point", "beyond_end_along_tangent"];

fn circumcentre(a: Coord2, b: Coord2, c: Coord2) -> Option<Coord2> {
    let d = 2.0 * (a.0 * (b.1 - c.1) + b.0 * (c.1 - a.1) + c.0 * (a.1 - b.1));
    if d.abs() < 1e-9 { return None; }
    let (a2, b2, c2) = (a.0 * a.0 + a.1 * a.1, b.0 * b.0 + b.1 * b.1, c.0 * c.0 + c.1 * c.1);
    let p = Coord2((a2 * (b.1 - c.1) + b2 * (c.1 - a.1) + c2 * (a.1 - b.1)) / d, (a2 * (c.0 - b.0) + b2 * (a.0 - c.0) + c2 * (b.0 - a.0)) / d);
    if finite2(p) && p.0.abs() < 1e4 && p.1.abs() < 1e4 { Some(p) } else { None }
}

pub fn gen_query(rng: &mut Rng, w: &Cub, class: &str) -> Coord2 {
    let fallback = Coord2(rng.r(0.0, 100.0), rng.r(0.0, 100.0));
    match class {
        "inside_hull" => { let mut k = [rng.f(), rng.f(), rng.f(), rng.f()]; let s: f64 = k.iter().sum::<f64>().max(1e-9); for v in k.iter_mut() { *v /= s; } w[0] * k[0] + w[1] * k[1] + w[2] * k[2] + w[3] * k[3] }
        "far_outside" => { let a = rng.r(0.0, std::f64::consts::TAU); let r = rng.r(150.0, 1000.0); Coord2(50.0 + r * a.cos(), 50.0 + r * a.sin()) }
        "on_curve" => eval(w, if rng.i(4) == 0 { rng.dyadic(0, 1, 8) } else { rng.f() }),
        "near_curve" => { let t = rng.f(); let v = deriv(w, t); let l = (v.0 * v.0 + v.1 * v.1).sqrt(); let e = 10f64.powf(rng.r(-6.0, 0.5)) * if rng.b() { 1.0 } else { -1.0 }; if l > 1e-9 { eval(w, t) + Coord2(-v.1, v.0) * (e / l) } else { eval(w, t) + Coord2(e, 0.0) } }
        "equidistant_two_branches" => {
            // a point of the perpendicular bisector of two curve points
            let (t1, t2) = (rng.f(), rng.f());
            let (a, b) = (eval(w, t1), eval(w, t2));
            let m = (a + b) * 0.5; let d = b - a;
            m + Coord2(-d.1, d.0) * rng.r(-1.0, 1.0)
        }
        "arch_circle_centre" => circumcentre(w[0], eval(w, 0.5), w[3]).unwrap_or(fallback),
        "at_control_point" => w[rng.i(4) as usize],
        "at_end_point" => if rng.b() { w[0] } else { w[3] },
        "beyond_end_along_tangent" => { let (p, v) = if rng.b() { (w[3], deriv(w, 1.0)) } else { (w[0], deriv(w, 0.0) * -1.0) }; p + v * rng.r(0.01, 1.0) }
        _ => fallback,
    }
}

struct Ctx { stats: Stats, hangs: BTreeMap<String, u64> }

/// Schneider's degree-5 control polygon of (C(t) - q).C'(t), computed here (the library's own construction is private)
fn quintic_polygon(w: &Cub, q: Coord2) -> [Coord2; 6] {
    let z = [[1.0, 0.6, 0.3, 0.1], [0.4, 0.6, 0.6, 0.4], [0.1, 0.3, 0.6, 1.0]];
    let mut c = [0.0; 6];
    for j in 0..3 { for i in 0..4 { let d = (w[j + 1] - w[j]) * 3.0; let o = w[i] - q; c[i + j] += (d.0 * o.0 + d.1 * o.1) * z[j][i]; } }
    let mut a = [Coord2(0.0, 0.0); 6];
    for k in 0..6 { a[k] = Coord2(k as f64 / 5.0, c[k]); }
    a
}

/// MEASUREMENT (counters only, never a failure): the hypothesis the Lean theorem `nearest_t_within` names (`FlatLeavesWithin`): every
/// sign change of the quintic in (0,1) (found on a 1/2000 grid, refined by bisection) against the values the public
/// find_bezier_roots returns for that quintic
fn measure_root_completeness(cx: &mut Ctx, w: &Cub, q: Coord2) {
    let a = quintic_polygon(w, q);
    let roots = match catch(|| find_bezier_roots::<Coord2, 6>(a)) { Ok(r) => r, Err(_) => { cx.stats.count("quintic.find_bezier_roots_panicked"); return; } };
    let ev = |t: f64| -> f64 { let mut v: Vec<f64> = a.iter().map(|p| p.1).collect(); while v.len() > 1 { v = v.windows(2).map(|x| x[0] * (1.0 - t) + x[1] * t).collect(); } v[0] };
    let n = 2000;
    let mut prev = ev(0.0);
    for k in 1..=n {
        let (t0, t1) = ((k - 1) as f64 / n as f64, k as f64 / n as f64);
        let cur = ev(t1);
        if (prev < 0.0) != (cur < 0.0) && k > 1 && k < n {
            let (mut lo, mut hi) = (t0, t1);
            for _ in 0..60 { let m = 0.5 * (lo + hi); if (ev(m) < 0.0) == (prev < 0.0) { lo = m; } else { hi = m; } }
            let root = 0.5 * (lo + hi);
            let e = roots.iter().fold(f64::MAX, |m, r| m.min((r - root).abs()));
            let kind = if prev < 0.0 { "minimum_of_distance" } else { "maximum_of_distance" };
            cx.stats.count(&format!("quintic.sign_change.{}.{}", kind, if e <= 1e-9 { "returned_within_1e-9" } else if e <= 1e-6 { "returned_within_1e-6" } else if e <= 1e-3 { "returned_within_1e-3" } else { "NOT_RETURNED" }));
        }
        prev = cur;
    }
    if roots.iter().any(|r| !(*r >= 0.0 && *r <= 1.0)) { cx.stats.count("quintic.returned_value_outside_unit_range"); }
}

/// one nearest_t query with all the curve-level checks; returns false when the call was not run (hang budget)
fn check_query(cx: &mut Ctx, w: &Cub, q: Coord2, cclass: &str, qclass: &str) -> bool {
    let desc = format!("curve={} class={} query={:?} query_class={}", fmt_cub(w), cclass, q, qclass);
    if *cx.hangs.get(cclass).unwrap_or(&0) >= HANG_BUDGET { cx.stats.count(&format!("not_run.hang_budget_exhausted.{}", cclass)); return false; }
    cx.stats.case(&desc, cclass != "point");
    cx.stats.count(&format!("curve.{}", cclass));
    cx.stats.count(&format!("query.{}", qclass));
    let c = lib_curve(w);
    let t = match guarded(TIMEOUT, move || c.nearest_t(&q)) {
        Outcome::Done(t) => t,
        Outcome::Panic(m) => { cx.stats.fail("C09", &format!("panic.nearest_t.{}", cclass), &format!("{} panic={}", desc, m)); return true; }
        Outcome::Hang => {
            *cx.hangs.entry(cclass.to_string()).or_insert(0) += 1;
            cx.stats.fail("C09", &format!("hang.nearest_t.{}", cclass), &format!("{} no result after {} s", desc, TIMEOUT));
            return true;
        }
    };
    let (bt, bd) = nearest_on_cub(w, q, GRID);
    if !(t >= 0.0 && t <= 1.0) {
        cx.stats.fail("C09", &format!("nearest.t_out_of_range.{}", cclass), &format!("{} t={:?}", desc, t));
    } else {
        let d = dist(eval(w, t), q);
        cx.stats.count(if d <= bd + 1e-9 { "result.optimal_to_1e-9" } else if d <= bd + TOL { "result.within_tolerance" } else { "result.not_minimum" });
        // bd is attained at parameter bt of the same curve, so d > bd + TOL is a witness against the global minimum
        if gt(d, bd + TOL) {
            cx.stats.fail("C09", &format!("nearest.not_global_minimum.{}.{}", cclass, qclass), &format!("{} nearest_t={:?} distance={:?} but t={:?} has distance={:?} (excess {:e})", desc, t, d, bt, bd, d - bd));
        }
    }
    measure_root_completeness(cx, w, q);
    // nearest_point and distance_to (nearest_t returned on this input, so these return too)
    let c = lib_curve(w);
    match catch(|| (c.nearest_point(&q), c.distance_to(&q), c.point_at_pos(t))) {
        Err(m) => cx.stats.fail("C09", &format!("panic.nearest_point.{}", cclass), &format!("{} panic={}", desc, m)),
        Ok((np, dt, pt)) => {
            if t.is_finite() {
                if !(dist(np, pt) <= 1e-9) { cx.stats.fail("C09", &format!("nearest_point_inconsistent.{}", cclass), &format!("{} nearest_t={:?} point_at_pos={:?} nearest_point={:?}", desc, t, pt, np)); }
                if !((dt - dist(np, q)).abs() <= 1e-9) { cx.stats.fail("C09", &format!("distance_to_inconsistent.{}", cclass), &format!("{} nearest_point={:?} |nearest_point-query|={:?} distance_to={:?}", desc, np, dist(np, q), dt)); }
            }
        }
    }
    true
}

/// a connected chain of curves as a path
fn gen_path(rng: &mut Rng, avoid: &[String]) -> (Vec<Cub>, Vec<&'static str>) {
    let k = 1 + rng.i(5) as usize;
    let (mut curves, mut classes) = (vec![], vec![]);
    let mut pos: Option<Coord2> = None;
    for _ in 0..k {
        // a class whose hang budget is used up is no longer put into paths (the single-curve cases report it)
        let mut class = CURVE_CLASSES[rng.i(CURVE_CLASSES.len() as u64) as usize];
        if avoid.iter().any(|a| a == class) { class = "random"; }
        let mut w = gen_class(rng, class);
        // translate so that the chain is connected; coincident control points stay exactly coincident
        if let Some(p) = pos { let o = w[0]; for q in w.iter_mut() { *q = p + (*q - o); } }
        pos = Some(w[3]);
        curves.push(w); classes.push(class);
    }
    if rng.i(3) == 0 && k > 1 {
        // closed path: the last curve ends at the first point; this can turn a point curve into one with three coincident
        // control points, so the class is taken from the geometry again
        let last = curves.len() - 1;
        let mut w = curves[last];
        w[3] = curves[0][0];
        let class = if biteq(w[0], w[1]) && biteq(w[1], w[2]) && !biteq(w[2], w[3]) { "three_coincident_control_points" } else { classes[last] };
        if !avoid.iter().any(|a| a == class) { curves[last] = w; classes[last] = class; }
    }
    (curves, classes)
}

fn check_path(cx: &mut Ctx, rng: &mut Rng) {
    let avoid: Vec<String> = cx.hangs.iter().filter(|(_, v)| **v >= HANG_BUDGET).map(|(k, _)| k.clone()).collect();
    if !avoid.is_empty() { cx.stats.count("path.generated_without_classes_that_used_up_their_hang_budget"); }
    let (curves, classes) = gen_path(rng, &avoid);
    let which = rng.i(curves.len() as u64) as usize;
    let qclass = ["box", "on_curve", "near_curve", "far_outside", "equidistant_two_branches", "at_end_point"][rng.i(6) as usize];
    let q = if qclass == "equidistant_two_branches" && curves.len() > 1 {
        // equidistant from points of two different curves of the path
        let (a, b) = (eval(&curves[0], rng.f()), eval(&curves[curves.len() - 1], rng.f()));
        let d = b - a; (a + b) * 0.5 + Coord2(-d.1, d.0) * rng.r(-0.5, 0.5)
    } else { gen_query(rng, &curves[which], qclass) };
    let path: SimpleBezierPath = (curves[0][0], curves.iter().map(|w| (w[1], w[2], w[3])).collect());
    let desc = format!("path={:?} classes={:?} query={:?} query_class={}", path, classes, q, qclass);
    let hang_prone = classes.iter().any(|c| *cx.hangs.get(*c).unwrap_or(&0) >= HANG_BUDGET);
    if hang_prone { cx.stats.count("not_run.hang_budget_exhausted.path"); return; }
    let kind = if classes.contains(&"three_coincident_control_points") { "contains_three_coincident_control_points" } else { "other" };
    cx.stats.case(&desc, curves.len() > 1);
    cx.stats.count(&format!("path.curves{}", curves.len()));
    cx.stats.count(&format!("path.query.{}", qclass));
    let p2 = path.clone();
    let (idx, t, d, pt) = match guarded(TIMEOUT, move || path_closest_point(&p2, &q)) {
        Outcome::Done(r) => r,
        Outcome::Panic(m) => { cx.stats.fail("C09", &format!("panic.path_closest_point.{}", kind), &format!("{} panic={}", desc, m)); return; }
        Outcome::Hang => {
            for c in classes.iter() { if *c == "three_coincident_control_points" { *cx.hangs.entry(c.to_string()).or_insert(0) += 1; } }
            cx.stats.fail("C09", &format!("hang.path_closest_point.{}", kind), &format!("{} no result after {} s", desc, TIMEOUT)); return;
        }
    };
    let brute: Vec<(f64, f64)> = curves.iter().map(|w| nearest_on_cub(w, q, GRID)).collect();
    let mut bi = 0;
    for (i, b) in brute.iter().enumerate() { if b.1 < brute[bi].1 { bi = i; } }
    if idx >= curves.len() || !(t >= 0.0 && t <= 1.0) {
        cx.stats.fail("C09", "path_closest_point.index_or_param_out_of_range", &format!("{} result=({}, {:?}, {:?}, {:?})", desc, idx, t, d, pt));
        return;
    }
    let on = eval(&curves[idx], t);
    if !(dist(on, pt) <= 1e-9) || !((d - dist(pt, q)).abs() <= 1e-9) {
        cx.stats.fail("C09", "path_closest_point.index_param_mismatch", &format!("{} result=({}, {:?}, {:?}, {:?}) but curve {} at t is {:?}, |point-query|={:?}", desc, idx, t, d, pt, idx, on, dist(pt, q)));
    }
    if gt(dist(on, q), brute[bi].1 + TOL) {
        cx.stats.fail("C09", "path_closest_point.not_minimum", &format!("{} result=({}, {:?}, {:?}, {:?}) but curve {} at t={:?} has distance {:?}", desc, idx, t, d, pt, bi, brute[bi].0, brute[bi].1));
    }
}

pub fn search(seed: u64, n: u64) {
    let mut rng = Rng(seed ^ 0x5EA2C09);
    let mut cx = Ctx { stats: Stats::new(), hangs: BTreeMap::new() };
    install_silent_hook();
    // corpus: the recorded non-terminating query, its mirror image, and a symmetric arch queried at its circle centre
    let corpus: [(Cub, Coord2, &str, &str); 8] = [
        ([Coord2(5.0, 5.0), Coord2(5.0, 5.0), Coord2(5.0, 5.0), Coord2(9.0, 7.0)], Coord2(7.0, 6.0), "three_coincident_control_points", "corpus"),
        ([Coord2(9.0, 7.0), Coord2(5.0, 5.0), Coord2(5.0, 5.0), Coord2(5.0, 5.0)], Coord2(7.0, 6.0), "three_coincident_control_points", "corpus"),
        ([Coord2(10.0, 50.0), Coord2(10.0, 50.0 + 40.0 * 0.5522847498), Coord2(50.0 - 40.0 * 0.5522847498, 90.0), Coord2(50.0, 90.0)], Coord2(50.0, 50.0), "arch", "arch_circle_centre"),
        ([Coord2(0.0, 0.0), Coord2(30.0, 60.0), Coord2(70.0, 60.0), Coord2(100.0, 0.0)], Coord2(50.0, 0.0), "arch", "equidistant_two_branches"),
        // regression inputs of repair 914de05: Newton-Raphson left a monotone but curved section of the quintic and the section's root was lost
        ([Coord2(19.6291685319534, 60.76084587798945), Coord2(31.816159703900915, 12.157823030310745), Coord2(4.566973462143931, 89.61966079676242), Coord2(19.6291685319534, 60.76084587798945)], Coord2(21.506016375184124, 44.107513926611674), "closed", "corpus_newton_left_the_section"),
        ([Coord2(1.717287405309853, 70.5193474452394), Coord2(1.717287405309853, 70.5193474452394), Coord2(76.87558252335309, 64.87172089990607), Coord2(77.73542920353177, 69.08393008271642)], Coord2(76.87558252335309, 64.87172089990607), "cp1_at_start", "corpus_newton_left_the_section"),
        ([Coord2(61.32145240349954, 85.3356554364626), Coord2(61.32145240349954, 85.3356554364626), Coord2(29.459846607617003, 35.94791829449602), Coord2(39.32150592740405, 74.8102128374789)], Coord2(40.959620742905344, 60.43018650693524), "cp1_at_start", "corpus_newton_left_the_section"),
        ([Coord2(65.2551103844957, 99.04165508675575), Coord2(64.00556814471904, 99.37720942062833), Coord2(40.17319614708621, 22.13640624386266), Coord2(37.51933460558313, 63.00981140896682)], Coord2(64.00556814471904, 99.37720942062833), "random", "corpus_newton_left_the_section"),
    ];
    for (w, q, cc, qc) in corpus.iter() { check_query(&mut cx, w, *q, cc, qc); }
    for it in 0..n {
        if it % 5 == 4 { check_path(&mut cx, &mut rng); continue; }
        let cclass = CURVE_CLASSES[rng.i(CURVE_CLASSES.len() as u64) as usize];
        let w = gen_class(&mut rng, cclass);
        // one top-level case = one curve with three queries of different classes
        for _ in 0..3 {
            let qclass = QUERY_CLASSES[rng.i(QUERY_CLASSES.len() as u64) as usize];
            let q = gen_query(&mut rng, &w, qclass);
            check_query(&mut cx, &w, q, cclass, qclass);
        }
    }
    cx.stats.add("abandoned_threads", abandoned_threads());
    cx.stats.print("C09", "search");
    finish();
}

// ------------------------------------------------------------------------------------------------ correspondence
// Transcript for the Lean driver (lean/FloVerif/Driver/C09.lean). Everything on stream R is compared bit for bit with the
// Float instance of the generated definitions (Gen.Roots, Gen.Nearest) and of the hand model of distance_in_bezier_form:
//   C09 roots R #N x0 y0 … | #k r0 …           flo_curves::bezier::roots::find_bezier_roots::<Coord2, N>
//   C09 nearest R w1 w2 w3 w4 q | t px py d     nearest_point_on_curve_bezier_root_finder, nearest_t, nearest_point, distance_to
//   C09 path R #n (w1 w2 w3 w4)* q | #idx t d px py   path_closest_point
//   C09 quintic R w1 w2 w3 w4 q | x0 y0 … x5 y5  distance_in_bezier_form (only with the hook hooks/C09_distance_in_bezier_form.diff)
use flo_curves::bezier::roots::{find_bezier_roots, nearest_point_on_curve_bezier_root_finder, polynomial_to_bezier};

fn hx2(p: Coord2) -> String { format!("{} {}", hx(p.0), hx(p.1)) }
fn hxw(w: &Cub) -> String { format!("{} {} {} {}", hx2(w[0]), hx2(w[1]), hx2(w[2]), hx2(w[3])) }

fn roots_n<const N: usize>(pts: &[Coord2]) -> Vec<f64> {
    let mut a = [Coord2(0.0, 0.0); N];
    for k in 0..N { a[k] = pts[k]; }
    find_bezier_roots::<Coord2, N>(a).into_iter().collect()
}

fn roots_dyn(pts: &[Coord2]) -> Vec<f64> {
    match pts.len() {
        2 => roots_n::<2>(pts), 3 => roots_n::<3>(pts), 4 => roots_n::<4>(pts), 5 => roots_n::<5>(pts),
        6 => roots_n::<6>(pts), 7 => roots_n::<7>(pts), 8 => roots_n::<8>(pts), 9 => roots_n::<9>(pts),
        _ => panic!("roots_dyn: unsupported number of control points"),
    }
}

fn poly_n<const N: usize>(c: &[f64]) -> Vec<Coord2> {
    let mut a = [0.0; N];
    for k in 0..N { a[k] = c[k]; }
    polynomial_to_bezier::<Coord2, N>(a).to_vec()
}

/// control polygon of the monic polynomial with the given roots, times `scale` (x = k/(N-1))
fn polygon_with_roots(roots: &[f64], scale: f64) -> Vec<Coord2> {
    let mut c = vec![scale];
    for r in roots {
        // c(x) * (x - r)
        let mut d = vec![0.0; c.len() + 1];
        for (i, v) in c.iter().enumerate() { d[i + 1] += *v; d[i] -= *v * *r; }
        c = d;
    }
    match c.len() {
        2 => poly_n::<2>(&c), 3 => poly_n::<3>(&c), 4 => poly_n::<4>(&c), 5 => poly_n::<5>(&c),
        6 => poly_n::<6>(&c), 7 => poly_n::<7>(&c), 8 => poly_n::<8>(&c), 9 => poly_n::<9>(&c),
        _ => panic!("polygon_with_roots: unsupported degree"),
    }
}

pub const POLYGON_CLASSES: [&str; 17] = ["steep_end_then_level", "random", "random", "roots_inside", "roots_inside_and_outside", "double_root", "triple_root", "root_at_0_or_1", "all_zero",
    "one_sign", "zero_coefficients", "monotone_one_crossing", "tiny", "huge", "dyadic", "x_range_not_unit", "nearly_flat_many_crossings"];

pub fn gen_polygon(rng: &mut Rng, class: &str) -> Vec<Coord2> {
    // the nearest-point query uses N = 6; the function itself is generic
    let n = if rng.i(3) == 0 { 2 + rng.i(8) as usize } else { 6 };
    let unit = |ys: Vec<f64>| -> Vec<Coord2> { let n = ys.len(); ys.iter().enumerate().map(|(k, y)| Coord2(k as f64 / (n - 1) as f64, *y)).collect() };
    match class {
        "roots_inside" => { let rs: Vec<f64> = (0..n - 1).map(|_| rng.f()).collect(); polygon_with_roots(&rs, rng.r(0.5, 50.0)) }
        "roots_inside_and_outside" => { let rs: Vec<f64> = (0..n - 1).map(|_| rng.r(-1.0, 2.0)).collect(); polygon_with_roots(&rs, rng.r(0.5, 50.0)) }
        "double_root" => { if n < 3 { return unit(vec![0.0; n]); } let r = if rng.b() { rng.dyadic(0, 1, 8) } else { rng.f() }; let mut rs = vec![r, r]; for _ in 2..n - 1 { rs.push(rng.r(-1.0, 2.0)); } polygon_with_roots(&rs, rng.r(0.5, 50.0)) }
        "triple_root" => { if n < 4 { return unit(vec![0.0; n]); } let r = if rng.b() { rng.dyadic(0, 1, 8) } else { rng.f() }; let mut rs = vec![r, r, r]; for _ in 3..n - 1 { rs.push(rng.r(-1.0, 2.0)); } polygon_with_roots(&rs, rng.r(0.5, 50.0)) }
        "root_at_0_or_1" => { let mut ys: Vec<f64> = (0..n).map(|_| rng.r(-1.0, 1.0)).collect(); if rng.b() { ys[0] = 0.0; } else { ys[n - 1] = 0.0; } if rng.i(4) == 0 { ys[0] = 0.0; ys[n - 1] = 0.0; } unit(ys) }
        "all_zero" => unit(vec![if rng.b() { 0.0 } else { -0.0 }; n]),
        "one_sign" => { let s = if rng.b() { 1.0 } else { -1.0 }; unit((0..n).map(|_| s * rng.r(1e-6, 1.0)).collect()) }
        "zero_coefficients" => unit((0..n).map(|_| match rng.i(4) { 0 => 0.0, 1 => -0.0, 2 => rng.r(-1.0, 0.0), _ => rng.r(0.0, 1.0) }).collect()),
        "monotone_one_crossing" => { let mut ys: Vec<f64> = (0..n).map(|_| rng.r(-1.0, 1.0) * 10f64.powf(rng.r(-3.0, 1.0))).collect(); ys.sort_by(|a, b| a.partial_cmp(b).unwrap()); if rng.b() { ys.reverse(); } unit(ys) }
        "tiny" => unit((0..n).map(|_| rng.r(-1.0, 1.0) * 1e-12).collect()),
        "huge" => unit((0..n).map(|_| rng.r(-1.0, 1.0) * 1e9).collect()),
        "dyadic" => unit((0..n).map(|_| rng.dyadic(-4, 4, 16)).collect()),
        "x_range_not_unit" => { let (a, b) = (rng.r(-5.0, 5.0), rng.r(0.1, 10.0)); (0..n).map(|k| Coord2(a + b * k as f64 / (n - 1) as f64, rng.r(-1.0, 1.0))).collect() }
        // one huge ordinate at an end, the others level (half of the cases exactly) on the other side of the axis: monotone, one crossing; flat_enough measures
        // max(0, signed distance), so one of the two mirror images passes as flat and Newton starts far from the zero
        "steep_end_then_level" => { let big = -10f64.powf(rng.r(0.5, 4.0)); let mut ys: Vec<f64> = vec![big]; let mut y = rng.r(0.0, 1.0); let level = rng.b(); for _ in 1..n { ys.push(y); if !level { y += rng.r(0.0, 0.3); } } if rng.b() { ys.reverse(); } if rng.b() { for v in ys.iter_mut() { *v = -*v; } } unit(ys) }
        "nearly_flat_many_crossings" => unit((0..n).map(|k| (if k % 2 == 0 { 1.0 } else { -1.0 }) * rng.r(0.0, 0.05)).collect()),
        _ => unit((0..n).map(|_| rng.r(-1.0, 1.0)).collect()),
    }
}

fn corr_roots(stats: &mut Stats, rng: &mut Rng) {
    let class = POLYGON_CLASSES[rng.i(POLYGON_CLASSES.len() as u64) as usize];
    let pts = gen_polygon(rng, class);
    let roots = roots_dyn(&pts);
    let mut line = format!("C09 roots R #{}", pts.len());
    for p in &pts { line += &format!(" {}", hx2(*p)); }
    line += &format!(" | #{}", roots.len());
    for r in &roots { line += &format!(" {}", hx(*r)); }
    stats.case(&line, !roots.is_empty());
    stats.count(&format!("roots.class.{}", class));
    stats.count(&format!("roots.N{}", pts.len()));
    stats.count(&format!("roots.returned{}", roots.len().min(6)));
    if roots.iter().any(|r| !(*r >= 0.0 && *r <= 1.0)) && pts[0].0 == 0.0 && pts[pts.len() - 1].0 == 1.0 { stats.count(&format!("roots.value_outside_unit_range.{}", class)); }
    println!("{}", line);
}

fn corr_nearest(stats: &mut Stats, rng: &mut Rng) {
    let cclass = CURVE_CLASSES[rng.i(CURVE_CLASSES.len() as u64) as usize];
    let mut w = gen_class(rng, cclass);
    // one in eight curves on a dyadic grid (exactly representable products in the quintic)
    let dy = rng.i(8) == 0;
    if dy { for p in w.iter_mut() { *p = Coord2((p.0 * 4.0).round() / 4.0, (p.1 * 4.0).round() / 4.0); } }
    let qclass = QUERY_CLASSES[rng.i(QUERY_CLASSES.len() as u64) as usize];
    let mut q = gen_query(rng, &w, qclass);
    if dy { q = Coord2((q.0 * 4.0).round() / 4.0, (q.1 * 4.0).round() / 4.0); }
    if !finite2(q) { q = Coord2(50.0, 50.0); }
    corr_nearest_case(stats, w, q, cclass, qclass, dy);
}

/// the queries on which `find_x_intercept` takes its bisection branch (regression inputs of repair 914de05)
const BISECTION_CASES: [(Cub, Coord2); 4] = [
    ([Coord2(19.6291685319534, 60.76084587798945), Coord2(31.816159703900915, 12.157823030310745), Coord2(4.566973462143931, 89.61966079676242), Coord2(19.6291685319534, 60.76084587798945)], Coord2(21.506016375184124, 44.107513926611674)),
    ([Coord2(1.717287405309853, 70.5193474452394), Coord2(1.717287405309853, 70.5193474452394), Coord2(76.87558252335309, 64.87172089990607), Coord2(77.73542920353177, 69.08393008271642)], Coord2(76.87558252335309, 64.87172089990607)),
    ([Coord2(61.32145240349954, 85.3356554364626), Coord2(61.32145240349954, 85.3356554364626), Coord2(29.459846607617003, 35.94791829449602), Coord2(39.32150592740405, 74.8102128374789)], Coord2(40.959620742905344, 60.43018650693524)),
    ([Coord2(65.2551103844957, 99.04165508675575), Coord2(64.00556814471904, 99.37720942062833), Coord2(40.17319614708621, 22.13640624386266), Coord2(37.51933460558313, 63.00981140896682)], Coord2(64.00556814471904, 99.37720942062833)),
];

fn corr_nearest_case(stats: &mut Stats, w: Cub, q: Coord2, cclass: &str, qclass: &str, dy: bool) {
    let c = lib_curve(&w);
    let t = nearest_point_on_curve_bezier_root_finder(&c, &q);
    let t2 = c.nearest_t(&q);
    let p = c.nearest_point(&q);
    let d = c.distance_to(&q);
    let line = format!("C09 nearest R {} {} | {} {} {} {}", hxw(&w), hx2(q), hx(t), hx(t2), hx2(p), hx(d));
    stats.case(&line, t > 0.0 && t < 1.0);
    stats.count(&format!("nearest.curve.{}", cclass));
    stats.count(&format!("nearest.query.{}", qclass));
    stats.count(if t == 0.0 { "nearest.result.t=0" } else if t == 1.0 { "nearest.result.t=1" } else { "nearest.result.interior" });
    if dy { stats.count("nearest.dyadic_grid"); }
    println!("{}", line);
    #[cfg(feature = "hook_c09_quintic")]
    {
        let quintic = flo_curves::bezier::roots::verif_distance_in_bezier_form(&c, &q);
        let mut line = format!("C09 quintic R {} {} |", hxw(&w), hx2(q));
        for p in quintic.iter() { line += &format!(" {}", hx2(*p)); }
        stats.case(&line, true);
        stats.count("quintic");
        println!("{}", line);
    }
}

fn corr_path(stats: &mut Stats, rng: &mut Rng) {
    let (curves, _classes) = gen_path(rng, &[]);
    // now and then the empty path (no curves at all)
    let empty = rng.i(40) == 0;
    let which = rng.i(curves.len() as u64) as usize;
    let qclass = ["box", "on_curve", "near_curve", "far_outside", "equidistant_two_branches", "at_end_point"][rng.i(6) as usize];
    let q = if qclass == "equidistant_two_branches" && curves.len() > 1 {
        let (a, b) = (eval(&curves[0], rng.f()), eval(&curves[curves.len() - 1], rng.f()));
        let d = b - a; (a + b) * 0.5 + Coord2(-d.1, d.0) * rng.r(-0.5, 0.5)
    } else { gen_query(rng, &curves[which], qclass) };
    let q = if finite2(q) { q } else { Coord2(50.0, 50.0) };
    let path: SimpleBezierPath = if empty { (curves[0][0], vec![]) } else { (curves[0][0], curves.iter().map(|w| (w[1], w[2], w[3])).collect()) };
    // the curves as the library itself sees them
    let seen: Vec<Curve<Coord2>> = path.to_curves();
    let (idx, t, d, p) = path_closest_point(&path, &q);
    let mut line = format!("C09 path R #{}", seen.len());
    for c in seen.iter() { line += &format!(" {}", hxw(&cub_of(c))); }
    line += &format!(" {} | #{} {} {} {}", hx2(q), idx, hx(t), hx(d), hx2(p));
    stats.case(&line, seen.len() > 1);
    stats.count(&format!("path.curves{}", seen.len()));
    stats.count(&format!("path.query.{}", qclass));
    println!("{}", line);
}

pub fn corr(seed: u64, n: u64) {
    let mut rng = Rng(seed ^ 0xC09C);
    let mut stats = Stats::new();
    for (w, q) in BISECTION_CASES.iter() { corr_nearest_case(&mut stats, *w, *q, "corpus", "corpus_newton_left_the_section", false); }
    for it in 0..n {
        match it % 5 { 0 | 1 => corr_nearest(&mut stats, &mut rng), 2 | 3 => corr_roots(&mut stats, &mut rng), _ => corr_path(&mut stats, &mut rng) }
    }
    // `polynomial_to_bezier` (power basis to Bezier form) at N = 2 .. 8 against the generated function, bit for bit
    let mut rng_p = Rng(seed ^ 0x9017C09);
    for it in 0..(n / 10 + 30) {
        use flo_curves::bezier::roots::polynomial_to_bezier;
        let k = 2 + (it % 7) as usize;
        let cs: Vec<f64> = (0..k).map(|_| match rng_p.i(4) { 0 => (rng_p.i(41) as f64 - 20.0) / 8.0, 1 => 0.0, _ => rng_p.r(-3.0, 3.0) }).collect();
        fn run<const N: usize>(cs: &[f64]) -> Vec<Coord2> { let mut a = [0.0f64; N]; a.copy_from_slice(cs); polynomial_to_bezier::<Coord2, N>(a).to_vec() }
        let out = match k { 2 => run::<2>(&cs), 3 => run::<3>(&cs), 4 => run::<4>(&cs), 5 => run::<5>(&cs), 6 => run::<6>(&cs), 7 => run::<7>(&cs), _ => run::<8>(&cs) };
        let mut line = format!("C09 poly R #{} {} |", k, hxs(&cs));
        for q in &out { line += &format!(" {} {}", hx(q.0), hx(q.1)); }
        stats.count(&format!("poly.n{}", k));
        println!("{}", line);
    }
    stats.print("C09", "corr");
}
