//! C20: core queries are total on finite input. A deterministic catalogue of degenerate inputs crossed with every core
//! operation; each (operation, entry) is one case with outcome finite / non_finite / panic / hang (3 s work bound).
use crate::guard::*;
use crate::cshapes::*;
use crate::util::*;
use flo_curves::arc::*;
use flo_curves::bezier::path::*;
use flo_curves::bezier::*;
use flo_curves::line::*;
use flo_curves::bezier::verif_hooks::FatLine;
use std::sync::atomic::{AtomicUsize, Ordering};

const TIMEOUT: f64 = 3.0;
const WALK_CAP: usize = 200000;
type P = SimpleBezierPath;
type R = Result<(), String>;

/// index of the sub-call a guarded closure is in (reported when it panics or does not return)
static STEP: AtomicUsize = AtomicUsize::new(0);
fn step(i: usize) { STEP.store(i, Ordering::SeqCst); }
/// empty sections whose `section_t_for_original_t` is not finite (informational, see `curve_ops`)
static INFO_EMPTY_SECTION: AtomicUsize = AtomicUsize::new(0);

struct Cat { stats: Stats, max_abandoned: u64 }

fn f1(what: &str, v: f64) -> R { if v.is_finite() { Ok(()) } else { Err(format!("{} = {:?}", what, v)) } }
fn f2(what: &str, p: Coord2) -> R { if finite2(p) { Ok(()) } else { Err(format!("{} = {:?}", what, p)) } }
fn fc(what: &str, c: &Curve<Coord2>) -> R { let w = cub_of(c); if finite_cub(&w) { Ok(()) } else { Err(format!("{} = {}", what, fmt_cub(&w))) } }
fn fchain(what: &str, cs: &[Curve<Coord2>]) -> R { for (i, c) in cs.iter().enumerate() { fc(&format!("{} curve {} of {}", what, i, cs.len()), c)?; } Ok(()) }
fn fpath(what: &str, p: &P) -> R { f2(&format!("{} start point", what), p.0)?; for (i, (a, b, c)) in p.1.iter().enumerate() { f2(&format!("{} segment {} cp1", what, i), *a)?; f2(&format!("{} segment {} cp2", what, i), *b)?; f2(&format!("{} segment {} end", what, i), *c)?; } Ok(()) }
fn fpaths(what: &str, ps: &[P]) -> R { for (i, p) in ps.iter().enumerate() { fpath(&format!("{} path {} of {}", what, i, ps.len()), p)?; } Ok(()) }

fn run<F: FnOnce() -> R + Send + 'static>(cat: &mut Cat, op: &str, entry: &str, input: &str, f: F) {
    let repr = format!("op={} entry={} input={}", op, entry, input);
    if abandoned_threads() >= cat.max_abandoned { cat.stats.count("not_run.too_many_abandoned_threads"); return; }
    cat.stats.case(&repr, true);
    cat.stats.count(&format!("op.{}", op));
    set_current(&repr);
    step(0);
    match guarded(TIMEOUT, f) {
        Outcome::Done(Ok(())) => cat.stats.count("outcome.finite"),
        Outcome::Done(Err(m)) => { cat.stats.count("outcome.non_finite"); cat.stats.fail("C20", &format!("non_finite.{}.{}", op, entry), &format!("{} non-finite result: {}", repr, m)); }
        Outcome::Panic(m) => { cat.stats.count("outcome.panic"); cat.stats.fail("C20", &format!("panic.{}.{}", op, entry), &format!("{} sub_call={} panic={}", repr, STEP.load(Ordering::SeqCst), m)); }
        Outcome::Hang => { cat.stats.count("outcome.hang"); cat.stats.fail("C20", &format!("hang.{}.{}", op, entry), &format!("{} sub_call={} no result after {} s", repr, STEP.load(Ordering::SeqCst), TIMEOUT)); }
    }
}

fn scale_name(s: f64) -> String { if s == 1.0 { String::new() } else { format!(".scale_{:e}", s) } }

fn base_curves() -> Vec<(&'static str, Cub)> {
    let c = |a: (f64, f64), b: (f64, f64), cc: (f64, f64), d: (f64, f64)| [Coord2(a.0, a.1), Coord2(b.0, b.1), Coord2(cc.0, cc.1), Coord2(d.0, d.1)];
    vec![
        ("all_control_points_equal", c((5.0, 5.0), (5.0, 5.0), (5.0, 5.0), (5.0, 5.0))),
        ("three_coincident_control_points", c((5.0, 5.0), (5.0, 5.0), (5.0, 5.0), (9.0, 7.0))),
        ("last_three_control_points_coincident", c((5.0, 5.0), (9.0, 7.0), (9.0, 7.0), (9.0, 7.0))),
        ("collinear", c((0.0, 0.0), (1.0, 1.0), (2.0, 2.0), (3.0, 3.0))),
        ("collinear_overshoot", c((0.0, 0.0), (5.0, 5.0), (-2.0, -2.0), (3.0, 3.0))),
        ("collinear_horizontal", c((0.0, 5.0), (1.0, 5.0), (2.0, 5.0), (3.0, 5.0))),
        ("collinear_vertical_cps_at_ends", c((2.0, 0.0), (2.0, 0.0), (2.0, 7.0), (2.0, 7.0))),
        ("closed_start_equals_end", c((0.0, 0.0), (10.0, 10.0), (-10.0, 10.0), (0.0, 0.0))),
        ("cusp", c((0.0, 0.0), (10.0, 10.0), (0.0, 10.0), (10.0, 0.0))),
        ("loop", c((0.0, 0.0), (20.0, 10.0), (-10.0, 10.0), (10.0, 0.0))),
        ("cps_at_ends", c((0.0, 0.0), (0.0, 0.0), (10.0, 0.0), (10.0, 0.0))),
        ("cps_coincident", c((0.0, 0.0), (5.0, 8.0), (5.0, 8.0), (10.0, 0.0))),
        ("start_equals_end_cps_coincident", c((3.0, 3.0), (8.0, 9.0), (8.0, 9.0), (3.0, 3.0))),
        ("generic", c((1.0, 2.0), (2.0, 0.0), (3.0, 5.0), (4.0, 2.0))),
    ]
}

fn curve_ops(cat: &mut Cat, name: &str, w: Cub, s: f64) {
    let e = name;
    let input = format!("curve={} scale={:e}", fmt_cub(&w), s);
    let inp = input.as_str();
    let ts = [0.0, 0.5, 1.0];
    run(cat, "point_at_pos", e, &format!("{} t in {:?}", inp, ts), move || { let c = lib_curve(&w); for (i, t) in ts.iter().enumerate() { step(i); f2(&format!("point_at_pos({})", t), c.point_at_pos(*t))?; } Ok(()) });
    run(cat, "tangent_normal_at_pos", e, &format!("{} t in {:?}", inp, ts), move || { let c = lib_curve(&w); for (i, t) in ts.iter().enumerate() { step(i); f2(&format!("tangent_at_pos({})", t), c.tangent_at_pos(*t))?; f2(&format!("normal_at_pos({})", t), c.normal_at_pos(*t))?; } Ok(()) });
    run(cat, "subdivide", e, &format!("{} t in {:?}", inp, ts), move || { let c = lib_curve(&w); for (i, t) in ts.iter().enumerate() { step(i); let (a, b): (Curve<Coord2>, Curve<Coord2>) = c.subdivide(*t); fc(&format!("subdivide({}) left", t), &a)?; fc(&format!("subdivide({}) right", t), &b)?; } Ok(()) });
    run(cat, "bounding_box", e, inp, move || { let b: Bounds<Coord2> = lib_curve(&w).bounding_box(); f2("min", b.min())?; f2("max", b.max()) });
    run(cat, "fast_bounding_box", e, inp, move || { let b: Bounds<Coord2> = lib_curve(&w).fast_bounding_box(); f2("min", b.min())?; f2("max", b.max()) });
    run(cat, "find_extremities", e, inp, move || { for t in lib_curve(&w).find_extremities() { f1("extremity", t)?; } Ok(()) });
    // lines: across the control polygon's box, through the start point, along the chord (collinear with collinear entries), vertical through the end point
    let (lo, hi) = w.iter().fold((w[0], w[0]), |(lo, hi), p| (Coord2(lo.0.min(p.0), lo.1.min(p.1)), Coord2(hi.0.max(p.0), hi.1.max(p.1))));
    let lines: Vec<(Coord2, Coord2)> = vec![
        (lo - Coord2(s, 0.5 * s), hi + Coord2(s, 0.25 * s)),
        (w[0], w[0] + Coord2(3.0 * s, s)),
        (w[0], if biteq(w[0], w[3]) { w[0] + Coord2(s, s) } else { w[3] }),
        (Coord2(w[3].0, lo.1 - s), Coord2(w[3].0, hi.1 + s)),
        (Coord2(lo.0 - s, w[1].1), Coord2(hi.0 + s, w[1].1)),
    ];
    let ls = lines.clone();
    run(cat, "curve_intersects_ray", e, &format!("{} lines={:?}", inp, lines), move || { let c = lib_curve(&w); for (i, l) in ls.iter().enumerate() { step(i); for (t, sp, p) in curve_intersects_ray(&c, l) { f1(&format!("line {} curve t", i), t)?; f1(&format!("line {} line t", i), sp)?; f2(&format!("line {} position", i), p)?; } } Ok(()) });
    let ls = lines.clone();
    run(cat, "curve_intersects_line", e, &format!("{} lines={:?}", inp, lines), move || { let c = lib_curve(&w); for (i, l) in ls.iter().enumerate() { step(i); for (t, sp, p) in curve_intersects_line(&c, l) { f1(&format!("line {} curve t", i), t)?; f1(&format!("line {} line t", i), sp)?; f2(&format!("line {} position", i), p)?; } } Ok(()) });
    let point_lines = vec![(w[0], w[0]), ((lo + hi) * 0.5, (lo + hi) * 0.5)];
    let ls = point_lines.clone();
    run(cat, "curve_intersects_ray_with_point_line", e, &format!("{} lines={:?}", inp, point_lines), move || { let c = lib_curve(&w); for (i, l) in ls.iter().enumerate() { step(i); for (t, sp, p) in curve_intersects_ray(&c, l) { f1(&format!("line {} curve t", i), t)?; f1(&format!("line {} line t", i), sp)?; f2(&format!("line {} position", i), p)?; } } Ok(()) });
    // nearest point: the catalogue query of the recorded hang is query 0 at scale 1 for the (5,5),(5,5),(5,5),(9,7) entry
    let queries = vec![(w[0] + w[3]) * 0.5, w[0], w[3], Coord2(0.0, 0.0), hi + Coord2(100.0 * s, -3.0 * s), (w[1] + w[2]) * 0.5 + Coord2(0.5 * s, -0.25 * s)];
    let qs = queries.clone();
    run(cat, "nearest_t", e, &format!("{} queries={:?}", inp, queries), move || { let c = lib_curve(&w); for (i, q) in qs.iter().enumerate() { step(i); f1(&format!("nearest_t(query {})", i), c.nearest_t(q))?; } Ok(()) });
    let qs = queries.clone();
    run(cat, "nearest_point_distance_to", e, &format!("{} queries={:?}", inp, queries), move || { let c = lib_curve(&w); for (i, q) in qs.iter().enumerate() { step(i); f2(&format!("nearest_point(query {})", i), c.nearest_point(q))?; f1(&format!("distance_to(query {})", i), c.distance_to(q))?; } Ok(()) });
    for (err, ename) in [(0.01, "curve_length_e0.01"), (1e-8, "curve_length_e1e-8")] {
        run(cat, ename, e, inp, move || f1("curve_length", curve_length(&lib_curve(&w), err)));
    }
    run(cat, "estimate_chord_polygon_length", e, inp, move || { let c = lib_curve(&w); f1("estimate_length", c.estimate_length())?; f1("chord_length", chord_length(&c))?; f1("control_polygon_length", control_polygon_length(&c)) });
    let walks = [(1.0 * s, 0.1 * s), (0.05 * s, 0.01 * s), (100.0 * s, 1.0 * s)];
    run(cat, "walk_curve_evenly", e, &format!("{} (distance, max_error) in {:?}", inp, walks), move || {
        let c = lib_curve(&w);
        for (i, (d, me)) in walks.iter().enumerate() {
            step(i);
            let mut k = 0;
            for sec in walk_curve_evenly(&c, *d, *me) { let (a, b) = sec.original_curve_t_values(); f1(&format!("walk {} section {} start", i, k), a)?; f1(&format!("walk {} section {} end", i, k), b)?; k += 1; if k > WALK_CAP { return Err(format!("walk {}: more than {} sections (counted as non-finite output: the iterator does not end)", i, WALK_CAP)); } }
        }
        Ok(())
    });
    run(cat, "walk_curve_evenly_vary_by", e, &format!("{} distance={:?} max_error={:?} vary_by cycle of [0.5, 2, 1] x distance", inp, s, 0.1 * s), move || {
        let c = lib_curve(&w);
        let mut k = 0;
        for sec in walk_curve_evenly(&c, s, 0.1 * s).vary_by(vec![0.5 * s, 2.0 * s, s].into_iter().cycle()) { let (a, b) = sec.original_curve_t_values(); f1(&format!("section {} start", k), a)?; f1(&format!("section {} end", k), b)?; k += 1; if k > WALK_CAP { return Err(format!("more than {} sections (counted as non-finite output: the iterator does not end)", WALK_CAP)); } }
        Ok(())
    });
    run(cat, "walk_curve_evenly_vary_by_with_zero_distance", e, &format!("{} distance={:?} max_error={:?} vary_by cycle of [1, 0, 1] x distance", inp, s, 0.1 * s), move || {
        let c = lib_curve(&w);
        let mut k = 0;
        for sec in walk_curve_evenly(&c, s, 0.1 * s).vary_by(vec![s, 0.0, s].into_iter().cycle()) { let (a, b) = sec.original_curve_t_values(); f1(&format!("section {} start", k), a)?; f1(&format!("section {} end", k), b)?; k += 1; if k > WALK_CAP { return Err(format!("more than {} sections (counted as non-finite output: the iterator does not end)", WALK_CAP)); } }
        Ok(())
    });
    // a zero or negative distance is clamped to 1e-10 by the library: on a curve of scale 1e-9 that is a walk of tens to hundreds of sections
    // (at scale 1 it would be 1e11 sections, which is not run)
    if s <= 1e-9 {
        let walks0 = [(0.0, 0.1 * s), (-1.0, 0.1 * s), (0.0, 0.0)];
        run(cat, "walk_curve_evenly_distance_not_positive", e, &format!("{} (distance, max_error) in {:?}", inp, walks0), move || {
            let c = lib_curve(&w);
            for (i, (d, me)) in walks0.iter().enumerate() {
                step(i);
                let mut k = 0;
                for sec in walk_curve_evenly(&c, *d, *me) { let (a, b) = sec.original_curve_t_values(); f1(&format!("walk {} section {} start", i, k), a)?; f1(&format!("walk {} section {} end", i, k), b)?; k += 1; if k > WALK_CAP { return Err(format!("walk {}: more than {} sections, the last one is {:?} (counted as non-finite output: the iterator does not end)", i, WALK_CAP, (a, b))); } }
            }
            Ok(())
        });
    }
    run(cat, "walk_curve_unevenly", e, &format!("{} n in [0, 1, 7]", inp), move || { let c = lib_curve(&w); for (i, n) in [0usize, 1, 7].iter().enumerate() { step(i); for sec in walk_curve_unevenly(&c, *n).take(100) { let (a, b) = sec.original_curve_t_values(); f1("section start", a)?; f1("section end", b)?; f2("section start point", sec.start_point())?; let (p, q) = sec.control_points(); f2("section cp1", p)?; f2("section cp2", q)?; } } Ok(()) });
    run(cat, "fit_curve_20_samples", e, &format!("{} points = point_at_pos(k/19) for k in 0..20, max_error={:?}", inp, 0.1 * s), move || { let c = lib_curve(&w); let pts: Vec<Coord2> = (0..20).map(|k| c.point_at_pos(k as f64 / 19.0)).collect(); step(1); match fit_curve::<Curve<Coord2>>(&pts, 0.1 * s) { Some(f) => fchain("fit", &f), None => Ok(()) } });
    let d = 2.0 * s;
    run(cat, "offset", e, &format!("{} d={:?}", inp, d), move || fchain("offset", &offset(&lib_curve(&w), d, d)));
    run(cat, "offset_varying", e, &format!("{} d from {:?} to {:?}", inp, d, 0.0), move || fchain("offset", &offset(&lib_curve(&w), d, 0.0)));
    run(cat, "offset_lms_sampling", e, &format!("{} d={:?} subdivisions=32 max_error={:?}", inp, d, 0.1 * s), move || match offset_lms_sampling(&lib_curve(&w), |_| d, |_| 0.0, 32, 0.1 * s) { Some(f) => fchain("offset_lms_sampling", &f), None => Ok(()) });
    run(cat, "offset_scaling", e, &format!("{} d={:?}", inp, d), move || fchain("offset_scaling", &offset_scaling(&lib_curve(&w), d, d)));
    run(cat, "find_self_intersection_point", e, &format!("{} accuracy={:?}", inp, 0.01 * s), move || { if let Some((a, b)) = find_self_intersection_point(&lib_curve(&w), 0.01 * s) { f1("t1", a)?; f1("t2", b)?; } Ok(()) });
    run(cat, "characteristics", e, inp, move || { let _ = lib_curve(&w).characteristics(); Ok(()) });
    run(cat, "features", e, &format!("{} accuracy={:?}", inp, 0.01 * s), move || match lib_curve(&w).features(0.01 * s) { CurveFeatures::SingleInflectionPoint(t) => f1("inflection", t), CurveFeatures::DoubleInflectionPoint(a, b) => { f1("inflection 1", a)?; f1("inflection 2", b) } CurveFeatures::Loop(a, b) => { f1("loop t1", a)?; f1("loop t2", b) } _ => Ok(()) });
    for (a, b, sname) in [(0.0, 0.0, "section_control_points_0_0"), (0.0, 1.0, "section_control_points_0_1"), (0.5, 0.5, "section_control_points_0.5_0.5"), (1.0, 1.0, "section_control_points_1_1"), (0.25, 1.0, "section_control_points_0.25_1"),
                          // sections that start at the end of the curve and run backwards or beyond it: finite parameters, so finite input
                          (1.0, 0.5, "section_control_points_1_0.5"), (1.0, 0.0, "section_control_points_1_0"), (1.0, 1.5, "section_control_points_1_1.5")] {
        run(cat, sname, e, &format!("{} section({}, {})", inp, a, b), move || {
            let c = lib_curve(&w);
            let sec = c.section(a, b);
            let (p, q) = sec.control_points();
            f2("cp1", p)?; f2("cp2", q)?; f2("start_point", sec.start_point())?; f2("end_point", sec.end_point())?; f2("point_at_pos(0.5)", sec.point_at_pos(0.5))?;
            step(1);
            let sub = sec.subsection(0.0, 1.0);
            let (p, q) = sub.control_points();
            f2("subsection(0,1) cp1", p)?; f2("subsection(0,1) cp2", q)?;
            step(2);
            let sub = sec.subsection(1.0, 1.0);
            let (p, q) = sub.control_points();
            f2("subsection(1,1) cp1", p)?; f2("subsection(1,1) cp2", q)
        });
        // informational (decision of the property owner): a parameter conversion of an EMPTY section is not one of the operations
        // the property enumerates and the inverse of a constant map is undefined; non-finite results are counted, not failed
        run(cat, &sname.replace("section_control_points", "section_t_for_original_t"), e, &format!("{} section({}, {}).section_t_for_original_t(t) for t in [{}, {}, 0.5]", inp, a, b, a, b), move || {
            let c = lib_curve(&w);
            let sec = c.section(a, b);
            let vals = [sec.section_t_for_original_t(a), sec.section_t_for_original_t(b), sec.section_t_for_original_t(0.5)];
            if vals.iter().any(|v| !v.is_finite()) {
                if a == b { INFO_EMPTY_SECTION.fetch_add(1, Ordering::SeqCst); Ok(()) } else { Err(format!("section_t_for_original_t of a non-empty section = {:?}", vals)) }
            } else { Ok(()) }
        });
    }
}

fn curve_pairs(cat: &mut Cat, curves: &[(String, Cub, f64)]) {
    for (na, a, sa) in curves.iter() {
        for (nb, b, sb) in curves.iter() {
            // every pair of the same scale (identical operands included); across scales only against the generic curve
            if sa != sb && !(na.starts_with("generic") || nb.starts_with("generic")) { continue; }
            let (a, b) = (*a, *b);
            let acc = 0.01 * sa.min(*sb);
            run(cat, "curve_intersects_curve_clip", &format!("{}_x_{}", na, nb), &format!("curve1={} curve2={} accuracy={:?}", fmt_cub(&a), fmt_cub(&b), acc), move || {
                for (t1, t2) in curve_intersects_curve_clip(&lib_curve(&a), &lib_curve(&b), acc) { f1("t1", t1)?; f1("t2", t2)?; }
                Ok(())
            });
            // identical operands once more with the ABSOLUTE accuracy 0.01 at every scale (at 1e6 the accuracy test cannot end the subdivision,
            // only the section-size floor does), and with a bound on the size of the answer: two cubics meet in at most 9 points
            if na == nb {
                run(cat, "curve_intersects_curve_clip_identical_acc0.01", na, &format!("curve1=curve2={} accuracy=0.01", fmt_cub(&a)), move || {
                    let hits = curve_intersects_curve_clip(&lib_curve(&a), &lib_curve(&b), 0.01);
                    for (t1, t2) in hits.iter() { f1("t1", *t1)?; f1("t2", *t2)?; }
                    if hits.len() > 1000 { return Err(format!("{} matches for two cubic curves (counted as unbounded work)", hits.len())); }
                    Ok(())
                });
            }
        }
    }
}

fn line_ops(cat: &mut Cat) {
    let l = |a: (f64, f64), b: (f64, f64)| (Coord2(a.0, a.1), Coord2(b.0, b.1));
    let lines = vec![
        ("point_line", l((1.0, 1.0), (1.0, 1.0))),
        ("point_line_at_origin", l((0.0, 0.0), (0.0, 0.0))),
        ("horizontal_line", l((1.0, 2.0), (5.0, 2.0))),
        ("vertical_line", l((1.0, 2.0), (1.0, 7.0))),
        ("diagonal_line", l((0.0, 0.0), (3.0, 3.0))),
        ("line.scale_1e-9", l((1e-9, 2e-9), (4e-9, 3e-9))),
        ("line.scale_1e6", l((1e6, 2e6), (4e6, 3e6))),
        ("line_of_one_ulp", l((1.0, 1.0), (1.0 + f64::EPSILON, 1.0))),
    ];
    let probe = Coord2(2.0, 3.0);
    let other = l((0.0, 4.0), (6.0, 0.0));
    for (name, line) in lines {
        let inp = format!("line={:?}", line);
        run(cat, "line_coefficients", name, &inp, move || { let c = line.coefficients(); f1("a", c.0)?; f1("b", c.1)?; f1("c", c.2) });
        run(cat, "line_coefficients_2d_unnormalized", name, &inp, move || { let c = line_coefficients_2d_unnormalized(&line); f1("a", c.0)?; f1("b", c.1)?; f1("c", c.2) });
        run(cat, "line_distance_nearest_pos", name, &format!("{} point={:?}", inp, probe), move || { f1("distance_to", line.distance_to(&probe))?; step(1); f2("nearest_point", line.nearest_point(&probe))?; step(2); f1("nearest_pos", line.nearest_pos(&probe))?; step(3); f1("pos_for_point", line.pos_for_point(&probe)) });
        run(cat, "line_intersects_line", name, &format!("{} other={:?}", inp, other), move || {
            if let Some(p) = line_intersects_line(&line, &other) { f2("line_intersects_line", p)?; }
            step(1); if let Some(p) = line_intersects_line(&other, &line) { f2("line_intersects_line swapped", p)?; }
            step(2); if let Some(p) = ray_intersects_ray(&line, &other) { f2("ray_intersects_ray", p)?; }
            step(3); if let Some(p) = line_intersects_line(&line, &line) { f2("line_intersects_line with itself", p)?; }
            Ok(())
        });
        run(cat, "line_clip_to_bounds", name, &format!("{} bounds=((0,0),(4,4))", inp), move || { if let Some((p, q)) = line_clip_to_bounds(&line, &(Coord2(0.0, 0.0), Coord2(4.0, 4.0))) { f2("clip start", p)?; f2("clip end", q)?; } Ok(()) });
    }
}

fn fit_ops(cat: &mut Cat) {
    let p = |x: f64, y: f64| Coord2(x, y);
    let sets: Vec<(&str, Vec<Coord2>)> = vec![
        ("no_points", vec![]),
        ("one_point", vec![p(1.0, 2.0)]),
        ("two_points", vec![p(1.0, 2.0), p(4.0, 6.0)]),
        ("two_identical_points", vec![p(3.0, 3.0); 2]),
        ("five_identical_points", vec![p(3.0, 3.0); 5]),
        ("three_collinear_points", vec![p(0.0, 0.0), p(1.0, 1.0), p(2.0, 2.0)]),
        ("duplicate_consecutive_points", vec![p(0.0, 0.0), p(1.0, 2.0), p(1.0, 2.0), p(3.0, 3.0), p(5.0, 2.0)]),
        ("first_two_points_identical", vec![p(0.0, 0.0), p(0.0, 0.0), p(1.0, 2.0), p(3.0, 3.0), p(5.0, 2.0)]),
        ("last_two_points_identical", vec![p(0.0, 0.0), p(1.0, 2.0), p(3.0, 3.0), p(5.0, 2.0), p(5.0, 2.0)]),
        ("first_point_equals_last_point", vec![p(0.0, 0.0), p(1.0, 2.0), p(3.0, 3.0), p(5.0, 2.0), p(0.0, 0.0)]),
        ("out_and_back_on_a_line", vec![p(0.0, 0.0), p(2.0, 0.0), p(4.0, 0.0), p(2.0, 0.0), p(0.0, 0.0)]),
        ("points.scale_1e-9", vec![p(0.0, 0.0), p(1e-9, 2e-9), p(3e-9, 3e-9), p(5e-9, 2e-9)]),
        ("points.scale_1e6", vec![p(0.0, 0.0), p(1e6, 2e6), p(3e6, 3e6), p(5e6, 2e6)]),
    ];
    for (name, pts) in sets {
        for (me, op) in [(0.1, "fit_curve"), (1e-9, "fit_curve_max_error_1e-9"), (0.0, "fit_curve_max_error_0"), (-1.0, "fit_curve_max_error_negative")] {
            let pts2 = pts.clone();
            run(cat, op, name, &format!("points={:?} max_error={:?}", pts, me), move || match fit_curve::<Curve<Coord2>>(&pts2, me) { Some(f) => fchain("fit", &f), None => Ok(()) });
        }
        let pts2 = pts.clone();
        run(cat, "fit_curve_loop", name, &format!("points={:?} max_error=0.1", pts), move || match fit_curve_loop::<Curve<Coord2>>(&pts2, 0.1) { Some(f) => fchain("fit", &f), None => Ok(()) });
    }
}

fn poly(pts: &[(f64, f64)], close: bool) -> P {
    let mut b = BezierPathBuilder::<P>::start(Coord2(pts[0].0, pts[0].1));
    for q in &pts[1..] { b = b.line_to(Coord2(q.0, q.1)); }
    if close { b = b.line_to(Coord2(pts[0].0, pts[0].1)); }
    b.build()
}

fn paths() -> Vec<(&'static str, P)> {
    let rect = [(1.0, 1.0), (5.0, 1.0), (5.0, 5.0), (1.0, 5.0)];
    let k = |v: f64| -> Vec<(f64, f64)> { rect.iter().map(|(x, y)| (x * v, y * v)).collect() };
    let c5 = Coord2(5.0, 5.0);
    vec![
        ("rect", poly(&rect, true)),
        ("rect_duplicate_consecutive_points", poly(&[(1.0, 1.0), (5.0, 1.0), (5.0, 1.0), (5.0, 5.0), (1.0, 5.0)], true)),
        ("rect_zero_length_closing_segment", poly(&[(1.0, 1.0), (5.0, 1.0), (5.0, 5.0), (1.0, 5.0), (1.0, 1.0)], true)),
        ("rect_unclosed", poly(&rect, false)),
        ("one_segment", poly(&[(1.0, 1.0), (5.0, 1.0)], false)),
        ("two_segments_out_and_back", poly(&[(1.0, 1.0), (5.0, 1.0)], true)),
        ("point_path", poly(&[(1.0, 1.0), (1.0, 1.0)], false)),
        ("empty_path", (Coord2(1.0, 1.0), vec![])),
        ("collinear_zero_area", poly(&[(1.0, 1.0), (3.0, 3.0), (5.0, 5.0)], true)),
        ("bowtie_self_intersecting", poly(&[(1.0, 1.0), (5.0, 5.0), (5.0, 1.0), (1.0, 5.0)], true)),
        ("circle", Circle::new(Coord2(3.0, 3.0), 2.0).to_path::<P>()),
        ("circle.scale_1e-9", Circle::new(Coord2(3.0e-9, 3.0e-9), 2.0e-9).to_path::<P>()),
        ("circle.scale_1e6", Circle::new(Coord2(3.0e6, 3.0e6), 2.0e6).to_path::<P>()),
        ("rect.scale_1e-9", poly(&k(1e-9), true)),
        ("rect.scale_1e6", poly(&k(1e6), true)),
        ("path_of_point_curves", (Coord2(2.0, 2.0), vec![(Coord2(2.0, 2.0), Coord2(2.0, 2.0), Coord2(2.0, 2.0)); 3])),
        ("triangle_with_three_coincident_control_points_segment", (c5, vec![(c5, c5, Coord2(9.0, 7.0)), (Coord2(9.0, 8.0), Coord2(9.0, 9.0), Coord2(9.0, 10.0)), (Coord2(8.0, 8.0), Coord2(6.0, 6.0), c5)])),
    ]
}

fn path_ops(cat: &mut Cat) {
    let ps = paths();
    for (name, p) in ps.iter() {
        let inp = format!("path={:?}", p);
        let q = p.clone();
        run(cat, "path_bounding_box", name, &inp, move || { let b: Bounds<Coord2> = q.bounding_box(); f2("min", b.min())?; f2("max", b.max())?; step(1); let b: Bounds<Coord2> = q.fast_bounding_box(); f2("fast min", b.min())?; f2("fast max", b.max()) });
        let q = p.clone();
        run(cat, "path_to_curves", name, &inp, move || fchain("to_curves", &q.to_curves::<Curve<Coord2>>()));
        // probes: centre of the unit-scale shapes, a vertex, a point of an edge, outside, and the same at the path's own scale
        let s = if name.ends_with("scale_1e-9") { 1e-9 } else if name.ends_with("scale_1e6") { 1e6 } else { 1.0 };
        let probes = vec![Coord2(3.0 * s, 3.0 * s), p.0, Coord2(3.0 * s, 1.0 * s), Coord2(-7.0 * s, 2.0 * s), Coord2(7.0, 6.0), Coord2(5.0 * s, 3.0 * s)];
        let (q, pr) = (p.clone(), probes.clone());
        run(cat, "path_contains_point", name, &format!("{} points={:?}", inp, probes), move || { for (i, x) in pr.iter().enumerate() { step(i); let _ = path_contains_point(&q, x); } Ok(()) });
        let (q, pr) = (p.clone(), probes.clone());
        run(cat, "path_closest_point", name, &format!("{} points={:?}", inp, probes), move || { for (i, x) in pr.iter().enumerate() { step(i); let (_, t, d, pt) = path_closest_point(&q, x); f1(&format!("query {} t", i), t)?; f1(&format!("query {} distance", i), d)?; f2(&format!("query {} point", i), pt)?; } Ok(()) });
        let q = p.clone();
        run(cat, "path_remove_interior_points", name, &inp, move || fpaths("result", &path_remove_interior_points::<P, P>(&vec![q], 0.01)));
        let q = p.clone();
        run(cat, "path_remove_overlapped_points", name, &inp, move || fpaths("result", &path_remove_overlapped_points::<P, P>(&vec![q], 0.01)));
        let q = p.clone();
        run(cat, "path_remove_interior_points_two_copies", name, &inp, move || fpaths("result", &path_remove_interior_points::<P, P>(&vec![q.clone(), q], 0.01)));
    }
    for (na, a) in ps.iter() {
        for (nb, b) in ps.iter() {
            for op in ["path_add", "path_sub", "path_intersect"] {
                let (a2, b2) = (a.clone(), b.clone());
                run(cat, op, &format!("{}_x_{}", na, nb), &format!("path1={:?} path2={:?} accuracy=0.01", a, b), move || {
                    let r = match op { "path_add" => path_add::<P>(&vec![a2], &vec![b2], 0.01), "path_sub" => path_sub::<P>(&vec![a2], &vec![b2], 0.01), _ => path_intersect::<P>(&vec![a2], &vec![b2], 0.01) };
                    fpaths("result", &r)
                });
            }
        }
    }
    // empty operand lists
    let rect = ps[0].1.clone();
    for (name, a, b) in [("no_paths_x_rect", vec![], vec![rect.clone()]), ("rect_x_no_paths", vec![rect.clone()], vec![]), ("no_paths_x_no_paths", vec![], vec![])] {
        for op in ["path_add", "path_sub", "path_intersect"] {
            let (a2, b2): (Vec<P>, Vec<P>) = (a.clone(), b.clone());
            run(cat, op, name, &format!("path1={:?} path2={:?} accuracy=0.01", a, b), move || {
                let r = match op { "path_add" => path_add::<P>(&a2, &b2, 0.01), "path_sub" => path_sub::<P>(&a2, &b2, 0.01), _ => path_intersect::<P>(&a2, &b2, 0.01) };
                fpaths("result", &r)
            });
        }
    }
}

/// a loop that is nearly a cusp at t = 0.5 (F25): (-a,0), (b,c), (-b,c), (a,0) has a cusp for b = a and a loop for b > a; with
/// b = a(1+e), e from 1e-3 down to 1e-15, both halves of the curve can be characterised as loops
fn nearly_cusped_loop(rng: &mut Rng, it: u64) -> Cub {
    let (a, c) = (rng.r(5.0, 100.0), rng.r(10.0, 100.0));
    let e = [1e-3, 1e-5, 1e-7, 1e-9, 1e-11, 1e-13, 1e-15][(it % 7) as usize] * rng.r(0.5, 1.5);
    let b = a * (1.0 + e);
    let (ox, oy) = if it % 3 == 0 { (0.0, 0.0) } else { (rng.r(-100.0, 100.0), rng.r(-100.0, 100.0)) };
    let skew = if it % 2 == 0 { 0.0 } else { rng.r(-0.5, 0.5) * e * a };
    [Coord2(-a + ox, oy), Coord2(b + ox + skew, c + oy), Coord2(-b + ox, c + oy), Coord2(a + ox, oy)]
}

fn nearly_cusped_loops(cat: &mut Cat, n: u64) {
    let mut rng = Rng(0xC20_F25);
    for it in 0..n {
        let w = nearly_cusped_loop(&mut rng, it);
        let inp = format!("curve={}", fmt_cub(&w));
        run(cat, "find_self_intersection_point", "nearly_cusped_loop", &format!("{} accuracy=0.01", inp), move || { if let Some((a, b)) = find_self_intersection_point(&lib_curve(&w), 0.01) { f1("t1", a)?; f1("t2", b)?; } Ok(()) });
        run(cat, "features", "nearly_cusped_loop", &format!("{} accuracy=0.01", inp), move || match lib_curve(&w).features(0.01) { CurveFeatures::Loop(a, b) => { f1("loop t1", a)?; f1("loop t2", b) } _ => Ok(()) });
    }
}

pub fn search(_seed: u64, n: u64) {
    install_silent_hook();
    start_memory_watchdog(4096);
    // every call that does not return keeps running (at the lowest priority) until the process ends: bound their number
    let mut cat = Cat { stats: Stats::new(), max_abandoned: 64 };
    let mut scales = vec![1.0, 1e-9, 1e6];
    if n >= 100000 { scales.extend([1e-6, 1e-3, 1e3, 1e9]); }
    let mut curves: Vec<(String, Cub, f64)> = vec![];
    for s in scales.iter() { for (name, w) in base_curves() { curves.push((format!("{}{}", name, scale_name(*s)), [0, 1, 2, 3].map(|k| w[k] * *s), *s)); } }
    for (name, w, s) in curves.iter() { curve_ops(&mut cat, name, *w, *s); }
    curve_pairs(&mut cat, &curves);
    nearly_cusped_loops(&mut cat, if n >= 100000 { 3000 } else { 400 });
    line_ops(&mut cat);
    fit_ops(&mut cat);
    path_ops(&mut cat);
    cat.stats.add("abandoned_threads", abandoned_threads());
    cat.stats.add("info.section_t_for_original_t_empty_section_non_finite", INFO_EMPTY_SECTION.load(Ordering::SeqCst) as u64);
    cat.stats.print("C20", "search");
    finish();
}

// ---------------------------------------------------------------------------------------------------------------------
// correspondence: the real functions against the generated definitions (Float mirror and exact XQ), concentrated on the
// degenerate classes of the property. Every output number is compared for its finite / non-finite status first.

fn hx2(p: Coord2) -> String { format!("{} {}", hx(p.0), hx(p.1)) }
fn hxw(w: &Cub) -> String { format!("{} {} {} {}", hx2(w[0]), hx2(w[1]), hx2(w[2]), hx2(w[3])) }
fn hxl(l: &(Coord2, Coord2)) -> String { format!("{} {}", hx2(l.0), hx2(l.1)) }
fn optp(r: Option<Coord2>) -> String { match r { None => format!("#0 {} {}", hx(0.0), hx(0.0)), Some(p) => format!("#1 {}", hx2(p)) } }
fn optr(r: Option<(f64, f64)>) -> String { match r { None => format!("#0 {} {}", hx(0.0), hx(0.0)), Some((a, b)) => format!("#1 {} {}", hx(a), hx(b)) } }

/// a curve of one of the degenerate classes of the property (or a generic one); `dy`: coordinates k/8 in [-16,16] so that
/// the implementation's arithmetic is exact on the division-free kernels
fn corr_curve(rng: &mut Rng, dy: bool) -> (Cub, String, f64) {
    let scale = if dy { 1.0 } else { [1.0, 1.0, 1e-9, 1e6, 1e-3, 1e3][rng.i(6) as usize] };
    let mut g = |rng: &mut Rng| if dy { Coord2(rng.dyadic(-16, 16, 8), rng.dyadic(-16, 16, 8)) } else { Coord2(rng.r(-10.0, 10.0) * scale, rng.r(-10.0, 10.0) * scale) };
    let mut p = [g(rng), g(rng), g(rng), g(rng)];
    let kind = match rng.i(12) {
        0 => { p[1] = p[0]; p[2] = p[0]; p[3] = p[0]; "all_control_points_equal" }
        1 => { p[1] = p[0]; p[2] = p[0]; "three_coincident_control_points" }
        2 => { p[1] = p[3]; p[2] = p[3]; "last_three_control_points_coincident" }
        3 => { let d = p[3] - p[0]; p[1] = p[0] + d * 0.25; p[2] = p[0] + d * 0.75; "collinear" }
        4 => { let d = p[3] - p[0]; p[1] = p[0] + d * 1.5; p[2] = p[0] - d * 0.5; "collinear_overshoot" }
        5 => { p[1].1 = p[0].1; p[2].1 = p[0].1; p[3].1 = p[0].1; "collinear_horizontal" }
        6 => { p[1].0 = p[0].0; p[2].0 = p[0].0; p[3].0 = p[0].0; "collinear_vertical" }
        7 => { p[3] = p[0]; "closed_start_equals_end" }
        8 => { p[1] = p[0]; p[2] = p[3]; "cps_at_ends" }
        9 => { p[2] = p[1]; "cps_coincident" }
        10 => { p[3] = p[0]; p[2] = p[1]; "start_equals_end_cps_coincident" }
        _ => "generic",
    };
    (p, format!("{}{}", kind, scale_name(scale)), scale)
}

fn corr_t(rng: &mut Rng) -> f64 { match rng.i(6) { 0 => 0.0, 1 => 1.0, 2 => 0.5, _ => rng.dyadic(0, 1, 16) } }

/// sections whose control points are exact in binary64 on the dyadic stream: `t_m/(1-t_c)` in {0, 1/4, 1/2, 1}; plus the
/// degenerate ones of the property (a = b, a = b = 1, reversed)
fn corr_section(rng: &mut Rng) -> (f64, f64, &'static str) {
    match rng.i(8) {
        0 => (0.0, 0.0, "a=b=0"),
        1 => (1.0, 1.0, "a=b=1"),
        2 => (0.5, 0.5, "a=b"),
        3 => (0.0, 1.0, "whole"),
        4 => (1.0, 0.0, "reversed"),
        _ => { let a = [0.0, 0.5, 0.75][rng.i(3) as usize]; let f = [1.0, 0.5, 0.25][rng.i(3) as usize]; (a, a + (1.0 - a) * f, "proper") }
    }
}

fn corr_line(rng: &mut Rng, w: &Cub, dy: bool, scale: f64) -> ((Coord2, Coord2), &'static str) {
    let mut g = |rng: &mut Rng| if dy { Coord2(rng.dyadic(-16, 16, 8), rng.dyadic(-16, 16, 8)) } else { Coord2(rng.r(-10.0, 10.0) * scale, rng.r(-10.0, 10.0) * scale) };
    match rng.i(9) {
        0 => (((w[0]), (w[0])), "point_line_at_start"),
        1 => { let p = g(rng); ((p, p), "point_line") }
        2 => { let p = g(rng); ((p, Coord2(p.0 + 4.0 * scale, p.1)), "horizontal") }
        3 => { let p = g(rng); ((p, Coord2(p.0, p.1 + 4.0 * scale)), "vertical") }
        4 => ((w[0], w[3]), "chord"),
        5 => ((w[0], w[1]), "start_tangent"),
        6 => ((Coord2(0.0, 0.0), Coord2(0.0, 0.0)), "point_line_at_origin"),
        _ => ((g(rng), g(rng)), "generic"),
    }
}

pub fn corr(seed: u64, n: u64) {
    install_silent_hook();
    let mut rng = Rng(seed ^ 0xC20);
    let mut stats = Stats::new();
    for it in 0..n {
        let dy = (it / 12) % 2 == 0;
        let st = if dy { "D" } else { "R" };
        let (w, kind, scale) = corr_curve(&mut rng, dy);
        let c = lib_curve(&w);
        let op = it % 12;
        let line = match op {
            0 => {
                let t = corr_t(&mut rng);
                let (l, r): (Curve<Coord2>, Curve<Coord2>) = c.subdivide(t);
                let (tan, nrm) = (c.tangent_at_pos(t), c.normal_at_pos(t));
                stats.count(&format!("eval.{}.t{}", kind, if t == 0.0 { "=0" } else if t == 1.0 { "=1" } else { "" }));
                format!("C20 eval {} {} {} | {} {} {} {} {} {} {}", st, hxw(&w), hx(t), hx2(c.point_at_pos(t)), hx2(tan), hx2(nrm), hx2(tan.to_unit_vector()), hx2(nrm.to_unit_vector()), hxw(&cub_of(&l)), hxw(&cub_of(&r)))
            }
            1 => {
                let (a, b, sk) = corr_section(&mut rng);
                let t = corr_t(&mut rng);
                let sec = c.section(a, b);
                let (p, q) = sec.control_points();
                let u = sec.t_for_t(t);
                stats.count(&format!("sec.{}.{}", kind, sk));
                format!("C20 sec {} {} {} {} {} | {} {} {} {} {} {} {}", st, hxw(&w), hx(a), hx(b), hx(t), hx2(p), hx2(q), hx2(sec.start_point()), hx2(sec.end_point()), hx2(sec.point_at_pos(t)), hx(u), hx(sec.section_t_for_original_t(t)))
            }
            2 => {
                let (l, lk) = corr_line(&mut rng, &w, dy, scale);
                let probe = w[2];
                let un = line_coefficients_2d_unnormalized(&l);
                let co = l.coefficients();
                stats.count(&format!("line.{}", lk));
                format!("C20 line {} {} {} | {} {} {} {} {} {} {} {} {} {}", st, hxl(&l), hx2(probe), hx(un.0), hx(un.1), hx(un.2), hx(co.0), hx(co.1), hx(co.2), hx(l.distance_to(&probe)), hx2(l.nearest_point(&probe)), hx(l.pos_for_point(&probe)), hx(l.nearest_pos(&probe)))
            }
            3 => {
                let (l1, k1) = corr_line(&mut rng, &w, dy, scale);
                let (l2, k2) = corr_line(&mut rng, &w, dy, scale);
                stats.count(&format!("lines.{}_x_{}", k1, k2));
                format!("C20 lines {} {} {} | {} {} {}", st, hxl(&l1), hxl(&l2), optp(line_intersects_line(&l1, &l2)), optp(line_intersects_ray(&l1, &l2)), optp(ray_intersects_ray(&l1, &l2)))
            }
            4 => {
                let (w2, kind2, _) = corr_curve(&mut rng, dy);
                let b = lib_curve(&w2);
                let fl = FatLine::from_curve(&c);
                let pl = FatLine::from_curve_perpendicular(&c);
                let (fc, pc) = (fl.verif_coeff(), pl.verif_coeff());
                stats.count(&format!("fat.{}", kind));
                stats.count(&format!("fat.against.{}", kind2));
                format!("C20 fat {} {} {} | {} {} {} {} {} {} {} {} {} {} {} {}", st, hxw(&w), hxw(&w2), hx(fl.verif_d_min()), hx(fl.verif_d_max()), hx(fc.0), hx(fc.1), hx(fc.2),
                    hx(pl.verif_d_min()), hx(pl.verif_d_max()), hx(pc.0), hx(pc.1), hx(pc.2), optr(fl.clip_t(&b)), optr(pl.clip_t(&b)))
            }
            5 => {
                let b: Bounds<Coord2> = c.bounding_box();
                let f: Bounds<Coord2> = c.fast_bounding_box();
                stats.count(&format!("bbox.{}", kind));
                format!("C20 bbox {} {} | {} {} {} {}", st, hxw(&w), hx2(b.min()), hx2(b.max()), hx2(f.min()), hx2(f.max()))
            }
            6 => {
                let (l, lk) = corr_line(&mut rng, &w, dy, scale);
                let _ = verif_roots::take();
                let hits = curve_intersects_ray(&c, &l);
                let roots = verif_roots::take().map(|(_, r)| r).unwrap_or_default();
                stats.count(&format!("cray.{}.{}", kind, lk));
                let mut line = format!("C20 cray {} {} {} #{}", st, hxw(&w), hxl(&l), roots.len());
                for r in &roots { line += &format!(" {}", hx(*r)); }
                line += &format!(" | #{}", hits.len());
                for (t, s, p) in hits.iter() { line += &format!(" {} {} {}", hx(*t), hx(*s), hx2(*p)); }
                line
            }
            7 => {
                // distances incl. zero and negative ones (clamped by the constructor), tolerances likewise
                let len = control_polygon_length(&c).max(1e-3 * scale);
                let distance = match rng.i(6) { 0 => 0.0, 1 => -1.0 * scale, _ => len * rng.r(0.05, 2.0) };
                let max_error = match rng.i(6) { 0 => 0.0, 1 => -1.0 * scale, _ => distance.abs().max(1e-3 * scale) * rng.r(0.01, 0.25) };
                let cap = 400usize;
                let secs: Vec<(f64, f64)> = walk_curve_evenly(&c, distance, max_error).take(cap).map(|s| s.original_curve_t_values()).collect();
                stats.count(&format!("walk.{}.{}", kind, if distance <= 0.0 { "distance<=0" } else if max_error <= 0.0 { "max_error<=0" } else { "positive" }));
                let mut line = format!("C20 walk {} {} {} {} #{} | #{}", st, hxw(&w), hx(distance), hx(max_error), cap, secs.len());
                for (a, b) in &secs { line += &format!(" {} {}", hx(*a), hx(*b)); }
                line
            }
            8 => {
                let k = [0usize, 1, 2, 7, 49][rng.i(5) as usize];
                let secs: Vec<(f64, f64)> = walk_curve_unevenly(&c, k).take(k + 2).map(|s| s.original_curve_t_values()).collect();
                stats.count(&format!("uneven.n{}", k));
                let mut line = format!("C20 uneven {} #{} | #{}", st, k, secs.len());
                for (a, b) in &secs { line += &format!(" {} {}", hx(*a), hx(*b)); }
                line
            }
            9 => {
                let e = [1e-2, 1e-4, 1e-8, 0.0, -1.0][rng.i(5) as usize] * scale * scale;
                stats.count(&format!("len.{}.e{}", kind, if e > 0.0 { ">0" } else { "<=0" }));
                format!("C20 len {} {} {} | {} {} {}", st, hxw(&w), hx(e), hx(curve_length(&c, e)), hx(chord_length(&c)), hx(control_polygon_length(&c)))
            }
            10 => {
                // a varied walk: the distances of `vary_by` include 0 and negative ones (clamped since repair b75d9d0)
                let len = control_polygon_length(&c).max(1e-3 * scale);
                let d0 = len * rng.r(0.05, 1.0);
                let max_error = d0 * rng.r(0.01, 0.25);
                let mut v = |rng: &mut Rng| match rng.i(5) { 0 => 0.0, 1 => -1.0 * scale, 2 => d0 * 0.5, 3 => d0 * 2.0, _ => d0 };
                let vs = vec![v(&mut rng), v(&mut rng), v(&mut rng)];
                let cap = 300usize;
                let secs: Vec<(f64, f64)> = walk_curve_evenly(&c, d0, max_error).vary_by(vs.clone().into_iter().cycle()).take(cap).map(|s| s.original_curve_t_values()).collect();
                stats.count(&format!("vary.{}.{}", kind, if vs.iter().any(|x| *x <= 0.0) { "with_distance<=0" } else { "positive" }));
                let mut line = format!("C20 vary {} {} {} {} {} #{} | #{}", st, hxw(&w), hx(d0), hx(max_error), hxs(&vs), cap, secs.len());
                for (a, b) in &secs { line += &format!(" {} {}", hx(*a), hx(*b)); }
                line
            }
            _ => {
                let v = match rng.i(4) { 0 => Coord2(0.0, 0.0), 1 => w[1] - w[0], 2 => Coord2(3.0 * scale, 4.0 * scale), _ => w[3] - w[0] };
                stats.count(&format!("unit.{}", if v.0 == 0.0 && v.1 == 0.0 { "zero_vector" } else { "non_zero" }));
                format!("C20 unit {} {} | {} {}", st, hx2(v), hx2(v.to_unit_vector()), hx(v.magnitude()))
            }
        };
        stats.case(&line, !kind.starts_with("generic"));
        println!("{}", line);
    }
    corr_selfint(seed, n / 8 + 40, &mut stats);
    stats.print("C20", "corr");
}

/// `find_self_intersection_point` (self_intersection.rs): the terminal pair of halves the recursion reaches, found here with the
/// public API only (the model walks the same recursion with the generated code and must arrive at the same two sections)
fn selfint_terminal<'a>(c: &'a Curve<Coord2>) -> Option<(CurveSection<'a, Curve<Coord2>>, CurveSection<'a, Curve<Coord2>>)> {
    if c.characteristics() != CurveCategory::Loop { return None; }
    let mut s = c.section(0.0, 1.0);
    for _ in 0..4000 {
        let (l, r) = (s.subsection(0.0, 0.5), s.subsection(0.5, 1.0));
        match (l.characteristics() == CurveCategory::Loop, r.characteristics() == CurveCategory::Loop) {
            (true, false) => { s = l; }
            (false, true) => { s = r; }
            // neither half is a loop, or (since repair F25) both are: the clipper runs on the two halves
            _ => return Some((l, r)),
        }
    }
    None
}

/// curves for the self-intersection lines: loops of several shapes (crossing control polygon), closed curves, nearly
/// symmetric loops, and curves of the other categories
fn selfint_curve(rng: &mut Rng) -> (Cub, &'static str) {
    match rng.i(8) {
        0 | 1 => ([Coord2(rng.r(0.0, 30.0), rng.r(0.0, 20.0)), Coord2(rng.r(80.0, 140.0), rng.r(60.0, 120.0)), Coord2(rng.r(-60.0, 10.0), rng.r(60.0, 120.0)), Coord2(rng.r(50.0, 100.0), rng.r(0.0, 20.0))], "loop"),
        2 => { let (a, b, h) = (rng.r(5.0, 30.0), rng.r(60.0, 120.0), rng.r(40.0, 100.0)); let e = rng.r(-1e-3, 1e-3);
               ([Coord2(-a, 0.0), Coord2(b, h), Coord2(-b + e, h), Coord2(a, 0.0)], "nearly_symmetric_loop") }
        3 => { let p0 = Coord2(rng.r(0.0, 100.0), rng.r(0.0, 100.0)); ([p0, Coord2(rng.r(0.0, 100.0), rng.r(0.0, 100.0)), Coord2(rng.r(0.0, 100.0), rng.r(0.0, 100.0)), p0], "closed") }
        4 => { let s = rng.r(0.3, 0.7); // a small loop near one end: the recursion descends several levels
               let q = [Coord2(0.0, 0.0), Coord2(120.0, 90.0), Coord2(-30.0, 90.0), Coord2(90.0, 0.0)];
               let c = lib_curve(&q); let (l, _): (Curve<Coord2>, Curve<Coord2>) = c.subdivide(s + 0.3); (cub_of(&l), "loop_near_end") }
        5 => { let q = [Coord2(0.0, 0.0), Coord2(120.0, 90.0), Coord2(-30.0, 90.0), Coord2(90.0, 0.0)];
               let c = lib_curve(&q); let (_, r): (Curve<Coord2>, Curve<Coord2>) = c.subdivide(rng.r(0.02, 0.2)); (cub_of(&r), "loop_near_start") }
        _ => ([Coord2(rng.r(0.0, 100.0), rng.r(0.0, 100.0)), Coord2(rng.r(0.0, 100.0), rng.r(0.0, 100.0)), Coord2(rng.r(0.0, 100.0), rng.r(0.0, 100.0)), Coord2(rng.r(0.0, 100.0), rng.r(0.0, 100.0))], "generic"),
    }
}

/// lines `C20 selfint R w(8) accuracy la lb ra rb #k (u1 u2)* | #flag t1 t2` (flag 0: None, 1: Some, 2: panic)
pub fn corr_selfint(seed: u64, n: u64, stats: &mut Stats) {
    let mut rng = Rng(seed ^ 0xC205E1F);
    let mut rng2 = Rng(seed ^ 0xC20F25);
    for it in 0..(n + n / 2) {
        let (w, kind) = if it < n { selfint_curve(&mut rng) } else { (nearly_cusped_loop(&mut rng2, it), "nearly_cusped_loop") };
        let c = lib_curve(&w);
        let accuracy = [0.01, 0.1, 1e-4][rng.i(3) as usize];
        let term = selfint_terminal(&c);
        let (tv, pairs) = match &term {
            Some((l, r)) => {
                let pairs = std::panic::catch_unwind(std::panic::AssertUnwindSafe(|| curve_intersects_curve_clip(l, r, accuracy))).unwrap_or_default();
                let (la, lb) = l.original_curve_t_values(); let (ra, rb) = r.original_curve_t_values();
                ([la, lb, ra, rb], pairs.into_iter().collect::<Vec<_>>())
            }
            None => ([0.0; 4], vec![]),
        };
        let res = std::panic::catch_unwind(std::panic::AssertUnwindSafe(|| find_self_intersection_point(&c, accuracy)));
        let out = match res { Err(_) => format!("#2 {} {}", hx(0.0), hx(0.0)), Ok(None) => format!("#0 {} {}", hx(0.0), hx(0.0)), Ok(Some((a, b))) => format!("#1 {} {}", hx(a), hx(b)) };
        stats.count(&format!("selfint.{}.{}.{}", kind, format!("{:?}", c.characteristics()).to_lowercase(),
            match &res { Err(_) => "panic".to_string(), Ok(None) => "none".to_string(), Ok(Some(_)) => format!("some.{}_clip_pairs", pairs.len().min(3)) }));
        let mut line = format!("C20 selfint R {} {} {} #{}", hxw(&w), hx(accuracy), hxs(&tv), pairs.len());
        for (a, b) in &pairs { line += &format!(" {} {}", hx(*a), hx(*b)); }
        line += &format!(" | {}", out);
        stats.case(&line, kind != "generic");
        println!("{}", line);
    }
}

