//! C17: contour tracing returns exactly the boundary of the sampled shape.
use crate::util::*;
use flo_curves::bezier::vectorize::*;
use std::collections::HashMap;

fn sample(bm: &[bool], w: usize, h: usize, x: i64, y: i64) -> bool {
    if x < 0 || y < 0 || x >= w as i64 || y >= h as i64 { false } else { bm[(y as usize) * w + x as usize] }
}

fn cell_value(c: ContourCell) -> usize {
    for v in 0..16usize {
        if ContourCell::from_corners(v & 1 != 0, v & 2 != 0, v & 4 != 0, v & 8 != 0) == c { return v; }
    }
    99
}

fn edge_id(e: ContourEdge, size: ContourSize) -> usize {
    let (p, _q) = e.to_contour_coords(size);
    (((size.0 + 1) * p.1 + p.0) << 1) | (if e.is_horizontal() { 1 } else { 0 })
}

fn bits(bm: &[bool]) -> String { bm.iter().map(|b| if *b { '1' } else { '0' }).collect() }

fn line(bm: &[bool], w: usize, h: usize) -> Result<String, String> {
    let contour = BoolSampledContour(ContourSize(w, h), bm.to_vec());
    let size = ContourSize(w, h);
    let r = std::panic::catch_unwind(|| {
        let cells: Vec<(ContourPosition, ContourCell)> = contour.edge_cell_iterator().collect();
        let loops = trace_contours_from_samples(&contour);
        (cells, loops)
    });
    let (cells, loops) = match r { Ok(v) => v, Err(_) => return Err("panic".into()) };
    let mut s = format!("C17 bitmap D #{} #{} {} | #{}", w, h, if bm.is_empty() { "-".to_string() } else { bits(bm) }, cells.len());
    for (p, c) in &cells { s += &format!(" #{} #{} #{}", p.0, p.1, cell_value(*c)); }
    s += &format!(" L #{}", loops.len());
    for l in &loops {
        s += &format!(" #{}", l.len());
        for e in l { s += &format!(" #{}", edge_id(*e, size)); }
    }
    Ok(s)
}

/// the property on the real code against brute force
pub fn check(bm: &[bool], w: usize, h: usize) -> Option<(String, String)> {
    let contour = BoolSampledContour(ContourSize(w, h), bm.to_vec());
    let mut want = vec![];
    for y in 0..=(h as i64) { for x in 0..=(w as i64) {
        let (tl, tr, bl, br) = (sample(bm, w, h, x - 1, y - 1), sample(bm, w, h, x, y - 1), sample(bm, w, h, x - 1, y), sample(bm, w, h, x, y));
        let v = (tl as usize) | ((tr as usize) << 1) | ((bl as usize) << 2) | ((br as usize) << 3);
        if v != 0 && v != 15 { want.push((x as usize, y as usize, v)); }
    } }
    let got: Vec<(usize, usize, usize)> = contour.edge_cell_iterator().map(|(p, c)| (p.0, p.1, cell_value(c))).collect();
    if got != want { return Some(("scan_cells".into(), format!("got {:?} want {:?}", got, want))); }
    let loops = trace_contours_from_samples(&contour);
    let size = ContourSize(w, h);
    let mut used: HashMap<ContourEdge, usize> = HashMap::new();
    for l in &loops {
        if l.len() < 2 || l[0] != l[l.len() - 1] { return Some(("loop_not_closed".into(), format!("{:?}", l))); }
        for e in &l[..l.len() - 1] { *used.entry(*e).or_insert(0) += 1; }
        for wv in l.windows(2) {
            let a: flo_curves::Coord2 = wv[0].to_coords(size);
            let b: flo_curves::Coord2 = wv[1].to_coords(size);
            let d2 = (a.0 - b.0) * (a.0 - b.0) + (a.1 - b.1) * (a.1 - b.1);
            if d2 > 1.0001 || d2 == 0.0 { return Some(("loop_not_adjacent".into(), format!("{:?} {:?}", a, b))); }
        }
    }
    for (e, n) in &used {
        if *n != 1 { return Some(("edge_used_twice".into(), format!("{:?} used {} times", e, n))); }
        let (p, q) = e.to_contour_coords(size);
        let (sa, sb) = (sample(bm, w, h, p.0 as i64 - 1, p.1 as i64 - 1), sample(bm, w, h, q.0 as i64 - 1, q.1 as i64 - 1));
        if sa == sb { return Some(("edge_not_on_boundary".into(), format!("{:?} ({:?},{:?})", e, p, q))); }
    }
    let mut boundary = 0;
    for y in -1..=(h as i64) { for x in -1..=(w as i64) {
        if sample(bm, w, h, x, y) != sample(bm, w, h, x + 1, y) { boundary += 1; }
        if sample(bm, w, h, x, y) != sample(bm, w, h, x, y + 1) { boundary += 1; }
    } }
    if boundary != used.len() { return Some(("boundary_edge_missed".into(), format!("boundary edges {} used {}", boundary, used.len()))); }
    None
}

fn sizes(thorough: bool) -> Vec<(usize, usize)> {
    let mut v = vec![(0, 0), (1, 0), (0, 1), (1, 1), (2, 1), (1, 2), (2, 2), (3, 1), (1, 3), (3, 2), (2, 3), (3, 3), (4, 2), (2, 4), (4, 3), (3, 4)];
    if thorough { v.push((4, 4)); v.push((5, 3)); v.push((5, 4)); v.push((4, 5)); }
    v
}

fn random_bitmap(rng: &mut Rng) -> (Vec<bool>, usize, usize, &'static str) {
    let w = 1 + rng.i(64) as usize;
    let h = 1 + rng.i(64) as usize;
    let kind = rng.i(8);
    let mut bm = vec![false; w * h];
    let name = match kind {
        0 => { for b in bm.iter_mut() { *b = true; } "full" }
        1 => "empty",
        2 => { for y in 0..h { for x in 0..w { bm[y * w + x] = (x + y) % 2 == 0; } } "checkerboard" }
        3 => { let (x, y) = (rng.i(w as u64) as usize, rng.i(h as u64) as usize); bm[y * w + x] = true; "single_pixel" }
        4 => { let p = rng.f(); for b in bm.iter_mut() { *b = rng.f() < p; } "noise" }
        5 => { // blobs
            let (cx, cy, r) = (rng.r(0.0, w as f64), rng.r(0.0, h as f64), rng.r(1.0, 30.0));
            for y in 0..h { for x in 0..w { let d = ((x as f64 - cx).powi(2) + (y as f64 - cy).powi(2)).sqrt(); bm[y * w + x] = d < r && d > r * 0.4; } } "ring" }
        6 => { for y in 0..h { for x in 0..w { bm[y * w + x] = (x / 2 + y / 3) % 2 == 0; } } "blocks" }
        _ => { let p = rng.f(); for y in 0..h { for x in 0..w { bm[y * w + x] = x > 0 && y > 0 && x + 1 < w && y + 1 < h && rng.f() < p; } } "noise_with_border" }
    };
    (bm, w, h, name)
}

pub fn corr(seed: u64, n: u64) {
    let mut rng = Rng(seed ^ 0xC17);
    let mut stats = Stats::new();
    let thorough = n >= 100000;
    for (w, h) in sizes(thorough) {
        let nbits = w * h;
        let step: u64 = if nbits > 16 { 1 + (seed % 3) } else { 1 };   // 5x4: every 1st..3rd bitmap by seed, still > 300k
        let mut b: u64 = 0;
        while b < (1u64 << nbits) {
            let bm: Vec<bool> = (0..nbits).map(|i| (b >> i) & 1 == 1).collect();
            match line(&bm, w, h) {
                Ok(l) => { stats.case(&l, b != 0 && b + 1 != (1u64 << nbits)); println!("{}", l); }
                Err(e) => { stats.fail("C17", "panic", &format!("{}x{} {} {}", w, h, bits(&bm), e)); }
            }
            stats.count(&format!("exhaustive.{}x{}", w, h));
            b += step;
        }
    }
    for _ in 0..(n / 100) {
        let (bm, w, h, name) = random_bitmap(&mut rng);
        match line(&bm, w, h) {
            Ok(l) => { stats.case(&l, name != "full" && name != "empty"); println!("{}", l); }
            Err(e) => { stats.fail("C17", "panic", &format!("{}x{} {} {}", w, h, bits(&bm), e)); }
        }
        stats.count(&format!("random.{}", name));
    }
    stats.print("C17", "corr");
}

pub fn search(seed: u64, n: u64) {
    let mut rng = Rng(seed ^ 0x5EA2C17);
    let mut stats = Stats::new();
    let thorough = n >= 100000;
    let mut run = |bm: &[bool], w: usize, h: usize, stats: &mut Stats, nontrivial: bool| {
        let desc = format!("{}x{} {}", w, h, bits(bm));
        stats.case(&desc, nontrivial);
        let bmv = bm.to_vec();
        match std::panic::catch_unwind(move || check(&bmv, w, h)) {
            Ok(None) => {}
            Ok(Some((key, d))) => stats.fail("C17", &key, &format!("{} {}", desc, d)),
            Err(_) => stats.fail("C17", "panic", &desc),
        }
    };
    std::panic::set_hook(Box::new(|_| {}));
    let mut szs = sizes(thorough);
    if !thorough { szs.push((4, 4)); }
    for (w, h) in szs {
        let nbits = w * h;
        for b in 0u64..(1u64 << nbits) {
            let bm: Vec<bool> = (0..nbits).map(|i| (b >> i) & 1 == 1).collect();
            run(&bm, w, h, &mut stats, b != 0 && b + 1 != (1u64 << nbits));
        }
        stats.count(&format!("exhaustive.{}x{}", w, h));
    }
    for _ in 0..(n / 20) {
        let (bm, w, h, name) = random_bitmap(&mut rng);
        run(&bm, w, h, &mut stats, name != "full" && name != "empty");
        stats.count(&format!("random.{}", name));
    }
    stats.print("C17", "search");
}
