//! C17: contour tracing returns exactly the boundary of the sampled shape.
//!
//! Every bitmap is pushed through several implementations of the public trait `SampledContour` that must all give the
//! same edge cells and the same loops:
//!   bool    `BoolSampledContour`
//!   u8      `U8SampledContour` (0 = outside, any other value = inside)
//!   frac    `FracContour` (defined here): rows of FRACTIONAL ranges that sample to the same bitmap, with pieces that
//!           touch after rounding, pieces that round to nothing, negative starts, many ranges per row
//!   scaled  the library's `ScaledContour` around a `BoolSampledContour` (its intercepts are fractional)
//! and the rounding stage itself (`rounded_intercepts_on_line`, which calls `merge_overlapping_intercepts`) is observed
//! directly (`round`).
use crate::util::*;
use flo_curves::bezier::vectorize::*;
use smallvec::SmallVec;
use std::collections::HashMap;
use std::ops::Range;
use std::panic::{catch_unwind, AssertUnwindSafe};

/// A contour given directly by its (fractional) intercepts on each line: sample x of line y is inside iff
/// `start <= x < end` for one of the ranges of the line (the documented contract: ascending, not overlapping)
pub struct FracContour(pub ContourSize, pub Vec<Vec<Range<f64>>>);

impl SampledContour for FracContour {
    fn contour_size(&self) -> ContourSize { self.0 }
    fn intercepts_on_line(&self, y: f64) -> SmallVec<[Range<f64>; 4]> { self.1[y.floor() as usize].iter().cloned().collect() }
}

fn sample(bm: &[bool], w: usize, h: usize, x: i64, y: i64) -> bool {
    if x < 0 || y < 0 || x >= w as i64 || y >= h as i64 { false } else { bm[(y as usize) * w + x as usize] }
}

fn cell_value(c: ContourCell) -> usize {
    for v in 0..16usize {
        if ContourCell::from_corners(v & 1 != 0, v & 2 != 0, v & 4 != 0, v & 8 != 0) == c { return v; }
    }
    99
}

fn edge_id(e: ContourEdge, size: ContourSize) -> usize {
    let (p, _q) = e.to_contour_coords(size);
    (((size.0 + 1) * p.1 + p.0) << 1) | (if e.is_horizontal() { 1 } else { 0 })
}

fn bits(bm: &[bool]) -> String { if bm.is_empty() { "-".to_string() } else { bm.iter().map(|b| if *b { '1' } else { '0' }).collect() } }

type Cells = Vec<(usize, usize, usize)>;

/// the observation points of the property on one contour: `edge_cell_iterator` and `trace_contours_from_samples`
fn scan_trace<C: SampledContour>(contour: &C) -> Result<(Cells, Vec<Vec<ContourEdge>>), String> {
    let r = catch_unwind(AssertUnwindSafe(|| {
        let cells: Cells = contour.edge_cell_iterator().map(|(p, c)| (p.0, p.1, cell_value(c))).collect();
        let loops = trace_contours_from_samples(contour);
        (cells, loops)
    }));
    r.map_err(|_| "panic".to_string())
}

fn outputs(cells: &Cells, loops: &[Vec<ContourEdge>], size: ContourSize) -> String {
    let mut s = format!("#{}", cells.len());
    for (x, y, c) in cells { s += &format!(" #{} #{} #{}", x, y, c); }
    s += &format!(" L #{}", loops.len());
    for l in loops {
        s += &format!(" #{}", l.len());
        for e in l { s += &format!(" #{}", edge_id(*e, size)); }
    }
    s
}

fn rows_text(rows: &[Vec<Range<f64>>]) -> String {
    let mut s = String::new();
    for r in rows {
        s += &format!(" #{}", r.len());
        for iv in r { s += &format!(" {} {}", hx(iv.start), hx(iv.end)); }
    }
    s
}

// ------------------------------------------------------------------------------------------------ the contours of one bitmap

const U8_VALUES: [(u8, char); 5] = [(1, '1'), (2, '2'), (128, '8'), (255, 'f'), (7, '7')];

/// u8 samples for a bitmap: 0 outside, inside samples take values from a small set of non-zero bytes
fn u8_samples(bm: &[bool], variant: u64) -> (Vec<u8>, String) {
    let mut v = vec![];
    let mut s = String::new();
    for (i, b) in bm.iter().enumerate() {
        if *b {
            let (val, ch) = if variant == 0 { U8_VALUES[0] } else { U8_VALUES[((i as u64).wrapping_mul(2654435761).wrapping_add(variant) % 5) as usize] };
            v.push(val); s.push(ch);
        } else { v.push(0); s.push('0'); }
    }
    if bm.is_empty() { s = "-".into(); }
    (v, s)
}

/// a point of the half-open pixel gap (j-1, j]: every such point has ceiling j
fn in_gap(j: i64, f: f64) -> f64 { (j - 1) as f64 + f }

/// `n` ascending offsets in (0, 1]: eighths (`dy`) or reals not closer than 2^-20 to 0
fn fracs(rng: &mut Rng, n: usize, dy: bool) -> Vec<f64> {
    let mut v: Vec<f64> = (0..n).map(|_| if dy { (1 + rng.i(8)) as f64 / 8.0 } else { rng.r(1.0 / 1048576.0, 1.0) }).collect();
    v.sort_by(|a, b| a.partial_cmp(b).unwrap());
    v
}

#[derive(Clone, Copy)]
struct Style { split: f64, empties: f64, dyadic: bool, neg: bool }

/// Fractional ranges (ascending, not overlapping) whose samples are exactly the inside runs of `row`.
/// A run [a,b) becomes one range or several: a split at sample k ends one piece and starts the next inside the pixel gap
/// (k-1, k], so both round to k and the rounded pieces touch; `empties` adds pieces with both ends in one gap (they
/// contain no sample and round to an empty range) between runs, before the first, after the last and inside splits.
fn frac_row(rng: &mut Rng, row: &[bool], st: Style) -> Vec<Range<f64>> {
    let w = row.len() as i64;
    let mut runs: Vec<(i64, i64)> = vec![];
    let mut x = 0;
    while x < w {
        if row[x as usize] { let a = x; while x < w && row[x as usize] { x += 1; } runs.push((a, x)); } else { x += 1; }
    }
    let mut out: Vec<Range<f64>> = vec![];
    // empty pieces in the pixel gaps j of lo..=hi (no sample position lies strictly inside a gap)
    let empties = |rng: &mut Rng, out: &mut Vec<Range<f64>>, lo: i64, hi: i64| {
        if lo > hi { return; }
        let mut j = lo;
        while j <= hi {
            if rng.f() < st.empties {
                let f = fracs(rng, 2, st.dyadic);
                out.push(in_gap(j, f[0])..in_gap(j, f[1]));
                if rng.f() < 0.3 { continue; }      // another one in the same gap? no: keep ascending, move on
            }
            j += 1 + rng.i(3) as i64;
        }
    };
    let mut prev_end = 0i64;
    for (a, b) in runs.iter().copied() {
        empties(rng, &mut out, prev_end + 1, a - 1);
        let mut start = if a == 0 && !(st.neg && rng.i(4) == 0) { 0.0 } else { in_gap(a, fracs(rng, 1, st.dyadic)[0]) };
        for k in (a + 1)..b {
            if rng.f() < st.split {
                let with_empty = rng.f() < st.empties;
                let f = fracs(rng, if with_empty { 4 } else { 2 }, st.dyadic);
                out.push(start..in_gap(k, f[0]));
                if with_empty { out.push(in_gap(k, f[1])..in_gap(k, f[2])); }
                start = in_gap(k, f[f.len() - 1]);
            }
        }
        out.push(start..in_gap(b, fracs(rng, 1, st.dyadic)[0]));
        prev_end = b;
    }
    empties(rng, &mut out, prev_end + 1, w);
    out
}

/// every inside sample x becomes its own range [x - 1/2, x + 1/2): after rounding all pieces of a run touch
fn frac_row_max_split(row: &[bool]) -> Vec<Range<f64>> {
    row.iter().enumerate().filter(|(_, b)| **b).map(|(x, _)| (x as f64 - 0.5)..(x as f64 + 0.5)).collect()
}

fn frac_rows(rng: &mut Rng, bm: &[bool], w: usize, h: usize, st: Option<Style>) -> Vec<Vec<Range<f64>>> {
    (0..h).map(|y| { let row = &bm[y * w..(y + 1) * w]; match st { None => frac_row_max_split(row), Some(st) => frac_row(rng, row, st) } }).collect()
}

fn random_style(rng: &mut Rng) -> Style {
    Style { split: [0.0, 0.3, 0.7, 1.0][rng.i(4) as usize], empties: [0.0, 0.2, 0.6][rng.i(3) as usize], dyadic: rng.b(), neg: rng.b() }
}

/// the bitmap a list of rows samples to (the contour's meaning; independent of any rounding)
fn sample_rows(rows: &[Vec<Range<f64>>], w: usize) -> Vec<bool> {
    let mut bm = vec![];
    for r in rows { for x in 0..w { let xf = x as f64; bm.push(r.iter().any(|iv| iv.start <= xf && xf < iv.end)); } }
    bm
}

/// what the rounding stage does to a row, for the input-class counters only
fn classify_row(row: &[Range<f64>], pre: &str, stats: &mut Stats) {
    let rounded: Vec<(usize, usize)> = row.iter().map(|iv| (iv.start.ceil() as usize, iv.end.ceil() as usize)).collect();
    let kept: Vec<(usize, usize)> = rounded.iter().copied().filter(|r| r.0 != r.1).collect();
    if kept.len() < rounded.len() { stats.count(&format!("{}.rows_with_empty_piece", pre)); }
    if row.iter().any(|iv| iv.start < 0.0) { stats.count(&format!("{}.rows_with_negative_start", pre)); }
    if row.iter().any(|iv| iv.start.fract() != 0.0 || iv.end.fract() != 0.0) { stats.count(&format!("{}.rows_fractional", pre)); }
    let touch: Vec<usize> = (0..kept.len().saturating_sub(1)).filter(|i| kept[*i].1 == kept[*i + 1].0).collect();
    if !touch.is_empty() { stats.count(&format!("{}.rows_touching", pre)); }
    if kept.len() >= 4 && touch.iter().any(|i| kept.len() - (i + 2) >= 2) { stats.count(&format!("{}.rows_ge4_ranges_touching_pair_then_2_more", pre)); }
    if kept.len() >= 4 { stats.count(&format!("{}.rows_ge4_ranges", pre)); }
}

/// a library wrapper with fractional intercepts: `ScaledContour` around the bitmap; returns its rows and size
fn scaled_of(rng: &mut Rng, bm: &[bool], w: usize, h: usize) -> Option<(ScaledContour<BoolSampledContour>, f64, (f64, f64))> {
    if w == 0 || h == 0 { return None; }
    let scale = [0.5, 0.5, 0.25, 0.75, 1.0, 1.5, 2.0][rng.i(if w.max(h) > 32 { 5 } else { 7 }) as usize];   // the result stays within 64x64
    let off = ([0.0, 0.0, 0.25, 0.5][rng.i(4) as usize], [0.0, 0.0, 0.25, 0.5][rng.i(4) as usize]);
    Some((ScaledContour::from_contour(BoolSampledContour(ContourSize(w, h), bm.to_vec()), scale, off), scale, off))
}

fn rows_of<C: SampledContour>(c: &C) -> Vec<Vec<Range<f64>>> {
    (0..c.contour_size().height()).map(|y| c.intercepts_on_line(y as f64).into_iter().collect()).collect()
}

// ------------------------------------------------------------------------------------------------ the property on the real code

/// the property on the real code against brute force, for any contour that samples to the bitmap `bm`
pub fn check<C: SampledContour>(contour: &C, bm: &[bool], w: usize, h: usize) -> Option<(String, String)> {
    let mut want = vec![];
    for y in 0..=(h as i64) { for x in 0..=(w as i64) {
        let (tl, tr, bl, br) = (sample(bm, w, h, x - 1, y - 1), sample(bm, w, h, x, y - 1), sample(bm, w, h, x - 1, y), sample(bm, w, h, x, y));
        let v = (tl as usize) | ((tr as usize) << 1) | ((bl as usize) << 2) | ((br as usize) << 3);
        if v != 0 && v != 15 { want.push((x as usize, y as usize, v)); }
    } }
    let got: Vec<(usize, usize, usize)> = contour.edge_cell_iterator().map(|(p, c)| (p.0, p.1, cell_value(c))).collect();
    if got != want { return Some(("scan_cells".into(), format!("got {:?} want {:?}", got, want))); }
    let loops = trace_contours_from_samples(contour);
    let size = ContourSize(w, h);
    let mut used: HashMap<ContourEdge, usize> = HashMap::new();
    for l in &loops {
        if l.len() < 2 || l[0] != l[l.len() - 1] { return Some(("loop_not_closed".into(), format!("{:?}", l))); }
        for e in &l[..l.len() - 1] { *used.entry(*e).or_insert(0) += 1; }
        for wv in l.windows(2) {
            let a: flo_curves::Coord2 = wv[0].to_coords(size);
            let b: flo_curves::Coord2 = wv[1].to_coords(size);
            let d2 = (a.0 - b.0) * (a.0 - b.0) + (a.1 - b.1) * (a.1 - b.1);
            if d2 > 1.0001 || d2 == 0.0 { return Some(("loop_not_adjacent".into(), format!("{:?} {:?}", a, b))); }
        }
    }
    for (e, n) in &used {
        if *n != 1 { return Some(("edge_used_twice".into(), format!("{:?} used {} times", e, n))); }
        let (p, q) = e.to_contour_coords(size);
        let (sa, sb) = (sample(bm, w, h, p.0 as i64 - 1, p.1 as i64 - 1), sample(bm, w, h, q.0 as i64 - 1, q.1 as i64 - 1));
        if sa == sb { return Some(("edge_not_on_boundary".into(), format!("{:?} ({:?},{:?})", e, p, q))); }
    }
    let mut boundary = 0;
    for y in -1..=(h as i64) { for x in -1..=(w as i64) {
        if sample(bm, w, h, x, y) != sample(bm, w, h, x + 1, y) { boundary += 1; }
        if sample(bm, w, h, x, y) != sample(bm, w, h, x, y + 1) { boundary += 1; }
    } }
    if boundary != used.len() { return Some(("boundary_edge_missed".into(), format!("boundary edges {} used {}", boundary, used.len()))); }
    None
}

/// run-length encoding of one row of samples: the maximal runs of inside samples
fn rle(row: &[bool]) -> Vec<(usize, usize)> {
    let mut v = vec![];
    let mut x = 0;
    while x < row.len() { if row[x] { let a = x; while x < row.len() && row[x] { x += 1; } v.push((a, x)); } else { x += 1; } }
    v
}

/// the rounding stage on the real code: `rounded_intercepts_on_line` must return exactly the maximal runs of inside samples
fn check_rounding(c: &FracContour, bm: &[bool], w: usize, h: usize) -> Option<(String, String)> {
    for y in 0..h {
        let got: Vec<(usize, usize)> = c.rounded_intercepts_on_line(y as f64).into_iter().map(|r| (r.start, r.end)).collect();
        let want = rle(&bm[y * w..(y + 1) * w]);
        if got != want { return Some(("rounded_runs".into(), format!("line {} intercepts {:?} rounded {:?} want {:?}", y, c.1[y], got, want))); }
    }
    None
}

fn rows_desc(rows: &[Vec<Range<f64>>]) -> String { format!("{:?}", rows).replace(' ', "") }

fn sizes(thorough: bool) -> Vec<(usize, usize)> {
    let mut v = vec![(0, 0), (1, 0), (0, 1), (1, 1), (2, 1), (1, 2), (2, 2), (3, 1), (1, 3), (3, 2), (2, 3), (3, 3), (4, 2), (2, 4), (4, 3), (3, 4), (5, 1), (6, 1)];
    if thorough { v.push((4, 4)); v.push((5, 3)); v.push((5, 4)); v.push((4, 5)); }
    v
}

fn random_bitmap(rng: &mut Rng) -> (Vec<bool>, usize, usize, &'static str) {
    let w = 1 + rng.i(64) as usize;
    let h = 1 + rng.i(64) as usize;
    let kind = rng.i(9);
    let mut bm = vec![false; w * h];
    let name = match kind {
        0 => { for b in bm.iter_mut() { *b = true; } "full" }
        1 => "empty",
        2 => { for y in 0..h { for x in 0..w { bm[y * w + x] = (x + y) % 2 == 0; } } "checkerboard" }
        3 => { let (x, y) = (rng.i(w as u64) as usize, rng.i(h as u64) as usize); bm[y * w + x] = true; "single_pixel" }
        4 => { let p = rng.f(); for b in bm.iter_mut() { *b = rng.f() < p; } "noise" }
        5 => { // blobs
            let (cx, cy, r) = (rng.r(0.0, w as f64), rng.r(0.0, h as f64), rng.r(1.0, 30.0));
            for y in 0..h { for x in 0..w { let d = ((x as f64 - cx).powi(2) + (y as f64 - cy).powi(2)).sqrt(); bm[y * w + x] = d < r && d > r * 0.4; } } "ring" }
        6 => { for y in 0..h { for x in 0..w { bm[y * w + x] = (x / 2 + y / 3) % 2 == 0; } } "blocks" }
        7 => { // long runs with short gaps: many ranges per row once the runs are split
            for y in 0..h { let mut x = 0; while x < w { let run = 1 + rng.i(9) as usize; for k in x..(x + run).min(w) { bm[y * w + k] = true; } x += run + 1 + rng.i(2) as usize; } } "long_runs" }
        _ => { let p = rng.f(); for y in 0..h { for x in 0..w { bm[y * w + x] = x > 0 && y > 0 && x + 1 < w && y + 1 < h && rng.f() < p; } } "noise_with_border" }
    };
    (bm, w, h, name)
}

// ------------------------------------------------------------------------------------------------ correspondence

const K_U8: u32 = 1;
const K_FRAC_MAX: u32 = 2;
const K_FRAC: u32 = 4;
const K_SCALED: u32 = 8;
const K_ALL: u32 = 15;

/// transcript lines for one bitmap: the bool contour always, the other kinds by the mask
fn corr_bitmap(rng: &mut Rng, bm: &[bool], w: usize, h: usize, nontrivial: bool, stats: &mut Stats, round_lines: bool, kinds: u32) {
    let size = ContourSize(w, h);
    let emit = |kind: &str, head: String, r: Result<(Cells, Vec<Vec<ContourEdge>>), String>, size: ContourSize, stats: &mut Stats| {
        match r {
            Ok((cells, loops)) => { let l = format!("{} | {}", head, outputs(&cells, &loops, size)); stats.case(&l, nontrivial); println!("{}", l); }
            Err(e) => { stats.fail("C17", &format!("{}.panic", kind), &format!("{} {}", head, e)); }
        }
        stats.count(&format!("kind.{}", kind));
    };
    // bool
    let c = BoolSampledContour(size, bm.to_vec());
    emit("bool", format!("C17 bitmap D #{} #{} {}", w, h, bits(bm)), scan_trace(&c), size, stats);
    // u8 (value 1, or mixed non-zero values)
    if kinds & K_U8 != 0 {
        let (v, s) = u8_samples(bm, rng.i(2) * (1 + rng.i(1000)));
        let c = U8SampledContour(size, v);
        emit("u8", format!("C17 bitmap_u8 D #{} #{} {}", w, h, s), scan_trace(&c), size, stats);
    }
    // fractional intercepts, both variants
    for st in [None, Some(random_style(rng))] {
        if kinds & (if st.is_none() { K_FRAC_MAX } else { K_FRAC }) == 0 { continue; }
        let rows = frac_rows(rng, bm, w, h, st);
        for r in &rows { classify_row(r, "frac", stats); }
        let c = FracContour(size, rows);
        emit(if st.is_none() { "frac_max_split" } else { "frac" }, format!("C17 frac D #{} #{} {}{}", w, h, bits(bm), rows_text(&c.1)), scan_trace(&c), size, stats);
        if round_lines { for y in 0..h { round_line(&c.1[y], "valid", stats); } }
    }
    // the library's scaled wrapper
    if kinds & K_SCALED == 0 { return; }
    if let Some((c, scale, off)) = scaled_of(rng, bm, w, h) {
        let rows = rows_of(&c);
        let ContourSize(sw, sh) = c.contour_size();
        let sbm = sample_rows(&rows, sw);
        for r in &rows { classify_row(r, "scaled", stats); }
        emit("scaled", format!("C17 scaled D #{} #{} {}{}", sw, sh, bits(&sbm), rows_text(&rows)), scan_trace(&c), c.contour_size(), stats);
        stats.count(&format!("scaled.scale_{}_offset_{}_{}", scale, off.0, off.1));
    }
}

/// one line of the rounding stage: input ranges and what `rounded_intercepts_on_line` makes of them
fn round_line(row: &[Range<f64>], class: &str, stats: &mut Stats) {
    let c = FracContour(ContourSize(64, 1), vec![row.to_vec()]);
    match catch_unwind(AssertUnwindSafe(|| c.rounded_intercepts_on_line(0.0))) {
        Ok(out) => {
            let mut l = format!("C17 round D{} | #{}", rows_text(&c.1), out.len());
            for r in out.iter() { l += &format!(" #{} #{}", r.start, r.end); }
            stats.case(&l, row.len() >= 2);
            println!("{}", l);
        }
        Err(_) => stats.fail("C17", "round.panic", &rows_desc(&c.1)),
    }
    stats.count(&format!("round.{}", class));
    if class == "valid" { classify_row(row, "round", stats); }
}

/// range lists that need not respect the contract (overlapping, nested, unsorted, inverted, negative): the model of the
/// rounding stage is literal, so it has to agree with the implementation on these too
fn unconstrained_row(rng: &mut Rng) -> Vec<Range<f64>> {
    let n = rng.i(7) as usize;
    let sorted = rng.b();
    let mut v: Vec<Range<f64>> = (0..n).map(|_| { let a = rng.dyadic(-2, 12, 4); let b = if rng.i(5) == 0 { rng.dyadic(-2, 12, 4) } else { a + rng.dyadic(0, 4, 4) }; a..b }).collect();
    if sorted { v.sort_by(|a, b| a.start.partial_cmp(&b.start).unwrap()); }
    v
}

pub fn corr(seed: u64, n: u64) {
    let mut rng = Rng(seed ^ 0xC17);
    let mut stats = Stats::new();
    let thorough = n >= 100000;
    std::panic::set_hook(Box::new(|_| {}));
    for (w, h) in sizes(thorough) {
        let nbits = w * h;
        let step: u64 = if nbits > 16 { 1 + (seed % 3) } else { 1 };   // 5x4: every 1st..3rd bitmap by seed, still > 300k
        let mut b: u64 = 0;
        while b < (1u64 << nbits) {
            let bm: Vec<bool> = (0..nbits).map(|i| (b >> i) & 1 == 1).collect();
            // the largest sizes: every bitmap as a bool contour, every 32nd also in the other kinds
            let kinds = if nbits <= 16 || (b / step) % 32 == seed % 32 { K_ALL } else { 0 };
            corr_bitmap(&mut rng, &bm, w, h, b != 0 && b + 1 != (1u64 << nbits), &mut stats, h == 1, kinds);
            stats.count(&format!("exhaustive.{}x{}", w, h));
            b += step;
        }
    }
    for i in 0..(n / 100) {
        let (bm, w, h, name) = random_bitmap(&mut rng);
        // large bitmaps: the bool contour and one of the other kinds in turn (the models are quadratic in the number of edges);
        // thorough: on every second bitmap
        let kinds = if thorough && i % 2 == 1 { 0 } else { 1 << ((if thorough { i / 2 } else { i }) % 4) };
        corr_bitmap(&mut rng, &bm, w, h, name != "full" && name != "empty", &mut stats, true, kinds);
        stats.count(&format!("random.{}", name));
    }
    // the rounding stage on its own: every row of width <= 8 in several disguises, then lists outside the contract
    for w in 0..=8usize {
        for b in 0u64..(1u64 << w) {
            let row: Vec<bool> = (0..w).map(|i| (b >> i) & 1 == 1).collect();
            round_line(&frac_row_max_split(&row), "valid", &mut stats);
            for _ in 0..2 { let st = random_style(&mut rng); round_line(&frac_row(&mut rng, &row, st), "valid", &mut stats); }
        }
    }
    for _ in 0..(n / 20) { round_line(&unconstrained_row(&mut rng), "outside_contract", &mut stats); }
    stats.print("C17", "corr");
}

// ------------------------------------------------------------------------------------------------ search

/// canonical form of the loops (the hash map's iteration order decides start, direction and order of the loops)
fn canon_loops(loops: &[Vec<ContourEdge>], size: ContourSize) -> Vec<Vec<usize>> {
    let mut out: Vec<Vec<usize>> = loops.iter().map(|l| {
        let ids: Vec<usize> = l.iter().map(|e| edge_id(*e, size)).collect();
        let body = &ids[..ids.len().saturating_sub(1)];
        let rot = |v: Vec<usize>| -> Vec<usize> { if v.is_empty() { return v; } let m = (0..v.len()).min_by_key(|i| v[*i]).unwrap(); let mut r = v[m..].to_vec(); r.extend_from_slice(&v[..m]); r };
        let a = rot(body.to_vec());
        let mut rev = body.to_vec(); rev.reverse();
        let b = rot(rev);
        if a.get(1) <= b.get(1) { a } else { b }
    }).collect();
    out.sort();
    out
}

type Obs = (Cells, Vec<Vec<usize>>);

fn observe<C: SampledContour>(c: &C, size: ContourSize) -> Option<Obs> { scan_trace(c).ok().map(|(cl, lp)| (cl, canon_loops(&lp, size))) }

/// one contour of one kind: the oracle's verdict, then (when `reference` is given) equality with what the bool contour gave
fn run_kind(kind: &str, desc: &str, detail: String, nontrivial: bool, stats: &mut Stats, reference: Option<&mut Option<Obs>>,
            f: &dyn Fn() -> (Option<(String, String)>, Option<Obs>)) {
    let repr = format!("{} {} {}", kind, desc, detail);
    stats.case(&repr, nontrivial);
    stats.count(&format!("kind.{}", kind));
    let pre = if kind == "bool" { String::new() } else { format!("{}.", kind) };
    match catch_unwind(AssertUnwindSafe(|| f())) {
        Ok((None, Some(res))) => {
            if let Some(reference) = reference {
                match reference {
                    None => *reference = Some(res),
                    Some(r) => if *r != res { stats.fail("C17", &format!("{}differs_from_bool", pre), &format!("{} got {:?} bool gave {:?}", repr, res, r)); }
                }
            }
        }
        Ok((None, None)) => {}
        Ok((Some((key, d)), _)) => stats.fail("C17", &format!("{}{}", pre, key), &format!("{} {}", repr, d)),
        Err(_) => stats.fail("C17", &format!("{}panic", pre), &repr),
    }
}

/// all kinds of contour for one bitmap against the brute-force oracle, and against each other
fn search_bitmap(rng: &mut Rng, bm: &[bool], w: usize, h: usize, nontrivial: bool, stats: &mut Stats, all_kinds: bool) {
    let size = ContourSize(w, h);
    let desc = format!("{}x{} {}", w, h, bits(bm));
    let mut reference: Option<Obs> = None;
    // bool
    {
        let c = BoolSampledContour(size, bm.to_vec());
        run_kind("bool", &desc, String::new(), nontrivial, stats, Some(&mut reference), &|| (check(&c, bm, w, h), observe(&c, size)));
    }
    if !all_kinds { return; }
    // u8
    {
        let (v, s) = u8_samples(bm, rng.i(2) * (1 + rng.i(1000)));
        let c = U8SampledContour(size, v);
        run_kind("u8", &desc, s, nontrivial, stats, Some(&mut reference), &|| (check(&c, bm, w, h), observe(&c, size)));
    }
    // fractional intercepts
    for st in [None, Some(random_style(rng))] {
        let rows = frac_rows(rng, bm, w, h, st);
        for r in &rows { classify_row(r, "frac", stats); }
        let kind = if st.is_none() { "frac_max_split" } else { "frac" };
        if sample_rows(&rows, w) != bm { stats.fail("C17", "generator", &format!("{} rows {} do not sample to the bitmap (harness defect)", desc, rows_desc(&rows))); continue; }
        let c = FracContour(size, rows);
        run_kind(kind, &desc, rows_desc(&c.1), nontrivial, stats, Some(&mut reference), &|| {
            if let Some(r) = check_rounding(&c, bm, w, h) { return (Some(r), None); }
            (check(&c, bm, w, h), observe(&c, size)) });
    }
    // scaled wrapper: the bitmap its own intercepts sample to is the reference
    if let Some((c, scale, off)) = scaled_of(rng, bm, w, h) {
        let rows = rows_of(&c);
        let ContourSize(sw, sh) = c.contour_size();
        let sbm = sample_rows(&rows, sw);
        for r in &rows { classify_row(r, "scaled", stats); }
        run_kind("scaled", &desc, format!("scale {} offset {:?} rows {}", scale, off, rows_desc(&rows)), nontrivial, stats, None, &|| {
            let lib_bm: Vec<bool> = (0..sw * sh).map(|i| contour_point_is_inside(&c, ContourPosition(i % sw, i / sw))).collect();
            if lib_bm != sbm { return (Some(("point_is_inside".into(), format!("contour_point_is_inside {} sampled {}", bits(&lib_bm), bits(&sbm)))), None); }
            (check(&c, &sbm, sw, sh), None) });
    }
}

pub fn search(seed: u64, n: u64) {
    let mut rng = Rng(seed ^ 0x5EA2C17);
    let mut stats = Stats::new();
    let thorough = n >= 100000;
    std::panic::set_hook(Box::new(|_| {}));
    let mut szs = sizes(thorough);
    if !thorough { szs.push((4, 4)); }
    for (w, h) in szs {
        let nbits = w * h;
        for b in 0u64..(1u64 << nbits) {
            let bm: Vec<bool> = (0..nbits).map(|i| (b >> i) & 1 == 1).collect();
            search_bitmap(&mut rng, &bm, w, h, b != 0 && b + 1 != (1u64 << nbits), &mut stats, nbits <= 16 || b % 16 == seed % 16);
        }
        stats.count(&format!("exhaustive.{}x{}", w, h));
    }
    for _ in 0..(n / 20) {
        let (bm, w, h, name) = random_bitmap(&mut rng);
        search_bitmap(&mut rng, &bm, w, h, name != "full" && name != "empty", &mut stats, true);
        stats.count(&format!("random.{}", name));
    }
    stats.print("C17", "search");
}
