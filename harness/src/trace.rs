//! Trace correspondence for C01 / C11 / C12 (hook H2): every ray cast by `set_edge_kinds_by_ray_casting` with its
//! groups of collisions and the edge kinds it assigned, one line per ray, for the Lean model to replay.
use crate::util::*;
use flo_curves::arc::*;
use flo_curves::bezier::path::verif_trace::{self, Event};
use flo_curves::bezier::path::*;
use flo_curves::*;

pub type P = SimpleBezierPath;

pub fn polygon(pts: &[Coord2]) -> P {
    let mut b = BezierPathBuilder::<P>::start(pts[0]);
    for q in &pts[1..] { b = b.line_to(*q); }
    b.line_to(pts[0]).build()
}

/// circles, star-shaped polygons, grid rectangles (sharing edges/corners by construction), smooth blobs; either direction
pub fn rand_shape(rng: &mut Rng) -> (P, &'static str) {
    match rng.i(5) {
        0 => (Circle::new(Coord2(rng.r(30.0, 70.0), rng.r(30.0, 70.0)), rng.r(5.0, 25.0)).to_path::<P>(), "circle"),
        1 => {
            let (cx, cy) = (rng.r(30.0, 70.0), rng.r(30.0, 70.0));
            let n = 3 + rng.i(6) as usize;
            let mut pts = vec![];
            for k in 0..n { let a = (k as f64 + rng.r(0.1, 0.9)) / n as f64 * std::f64::consts::TAU; let r = rng.r(8.0, 28.0); pts.push(Coord2(cx + r * a.cos(), cy + r * a.sin())); }
            if rng.b() { pts.reverse(); }
            (polygon(&pts), "polygon")
        }
        2 | 3 => {
            let x0 = 10.0 * rng.i(6) as f64 + 10.0; let y0 = 10.0 * rng.i(6) as f64 + 10.0;
            let w = 10.0 * (1 + rng.i(3)) as f64; let h = 10.0 * (1 + rng.i(3)) as f64;
            let mut pts = vec![Coord2(x0, y0), Coord2(x0 + w, y0), Coord2(x0 + w, y0 + h), Coord2(x0, y0 + h)];
            if rng.b() { pts.reverse(); }
            let s = rng.i(4) as usize; pts.rotate_left(s);
            (polygon(&pts), "grid_rectangle")
        }
        _ => {
            let c = Circle::new(Coord2(rng.r(30.0, 70.0), rng.r(30.0, 70.0)), rng.r(8.0, 20.0)).to_path::<P>();
            let (sp, pts) = c; let k = rng.r(0.8, 1.25);
            ((sp, pts.into_iter().map(|(a, b, c)| (a * k + c * (1.0 - k), b * k + c * (1.0 - k), c)).collect()), "blob")
        }
    }
}

fn emit(prop: &str, op: usize, events: &[Event], stats: &mut Stats) {
    // split per ray
    let mut i = 0;
    while i < events.len() {
        if let Event::RayStart(_, _) = &events[i] {
            let mut j = i + 1;
            let mut groups: Vec<&Vec<(usize, usize, u32, i32, f64, bool)>> = vec![];
            let mut sets: Vec<(usize, usize, bool)> = vec![];
            while j < events.len() {
                match &events[j] {
                    Event::RayStart(_, _) => break,
                    Event::Group(g) => groups.push(g),
                    Event::Set(s, e, x) => sets.push((*s, *e, *x)),
                    Event::Op(_, _) => break,
                }
                j += 1;
            }
            let mut line = format!("{} ray D #{} #{}", prop, op, groups.len());
            let mut multi = false;
            for g in &groups {
                if g.len() > 1 { multi = true; }
                line += &format!(" #{}", g.len());
                for (s, e, label, side, t, isx) in g.iter() {
                    let near_end = *t < 0.01 || *t > 0.99;
                    line += &format!(" #{} #{} #{} #{} #{} #{}", s, e, label, side, near_end as u8, *isx as u8);
                }
            }
            line += &format!(" | #{}", sets.len());
            for (s, e, x) in &sets { line += &format!(" #{} #{} #{}", s, e, *x as u8); }
            stats.case(&line, groups.len() >= 2);
            stats.count(&format!("rays.op{}", op));
            if multi { stats.count("rays.with_overlapping_group"); }
            stats.add("groups", groups.len() as u64);
            stats.add("set_events", sets.len() as u64);
            println!("{}", line);
            i = j;
        } else { i += 1; }
    }
}

/// expression trees for path_combine: leaves of 0..2 shapes, operations with 0..3 operands, depth <= 3
enum Tree { Path(Vec<P>), Rem(Vec<P>), Add(Vec<Tree>), Sub(Vec<Tree>), Int(Vec<Tree>) }

fn gen_tree(rng: &mut Rng, depth: u32) -> Tree {
    let leaf = |rng: &mut Rng| -> Vec<P> { let k = match rng.i(8) { 0 => 0, 1 => 2, _ => 1 }; (0..k).map(|_| rand_shape(rng).0).collect() };
    if depth == 0 || rng.i(3) == 0 {
        if rng.i(4) == 0 { Tree::Rem(leaf(rng)) } else { Tree::Path(leaf(rng)) }
    } else {
        let k = match rng.i(10) { 0 => 0, 1 => 1, 2..=6 => 2, _ => 3 };
        let ops: Vec<Tree> = (0..k).map(|_| gen_tree(rng, depth - 1)).collect();
        match rng.i(3) { 0 => Tree::Add(ops), 1 => Tree::Sub(ops), _ => Tree::Int(ops) }
    }
}

fn to_combine(t: &Tree) -> PathCombine<P> {
    match t {
        Tree::Path(p) => PathCombine::Path(p.clone()),
        Tree::Rem(p) => PathCombine::RemoveInteriorPoints(p.clone()),
        Tree::Add(o) => PathCombine::Add(o.iter().map(to_combine).collect()),
        Tree::Sub(o) => PathCombine::Subtract(o.iter().map(to_combine).collect()),
        Tree::Int(o) => PathCombine::Intersect(o.iter().map(to_combine).collect()),
    }
}

fn ser_tree(t: &Tree, out: &mut String) {
    match t {
        Tree::Path(p) => *out += &format!(" P {:016x}", verif_trace::fingerprint(p)),
        Tree::Rem(p) => *out += &format!(" R {:016x}", verif_trace::fingerprint(p)),
        Tree::Add(o) | Tree::Sub(o) | Tree::Int(o) => {
            *out += &format!(" {} #{}", match t { Tree::Add(_) => "A", Tree::Sub(_) => "S", _ => "I" }, o.len());
            for c in o { ser_tree(c, out); }
        }
    }
}

fn tree_depth(t: &Tree) -> usize { match t { Tree::Path(_) | Tree::Rem(_) => 0, Tree::Add(o) | Tree::Sub(o) | Tree::Int(o) => 1 + o.iter().map(tree_depth).max().unwrap_or(0) } }

/// path_combine on a random expression tree: the operations it enters (hook H4) for the model of `path_combine`, and
/// every classification pass of every operation replayed with that operation's predicate
fn corr_combine(rng: &mut Rng, stats: &mut Stats) {
    let tree = loop { let t = gen_tree(rng, 3); if tree_depth(&t) >= 1 || rng.i(10) == 0 { break t; } };
    let pc = to_combine(&tree);
    let r = std::panic::catch_unwind(move || { verif_trace::start(); path_combine::<P>(pc, 0.01); verif_trace::take() });
    let ev = match r { Ok(e) => e, Err(_) => { verif_trace::take(); stats.count("panicked_operations"); return; } };
    let mut ser = String::new();
    ser_tree(&tree, &mut ser);
    let ops: Vec<(usize, &'static str, &Vec<u64>)> = ev.iter().enumerate().filter_map(|(k, e)| if let Event::Op(name, fps) = e { Some((k, *name, fps)) } else { None }).collect();
    let mut line = format!("C11 combine D{} | {:016x} #{}", ser, verif_trace::fingerprint(&Vec::<P>::new()), ops.len());
    for (_, name, fps) in &ops { line += &format!(" {} #{}", name, fps.len()); for f in fps.iter() { line += &format!(" {:016x}", f); } }
    stats.case(&line, ops.len() >= 2);
    stats.count(&format!("combine.depth{}.ops{}", tree_depth(&tree), ops.len().min(6)));
    println!("{}", line);
    for (i, (k, name, _)) in ops.iter().enumerate() {
        let hi = if i + 1 < ops.len() { ops[i + 1].0 } else { ev.len() };
        let pred = match *name { "sub" => 1, "intersect" => 2, "remove_interior" => 3, _ => 4 };
        emit("C11", pred, &ev[*k + 1..hi], stats);
    }
}

pub fn corr(prop: &str, seed: u64, n: u64) {
    let mut rng = Rng(seed ^ 0x7ACE ^ fnv(prop));
    let mut stats = Stats::new();
    std::panic::set_hook(Box::new(|_| {}));
    for it in 0..n {
        if prop == "C11" && it % 2 == 1 { corr_combine(&mut rng, &mut stats); continue; }
        let (a, ka) = rand_shape(&mut rng);
        let (b, kb) = rand_shape(&mut rng);
        let (c, _) = rand_shape(&mut rng);
        stats.count(&format!("shape.{}", ka)); stats.count(&format!("shape.{}", kb));
        let (va, vb, vc) = (vec![a.clone()], vec![b.clone()], vec![c.clone()]);
        let ops: Vec<usize> = match prop { "C01" => vec![0, 1, 2], "C11" => vec![10, 11, 4], _ => vec![3, 12] };
        for op in ops {
            let (va, vb, vc) = (va.clone(), vb.clone(), vc.clone());
            let r = std::panic::catch_unwind(move || {
                verif_trace::start();
                match op {
                    0 => { path_add::<P>(&va, &vb, 0.01); }
                    1 => { path_sub::<P>(&va, &vb, 0.01); }
                    2 => { path_intersect::<P>(&va, &vb, 0.01); }
                    3 => { path_remove_interior_points::<P, P>(&vec![va[0].clone(), vb[0].clone()], 0.01); }
                    12 => { path_remove_overlapped_points::<P, P>(&vec![va[0].clone(), vb[0].clone()], 0.01); }
                    4 => { path_add_chain::<P>(&vec![va, vb, vc], 0.01); }
                    10 => { path_cut::<P>(&va, &vb, 0.01); }
                    _ => { path_full_intersect::<P>(&va, &vb, 0.01); }
                }
                verif_trace::take()
            });
            let ev = match r { Ok(e) => e, Err(_) => { verif_trace::take(); stats.count("panicked_operations"); continue; } };
            match op {
                0 | 1 | 2 | 3 | 4 => emit(prop, op, &ev, &mut stats),
                12 => emit(prop, 0, &ev, &mut stats),    // remove_overlapped uses the add predicate
                _ => {
                    // cut / full_intersect: first pass classifies by intersect, after reset_edge_kinds by subtract (a graph with
                    // swapped operands follows for full_intersect). The passes are separated where the ray target restarts from
                    // the first uncategorised edge: replay each ray with the predicate of its pass. A pass boundary is where a
                    // RayStart targets an edge that was already a target before.
                    let mut seen = std::collections::HashSet::new();
                    let mut pass = 0usize;
                    let mut start = 0usize;
                    let mut chunks: Vec<(usize, usize, usize)> = vec![];
                    for (k, e) in ev.iter().enumerate() {
                        if let Event::RayStart(s, ei) = e {
                            if !seen.insert((*s, *ei)) { chunks.push((pass, start, k)); pass += 1; start = k; seen.clear(); seen.insert((*s, *ei)); }
                        }
                    }
                    chunks.push((pass, start, ev.len()));
                    for (pass, lo, hi) in chunks {
                        // pass 0: intersect; pass 1: subtract; (full_intersect) pass 2: subtract on the swapped graph
                        let pred = if pass == 0 { 2 } else { 1 };
                        emit(prop, pred, &ev[lo..hi], &mut stats);
                        stats.count(&format!("derived.pass{}", pass));
                    }
                }
            }
        }
    }
    stats.print(prop, "corr");
}
