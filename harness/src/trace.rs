//! Trace correspondence for C01 / C11 / C12 (hook H2): every ray cast by `set_edge_kinds_by_ray_casting` with its
//! groups of collisions and the edge kinds it assigned, one line per ray, for the Lean model to replay.
use crate::util::*;
use flo_curves::arc::*;
use flo_curves::bezier::path::verif_trace::{self, Event};
use flo_curves::bezier::path::*;
use flo_curves::*;

pub type P = SimpleBezierPath;

pub fn polygon(pts: &[Coord2]) -> P {
    let mut b = BezierPathBuilder::<P>::start(pts[0]);
    for q in &pts[1..] { b = b.line_to(*q); }
    b.line_to(pts[0]).build()
}

/// circles, star-shaped polygons, grid rectangles (sharing edges/corners by construction), smooth blobs; either direction
pub fn rand_shape(rng: &mut Rng) -> (P, &'static str) {
    match rng.i(5) {
        0 => (Circle::new(Coord2(rng.r(30.0, 70.0), rng.r(30.0, 70.0)), rng.r(5.0, 25.0)).to_path::<P>(), "circle"),
        1 => {
            let (cx, cy) = (rng.r(30.0, 70.0), rng.r(30.0, 70.0));
            let n = 3 + rng.i(6) as usize;
            let mut pts = vec![];
            for k in 0..n { let a = (k as f64 + rng.r(0.1, 0.9)) / n as f64 * std::f64::consts::TAU; let r = rng.r(8.0, 28.0); pts.push(Coord2(cx + r * a.cos(), cy + r * a.sin())); }
            if rng.b() { pts.reverse(); }
            (polygon(&pts), "polygon")
        }
        2 | 3 => {
            let x0 = 10.0 * rng.i(6) as f64 + 10.0; let y0 = 10.0 * rng.i(6) as f64 + 10.0;
            let w = 10.0 * (1 + rng.i(3)) as f64; let h = 10.0 * (1 + rng.i(3)) as f64;
            let mut pts = vec![Coord2(x0, y0), Coord2(x0 + w, y0), Coord2(x0 + w, y0 + h), Coord2(x0, y0 + h)];
            if rng.b() { pts.reverse(); }
            let s = rng.i(4) as usize; pts.rotate_left(s);
            (polygon(&pts), "grid_rectangle")
        }
        _ => {
            let c = Circle::new(Coord2(rng.r(30.0, 70.0), rng.r(30.0, 70.0)), rng.r(8.0, 20.0)).to_path::<P>();
            let (sp, pts) = c; let k = rng.r(0.8, 1.25);
            ((sp, pts.into_iter().map(|(a, b, c)| (a * k + c * (1.0 - k), b * k + c * (1.0 - k), c)).collect()), "blob")
        }
    }
}

fn emit(prop: &str, op: usize, events: &[Event], stats: &mut Stats) {
    // split per ray
    let mut i = 0;
    while i < events.len() {
        if let Event::RayStart(_, _) = &events[i] {
            let mut j = i + 1;
            let mut groups: Vec<&Vec<(usize, usize, u32, i32, f64, bool)>> = vec![];
            let mut sets: Vec<(usize, usize, bool)> = vec![];
            while j < events.len() {
                match &events[j] {
                    Event::RayStart(_, _) => break,
                    Event::Group(g) => groups.push(g),
                    Event::Set(s, e, x) => sets.push((*s, *e, *x)),
                }
                j += 1;
            }
            let mut line = format!("{} ray D #{} #{}", prop, op, groups.len());
            let mut multi = false;
            for g in &groups {
                if g.len() > 1 { multi = true; }
                line += &format!(" #{}", g.len());
                for (s, e, label, side, t, isx) in g.iter() {
                    let near_end = *t < 0.01 || *t > 0.99;
                    line += &format!(" #{} #{} #{} #{} #{} #{}", s, e, label, side, near_end as u8, *isx as u8);
                }
            }
            line += &format!(" | #{}", sets.len());
            for (s, e, x) in &sets { line += &format!(" #{} #{} #{}", s, e, *x as u8); }
            stats.case(&line, groups.len() >= 2);
            stats.count(&format!("rays.op{}", op));
            if multi { stats.count("rays.with_overlapping_group"); }
            stats.add("groups", groups.len() as u64);
            stats.add("set_events", sets.len() as u64);
            println!("{}", line);
            i = j;
        } else { i += 1; }
    }
}

pub fn corr(prop: &str, seed: u64, n: u64) {
    let mut rng = Rng(seed ^ 0x7ACE ^ fnv(prop));
    let mut stats = Stats::new();
    std::panic::set_hook(Box::new(|_| {}));
    for _ in 0..n {
        let (a, ka) = rand_shape(&mut rng);
        let (b, kb) = rand_shape(&mut rng);
        let (c, _) = rand_shape(&mut rng);
        stats.count(&format!("shape.{}", ka)); stats.count(&format!("shape.{}", kb));
        let (va, vb, vc) = (vec![a.clone()], vec![b.clone()], vec![c.clone()]);
        let ops: Vec<usize> = match prop { "C01" => vec![0, 1, 2], "C11" => vec![10, 11, 4], _ => vec![3, 12] };
        for op in ops {
            let (va, vb, vc) = (va.clone(), vb.clone(), vc.clone());
            let r = std::panic::catch_unwind(move || {
                verif_trace::start();
                match op {
                    0 => { path_add::<P>(&va, &vb, 0.01); }
                    1 => { path_sub::<P>(&va, &vb, 0.01); }
                    2 => { path_intersect::<P>(&va, &vb, 0.01); }
                    3 => { path_remove_interior_points::<P, P>(&vec![va[0].clone(), vb[0].clone()], 0.01); }
                    12 => { path_remove_overlapped_points::<P, P>(&vec![va[0].clone(), vb[0].clone()], 0.01); }
                    4 => { path_add_chain::<P>(&vec![va, vb, vc], 0.01); }
                    10 => { path_cut::<P>(&va, &vb, 0.01); }
                    _ => { path_full_intersect::<P>(&va, &vb, 0.01); }
                }
                verif_trace::take()
            });
            let ev = match r { Ok(e) => e, Err(_) => { verif_trace::take(); stats.count("panicked_operations"); continue; } };
            match op {
                0 | 1 | 2 | 3 | 4 => emit(prop, op, &ev, &mut stats),
                12 => emit(prop, 0, &ev, &mut stats),    // remove_overlapped uses the add predicate
                _ => {
                    // cut / full_intersect: first pass classifies by intersect, after reset_edge_kinds by subtract (a graph with
                    // swapped operands follows for full_intersect). The passes are separated where the ray target restarts from
                    // the first uncategorised edge: replay each ray with the predicate of its pass. A pass boundary is where a
                    // RayStart targets an edge that was already a target before.
                    let mut seen = std::collections::HashSet::new();
                    let mut pass = 0usize;
                    let mut start = 0usize;
                    let mut chunks: Vec<(usize, usize, usize)> = vec![];
                    for (k, e) in ev.iter().enumerate() {
                        if let Event::RayStart(s, ei) = e {
                            if !seen.insert((*s, *ei)) { chunks.push((pass, start, k)); pass += 1; start = k; seen.clear(); seen.insert((*s, *ei)); }
                        }
                    }
                    chunks.push((pass, start, ev.len()));
                    for (pass, lo, hi) in chunks {
                        // pass 0: intersect; pass 1: subtract; (full_intersect) pass 2: subtract on the swapped graph
                        let pred = if pass == 0 { 2 } else { 1 };
                        emit(prop, pred, &ev[lo..hi], &mut stats);
                        stats.count(&format!("derived.pass{}", pass));
                    }
                }
            }
        }
    }
    stats.print(prop, "corr");
}
