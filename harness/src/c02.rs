//! C02: curve_intersects_curve_clip is sound and complete in either argument order.
//! Oracle (own code): recursive subdivision of both curves on their control-polygon boxes down to 2^-16, then 2-D Newton
//! refinement of every surviving candidate (residual < 1e-9).
use crate::shapes::*;
use crate::util::*;
use flo_curves::bezier::*;
use flo_curves::*;

const PROP: &str = "C02";

pub fn to_curve(c: &Cubic) -> Curve<Coord2> { Curve::from_points(c[0], (c[1], c[2]), c[3]) }
pub fn from_curve<C: BezierCurve<Point = Coord2>>(c: &C) -> Cubic { let (a, b) = c.control_points(); [c.start_point(), a, b, c.end_point()] }

fn cbox(c: &Cubic) -> (f64, f64, f64, f64) {
    let (mut x0, mut x1, mut y0, mut y1) = (c[0].0, c[0].0, c[0].1, c[0].1);
    for p in &c[1..] { x0 = x0.min(p.0); x1 = x1.max(p.0); y0 = y0.min(p.1); y1 = y1.max(p.1); }
    (x0, x1, y0, y1)
}
fn boxes_meet(a: &Cubic, b: &Cubic) -> bool {
    let (p, q) = (cbox(a), cbox(b));
    !(p.0 > q.1 || q.0 > p.1 || p.2 > q.3 || q.2 > p.3)
}

/// a crossing of the two curves: parameters, point, |sin| of the angle between the tangents
#[derive(Clone, Copy, Debug)]
pub struct Crossing { pub u: f64, pub v: f64, pub p: Coord2, pub sin: f64 }

fn newton(a: &Cubic, b: &Cubic, mut u: f64, mut v: f64) -> Option<Crossing> {
    for _ in 0..40 {
        let f = bez(a, u) - bez(b, v);
        let (da, db) = (bez_d(a, u), bez_d(b, v));
        let det = cross(db, da); // | da -db |
        if det.abs() < 1e-14 { return None; }
        // solve da*du - db*dv = f
        let du = cross(db, f) / det;
        let dv = cross(da, f) / det;
        u -= du; v -= dv;
        if !(u > -0.5 && u < 1.5 && v > -0.5 && v < 1.5) { return None; }
        if du.abs() < 1e-16 && dv.abs() < 1e-16 { break; }
    }
    if !(u >= 0.0 && u <= 1.0 && v >= 0.0 && v <= 1.0) { return None; }
    let (pa, pb) = (bez(a, u), bez(b, v));
    if dist(pa, pb) >= 1e-9 { return None; }
    let (da, db) = (bez_d(a, u), bez_d(b, v));
    let (la, lb) = (len(da), len(db));
    let sin = if la == 0.0 || lb == 0.0 { 0.0 } else { (cross(da, db) / (la * lb)).abs() };
    Some(Crossing { u, v, p: pa, sin })
}

/// all crossings of two cubics, or None if the candidate set explodes (overlapping / nearly coincident curves)
pub fn crossings(a: &Cubic, b: &Cubic) -> Option<Vec<Crossing>> {
    let mut level: Vec<(Cubic, f64, Cubic, f64)> = vec![(*a, 0.0, *b, 0.0)];
    let mut w = 1.0;
    for _ in 0..16 {
        let mut next = Vec::with_capacity(level.len() * 2);
        for (ca, ta, cb, tb) in &level {
            if !boxes_meet(ca, cb) { continue; }
            let (a1, a2) = split(ca, 0.5);
            let (b1, b2) = split(cb, 0.5);
            let h = w / 2.0;
            for (x, tx) in [(a1, *ta), (a2, *ta + h)] { for (y, ty) in [(b1, *tb), (b2, *tb + h)] { if boxes_meet(&x, &y) { next.push((x, tx, y, ty)); } } }
        }
        w /= 2.0;
        level = next;
        if level.len() > 4000 { return None; }
    }
    let mut out: Vec<Crossing> = vec![];
    for (_, ta, _, tb) in &level {
        if let Some(c) = newton(a, b, ta + w / 2.0, tb + w / 2.0) {
            if !out.iter().any(|o| (o.u - c.u).abs() < 1e-7 && (o.v - c.v).abs() < 1e-7) { out.push(c); }
        }
    }
    Some(out)
}

// ------------------------------------------------------------------------------------------------ generators

fn rp(rng: &mut Rng) -> Coord2 { Coord2(rng.r(0.0, 100.0), rng.r(0.0, 100.0)) }

pub fn gen_cubic(rng: &mut Rng, kind: &str) -> Cubic {
    let mut p = [rp(rng), rp(rng), rp(rng), rp(rng)];
    match kind {
        "near_linear" => { let d = p[3] - p[0]; let n = Coord2(-d.1, d.0) * 0.02; p[1] = p[0] + d * 0.3 + n * rng.r(-1.0, 1.0); p[2] = p[0] + d * 0.7 + n * rng.r(-1.0, 1.0); }
        "s_shaped" => { let d = p[3] - p[0]; let n = Coord2(-d.1, d.0) * rng.r(0.2, 0.8); p[1] = p[0] + d * 0.3 + n; p[2] = p[0] + d * 0.7 - n; }
        "looped" => { let d = p[3] - p[0]; let n = Coord2(-d.1, d.0) * rng.r(0.5, 1.5); p[1] = p[0] + d * rng.r(1.2, 2.0) + n; p[2] = p[0] - d * rng.r(0.2, 1.0) + n; }
        _ => {}
    }
    for q in p.iter_mut() { *q = Coord2(q.0.max(0.0).min(100.0), q.1.max(0.0).min(100.0)); }
    p
}

const KINDS: [&str; 4] = ["general", "near_linear", "s_shaped", "looped"];

/// (a, b, class): class is "" for generic pairs, otherwise names the special configuration
fn gen_pair_of_curves(rng: &mut Rng, stats: &mut Stats) -> (Cubic, Cubic, &'static str, String) {
    let (ka, kb) = (KINDS[rng.i(4) as usize], KINDS[rng.i(4) as usize]);
    let a = gen_cubic(rng, ka);
    let mut b = gen_cubic(rng, kb);
    let kinds = format!("{}/{}", ka, kb);
    match rng.i(10) {
        0 | 1 => {
            // sharing an end point (any of the four combinations)
            let which = rng.i(4);
            let q = if which & 1 == 0 { a[0] } else { a[3] };
            if which & 2 == 0 { b[0] = q; } else { b[3] = q; }
            (a, b, "shared_end_point", kinds)
        }
        2 | 3 | 4 => {
            // one curve is a piece of a longer curve that was cut at (or near) a crossing with the other
            if let Some(cs) = crossings(&a, &b) {
                let good: Vec<&Crossing> = cs.iter().filter(|c| c.u > 0.05 && c.u < 0.95).collect();
                if !good.is_empty() {
                    let c = good[rng.i(good.len() as u64) as usize];
                    let (exact, t) = if rng.b() { (true, c.u) } else { (false, (c.u + rng.r(0.02, 0.3) * if rng.b() { 1.0 } else { -1.0 }).max(0.01).min(0.99)) };
                    let (l, r): (Curve<Coord2>, Curve<Coord2>) = to_curve(&a).subdivide(t);
                    let piece = if rng.b() { from_curve(&l) } else { from_curve(&r) };
                    return if rng.b() { (piece, b, if exact { "cut_at_crossing" } else { "cut_near_crossing" }, kinds) } else { (b, piece, if exact { "cut_at_crossing" } else { "cut_near_crossing" }, kinds) };
                }
            }
            stats.count("gen.cut_requested_but_no_crossing");
            (a, b, "", kinds)
        }
        _ => (a, b, "", kinds),
    }
}

// ------------------------------------------------------------------------------------------------ the property

fn clip(stats: &mut Stats, a: &Cubic, b: &Cubic, acc: f64) -> Option<Vec<(f64, f64)>> {
    let (ca, cb) = (to_curve(a), to_curve(b));
    run_guarded(stats, PROP, "curve_intersects_curve_clip", &|| format!("a={:?} b={:?} accuracy={}", a, b, acc), move || curve_intersects_curve_clip(&ca, &cb, acc).into_iter().collect::<Vec<_>>())
}

/// `class`: "" or the special configuration of the pair
pub fn check_pair(stats: &mut Stats, a: &Cubic, b: &Cubic, class: &str, kinds: &str) {
    let suffix = if class.is_empty() { String::new() } else { format!(".{}", class) };
    let oracle = match crossings(a, b) {
        Some(c) => c,
        None => { stats.excluded += 1; stats.count("excluded.pair_overlapping_curves"); return; }
    };
    stats.count(&format!("oracle_crossings.{}", oracle.len().min(5)));
    // which crossings must be found
    let mut required = vec![];
    for (i, c) in oracle.iter().enumerate() {
        let reason = if c.sin <= 0.05 { Some("near_tangent") }
            else if c.u < 0.02 || c.u > 0.98 || c.v < 0.02 || c.v > 0.98 { Some("near_curve_end") }
            else if oracle.iter().enumerate().any(|(j, o)| j != i && dist(o.p, c.p) < 1.0) { Some("near_other_crossing") }
            else { None };
        match reason { Some(r) => { stats.excluded += 1; stats.count(&format!("excluded.crossing_{}", r)); } None => { required.push(*c); stats.count("required_crossings"); } }
    }
    for acc in [0.01, 0.001] {
        let ab = match clip(stats, a, b, acc) { Some(r) => r, None => continue };
        let ba = match clip(stats, b, a, acc) { Some(r) => r, None => continue };
        let ba_swapped: Vec<(f64, f64)> = ba.iter().map(|(x, y)| (*y, *x)).collect();
        let detail = |order: &str, got: &Vec<(f64, f64)>| format!("accuracy={} order={} kinds={} class={} a={:?} b={:?} returned(t_a,t_b)={:?} oracle={:?}", acc, order, kinds, if class.is_empty() { "generic" } else { class }, a, b, got, oracle.iter().map(|c| (c.u, c.v, c.sin)).collect::<Vec<_>>());
        let found = |got: &Vec<(f64, f64)>, p: Coord2| got.iter().any(|(t1, t2)| *t1 >= 0.0 && *t1 <= 1.0 && *t2 >= 0.0 && *t2 <= 1.0 && dist(bez(a, *t1), p) <= 0.1 && dist(bez(b, *t2), p) <= 0.1);
        for (order, got) in [("(a,b)", &ab), ("(b,a)", &ba_swapped)] {
            stats.count(&format!("calls.acc{}", acc));
            stats.add("returned_pairs", got.len() as u64);
            // soundness
            for (t1, t2) in got.iter() {
                if !(*t1 >= 0.0 && *t1 <= 1.0 && *t2 >= 0.0 && *t2 <= 1.0) { stats.fail(PROP, &format!("clip.unsound_pair.parameter_out_of_range.acc{}{}", acc, suffix), &format!("pair=({}, {}) {}", t1, t2, detail(order, got))); continue; }
                let d = dist(bez(a, *t1), bez(b, *t2));
                if !(d <= 0.1) { stats.fail(PROP, &format!("clip.unsound_pair.points_apart.acc{}{}", acc, suffix), &format!("pair=({}, {}) points are {} apart {}", t1, t2, d, detail(order, got))); }
            }
            // completeness
            for c in &required {
                // follow the crossing through a shadow of the recursion: the last event on the sections that contain it.
                // The theorems (C02.search_complete) say that in exact arithmetic no clip step, no `None` answer and no
                // box test can lose it: such an event on a real run is reported even if the crossing is found elsewhere
                let (cause, at) = if order == "(a,b)" { lost_at(a, b, acc, c.u, c.v) } else { lost_at(b, a, acc, c.v, c.u) };
                stats.count(&format!("followed_crossing.last_event.{}", cause.replace("lost_at_", "").replace("lost_after_", "")));
                if cause == "lost_at_clip_none" || cause == "lost_at_clip_range" || cause == "lost_at_box_reject" {
                    stats.fail(PROP, &format!("clip.pruning_invariant_broken.{}.acc{}{}", cause, acc, suffix), &format!("crossing u={} v={} at {:?} sin={} [{}] {}", c.u, c.v, c.p, c.sin, at, detail(order, got)));
                }
                if !found(got, c.p) {
                    stats.count(&format!("missing_crossing.cause.{}", cause));
                    stats.fail(PROP, &format!("clip.missing_crossing.{}.acc{}{}", cause, acc, suffix), &format!("crossing u={} v={} at {:?} sin={} lost at [{}] {}", c.u, c.v, c.p, c.sin, at, detail(order, got)));
                }
            }
        }
        // a crossing found in one order is found in the other
        for c in &required {
            let (f1, f2) = (found(&ab, c.p), found(&ba_swapped, c.p));
            if f1 != f2 {
                let (cause, at) = if !f1 { lost_at(a, b, acc, c.u, c.v) } else { lost_at(b, a, acc, c.v, c.u) };
                stats.fail(PROP, &format!("clip.order_asymmetry.{}.acc{}{}", cause, acc, suffix), &format!("crossing u={} v={} at {:?} found for (a,b): {} found for (b,a): {} lost at [{}] {} returned for (b,a) as (t_a,t_b)={:?}", c.u, c.v, c.p, f1, f2, at, detail("(a,b)", &ab), ba_swapped));
            }
        }
        // (not a failure of the statement) asymmetry on crossings outside the completeness guarantee
        for c in oracle.iter().filter(|c| !required.iter().any(|r| r.u == c.u && r.v == c.v)) {
            if found(&ab, c.p) != found(&ba_swapped, c.p) { stats.count(&format!("asymmetry_on_excluded_crossing.acc{}", acc)); }
        }
    }
}

fn y_mirror(c: &Cubic) -> Cubic { [Coord2(c[0].0, -c[0].1), Coord2(c[1].0, -c[1].1), Coord2(c[2].0, -c[2].1), Coord2(c[3].0, -c[3].1)] }

pub fn search(seed: u64, n: u64) {
    quiet_panics();
    let mut rng = Rng(seed ^ 0x5EA2C02);
    let mut stats = Stats::new();
    // fixed corpus
    let c1: Cubic = [Coord2(0.0, 0.0), Coord2(1.0, 2.0 / 3.0), Coord2(2.0, -2.0 / 3.0), Coord2(3.0, 0.0)];
    let c2: Cubic = [Coord2(0.0, 1.0), Coord2(1.0, -2.0), Coord2(2.0, 1.0), Coord2(3.0, 1.0)];
    let scale = |c: &Cubic, k: f64| -> Cubic { [c[0] * k, c[1] * k, c[2] * k, c[3] * k] };
    let mut corpus: Vec<(String, Cubic, Cubic, &'static str)> = vec![
        ("zero_distance_hull c1,c2".into(), c1, c2, "corpus_zero_distance_hull"),
        ("zero_distance_hull c2,c1".into(), c2, c1, "corpus_zero_distance_hull"),
        ("zero_distance_hull y-mirror c1,c2".into(), y_mirror(&c1), y_mirror(&c2), "corpus_zero_distance_hull"),
        ("zero_distance_hull y-mirror c2,c1".into(), y_mirror(&c2), y_mirror(&c1), "corpus_zero_distance_hull"),
        // the same pair at the scale of the quantifier's box (crossings more than 1 unit apart)
        ("zero_distance_hull x30 c1,c2".into(), scale(&c1, 30.0), scale(&c2, 30.0), "corpus_zero_distance_hull"),
        ("zero_distance_hull x30 y-mirror".into(), scale(&y_mirror(&c1), 30.0), scale(&y_mirror(&c2), 30.0), "corpus_zero_distance_hull"),
    ];
    // curves sharing an end point, crossing once more elsewhere
    let s1: Cubic = [Coord2(10.0, 10.0), Coord2(40.0, 80.0), Coord2(60.0, 80.0), Coord2(90.0, 10.0)];
    let s2: Cubic = [Coord2(10.0, 10.0), Coord2(50.0, 20.0), Coord2(70.0, 60.0), Coord2(60.0, 90.0)];
    let s3: Cubic = [Coord2(90.0, 90.0), Coord2(70.0, 40.0), Coord2(40.0, 30.0), Coord2(10.0, 10.0)];
    corpus.push(("shared start point".into(), s1, s2, "shared_end_point"));
    corpus.push(("start of one is end of the other".into(), s1, s3, "shared_end_point"));
    // a curve cut at its crossing with another one into two sub-sections
    let l1: Cubic = [Coord2(5.0, 50.0), Coord2(35.0, 90.0), Coord2(65.0, 10.0), Coord2(95.0, 50.0)];
    let l2: Cubic = [Coord2(20.0, 5.0), Coord2(30.0, 40.0), Coord2(60.0, 60.0), Coord2(85.0, 95.0)];
    if let Some(cs) = crossings(&l1, &l2) {
        for c in cs.iter() {
            let (l, r): (Curve<Coord2>, Curve<Coord2>) = to_curve(&l1).subdivide(c.u);
            corpus.push((format!("first half of l1 cut at its crossing u={}", c.u), from_curve(&l), l2, "cut_at_crossing"));
            corpus.push((format!("second half of l1 cut at its crossing u={}", c.u), from_curve(&r), l2, "cut_at_crossing"));
            corpus.push((format!("the two halves of l1 cut at u={}", c.u), from_curve(&l), from_curve(&r), "cut_at_crossing"));
        }
    }
    corpus.push(("l1,l2 uncut".into(), l1, l2, ""));
    // pairs sharing a BIT-IDENTICAL end point that cross once or twice more, the other curve's control points on one side of its chord:
    // the shared hull vertex lies exactly on a fat-line edge and rounding decides on which side (regression inputs of the seeded change
    // C02-m7, which removed the 0.001 margin of `round_y_value`; the unchanged code is right on all of them)
    let q = |p: [(f64, f64); 4]| -> Cubic { [Coord2(p[0].0, p[0].1), Coord2(p[1].0, p[1].1), Coord2(p[2].0, p[2].1), Coord2(p[3].0, p[3].1)] };
    let shared: [([(f64, f64); 4], [(f64, f64); 4]); 5] = [
        ([(46.612, 43.811), (23.588, 31.871000000000002), (16.329, 65.784), (13.396, 4.524)], [(46.612, 43.811), (31.989, 0.543), (39.277, 95.617), (25.5, 77.599)]),
        ([(28.645, 93.566), (39.347, 45.624), (76.83200000000001, 85.421), (20.775000000000002, 47.752)], [(20.775000000000002, 47.752), (11.365, 98.013), (95.10000000000001, 82.144), (48.408, 29.595)]),
        ([(26.784, 47.436), (38.683, 61.31), (15.741, 96.78), (75.123, 85.10000000000001)], [(1.614, 44.816), (16.632, 89.627), (60.22, 48.24), (26.784, 47.436)]),
        ([(39.884, 82.85000000000001), (97.429, 83.666), (13.809000000000001, 28.866), (64.891, 14.431000000000001)], [(28.546, 21.16), (91.783, 45.872), (60.597, 66.819), (64.891, 14.431000000000001)]),
        ([(11.914, 50.661), (51.767, 13.133000000000001), (8.709, 23.932000000000002), (8.051, 88.683)], [(8.051, 88.683), (43.953, 36.626), (52.616, 76.418), (8.359, 4.474)]),
    ];
    for (k, (a, b)) in shared.iter().enumerate() {
        corpus.push((format!("shared bit-identical end point, crossing again #{}", k), q(*a), q(*b), "shared_end_point"));
        corpus.push((format!("shared bit-identical end point, crossing again #{} (swapped)", k), q(*b), q(*a), "shared_end_point"));
    }
    for (name, a, b, class) in &corpus {
        stats.case(&format!("corpus {} a={:?} b={:?}", name, a, b), true);
        stats.count(&format!("class.{}", if class.is_empty() { "corpus_generic" } else { class }));
        check_pair(&mut stats, a, b, class, "corpus");
    }
    // small, tightly curved pairs (a few units across, all eight control points around one centre): both curves are still
    // curved at the 0.1-unit scale, so the search has to converge by clipping alone and never reaches the straight-line solve
    // (own random stream, so the inputs of the classes below do not move)
    let mut rng_small = Rng(seed ^ 0x5A11C02);
    for _ in 0..n / 4 {
        let c = Coord2(rng_small.r(5.0, 95.0), rng_small.r(5.0, 95.0));
        let size = [0.5, 1.0, 2.0, 3.0, 5.0][rng_small.i(5) as usize];
        let mut pt = |rng: &mut Rng| Coord2(c.0 + rng.r(-size, size), c.1 + rng.r(-size, size));
        let a: Cubic = [pt(&mut rng_small), pt(&mut rng_small), pt(&mut rng_small), pt(&mut rng_small)];
        let b: Cubic = [pt(&mut rng_small), pt(&mut rng_small), pt(&mut rng_small), pt(&mut rng_small)];
        stats.count("class.small_tight");
        let crossing = crossings(&a, &b).map(|c| !c.is_empty()).unwrap_or(false);
        stats.case(&format!("small_tight size={} a={:?} b={:?}", size, a, b), crossing);
        check_pair(&mut stats, &a, &b, "small_tight", &format!("size{}", size));
    }
    // structured pairs (own stream): (1) a straight line and a point-symmetric S-curve whose two ends and mid point lie ON the line - the
    // ends are contacts at curve ends, the crossing in the middle is transversal; (2) a symmetric arch crossed at its apex (t = 1/2, where
    // the 3/4 bound of the fat line is attained exactly) by a slanted line; half of them on integer coordinates
    let mut rng_st = Rng(seed ^ 0x57C7C02);
    for k in 0..(8 + n / 8) {
        let round = |p: Coord2, on: bool| if on { Coord2(p.0.round(), p.1.round()) } else { p };
        let int = k % 2 == 0;
        if k % 4 < 2 {
            let (p, q) = (round(Coord2(rng_st.r(5.0, 35.0), rng_st.r(5.0, 95.0)), int), round(Coord2(rng_st.r(65.0, 95.0), rng_st.r(5.0, 95.0)), int));
            let d = q - p;
            let (f0, f1) = if int { (0.125, 0.875) } else { let f = rng_st.r(0.05, 0.3); (f, 1.0 - f) };
            let (s0, s3) = (p + d * f0, p + d * f1);
            let nrm = Coord2(-d.1, d.0) * (rng_st.r(0.3, 0.9) / 1.0);
            let v = d * rng_st.r(0.1, 0.5) + nrm * if rng_st.b() { 1.0 } else { -1.0 };
            let line: Cubic = [p, p + d * (1.0 / 3.0), p + d * (2.0 / 3.0), q];
            let sc: Cubic = [s0, s0 + v, s3 - v, s3];
            let inside = |c: &Cubic| c.iter().all(|q| q.0 >= 0.0 && q.0 <= 100.0 && q.1 >= 0.0 && q.1 <= 100.0);
            if !inside(&sc) { stats.count("gen.structured_outside_box"); continue; }
            stats.count("class.line_vs_symmetric_s");
            stats.case(&format!("line_vs_symmetric_s a={:?} b={:?}", line, sc), true);
            check_pair(&mut stats, &line, &sc, "line_vs_symmetric_s", "line/s_shaped");
        } else {
            let (x0, w, h) = (rng_st.r(5.0, 30.0), rng_st.r(40.0, 65.0), rng_st.r(30.0, 90.0));
            let y0 = rng_st.r(2.0, 8.0);
            let (x0, w, h, y0) = if int { (x0.round(), (w / 2.0).round() * 2.0, (h / 4.0).round() * 4.0, y0.round()) } else { (x0, w, h, y0) };
            let inset = w * if int { 0.25 } else { rng_st.r(0.1, 0.4) };
            let arch: Cubic = [Coord2(x0, y0), Coord2(x0 + inset, y0 + h), Coord2(x0 + w - inset, y0 + h), Coord2(x0 + w, y0)];
            let apex = bez(&arch, 0.5);
            let slant = if k % 8 < 4 { 0.0 } else { rng_st.r(-0.8, 0.8) };
            let dir = Coord2(slant, 1.0);
            let (lo, hi) = (rng_st.r(5.0, (apex.1 - 1.0).max(6.0)), rng_st.r(3.0, (99.0 - apex.1).max(4.0)));
            let (p, q) = (apex - dir * lo, apex + dir * hi);
            let line: Cubic = [p, p + (q - p) * (1.0 / 3.0), p + (q - p) * (2.0 / 3.0), q];
            let inside = |c: &Cubic| c.iter().all(|q| q.0 >= 0.0 && q.0 <= 100.0 && q.1 >= 0.0 && q.1 <= 100.0);
            if !inside(&line) || !inside(&arch) { stats.count("gen.structured_outside_box"); continue; }
            stats.count("class.arch_crossed_at_apex");
            stats.case(&format!("arch_crossed_at_apex a={:?} b={:?}", arch, line), true);
            check_pair(&mut stats, &arch, &line, "arch_crossed_at_apex", "arch/line");
        }
    }
    for _ in 0..n {
        let (a, b, class, kinds) = gen_pair_of_curves(&mut rng, &mut stats);
        stats.count(&format!("class.{}", if class.is_empty() { "generic" } else { class }));
        for k in kinds.split('/') { stats.count(&format!("kind.{}", k)); }
        let crossing = crossings(&a, &b).map(|c| !c.is_empty()).unwrap_or(false);
        stats.case(&format!("{} {} a={:?} b={:?}", class, kinds, a, b), crossing);
        check_pair(&mut stats, &a, &b, class, &kinds);
    }
    stats.print(PROP, "search");
}

// ------------------------------------------------------------------------------------------------ correspondence
//
// The Lean model of `curve_intersects_curve_clip` is the translation of the whole recursion (Gen.CurveClip), run at Float.
// Two callees are outside the translated subset and are parameters of the model: `overlapping_region` and
// `intersections_with_linear_section` (both end in the `roots` crate).  Their answers on the section pairs the recursion
// asks about are recorded here by a SHADOW of the public wrapper and the private inner function that is built from public items only
// (`CurveSection`, `overlapping_region`, `curve_intersects_ray`, `solve_curve_for_t_along_axis`, and `FatLine` through
// hook H1) and written into the transcript as tables.  The tie is two-fold: the shadow's result must be bit-equal to the
// result of the real `curve_intersects_curve_clip` (op `shadow`), and the generated Lean function, given the tables,
// must reproduce the real result bit for bit (op `clip`) - a section pair the model asks about that the shadow never
// saw is answered with NaN and therefore shows up as a difference.

use flo_curves::bezier::verif_hooks::FatLine;
use flo_curves::Coordinate;
use flo_curves::BoundingBox;

type Sec<'a> = CurveSection<'a, Curve<Coord2>>;
type Hits = Vec<(f64, f64)>;

/// what the recursion asked its two untranslated callees
#[derive(Default)]
pub struct Tables {
    /// (curve1 t_min, t_max, curve2 t_min, t_max) -> answer of overlapping_region
    pub ovl: Vec<([f64; 4], Option<((f64, f64), (f64, f64))>)>,
    /// (which: 0 = curve1 is the linear one, 1 = curve2 is; linear t_min, t_max, curved t_min, t_max) -> answer
    pub lin: Vec<(u8, [f64; 4], Hits)>,
    pub iterations: u64,
    pub splits: u64,
    pub max_depth: u64,
    pub clip_none: u64,
    pub box_reject: u64,
    pub tiny_entry: u64,
    pub converged: u64,
    pub converged_tiny: u64,
    /// a crossing (u, v) to follow through the recursion, and what happened to the sections that contain it
    pub target: Option<(f64, f64)>,
    pub events: Vec<String>,
}

/// does the pair of sections contain the followed crossing (with a little slack for its own error)
fn holds(tb: &Tables, a: &Sec, b: &Sec) -> bool {
    match tb.target { None => false, Some((u, v)) => { let (p, q) = (a.original_curve_t_values(), b.original_curve_t_values()); u >= p.0 - 1e-9 && u <= p.1 + 1e-9 && v >= q.0 - 1e-9 && v <= q.1 + 1e-9 } }
}
fn note(tb: &mut Tables, depth: u64, what: &str, a: &Sec, b: &Sec) {
    let (p, q) = (a.original_curve_t_values(), b.original_curve_t_values());
    tb.events.push(format!("d{} {} c1=[{:.9},{:.9}] c2=[{:.9},{:.9}]", depth, what, p.0, p.1, q.0, q.1));
}

fn key(a: &Sec, b: &Sec) -> [f64; 4] { let (p, q) = (a.original_curve_t_values(), b.original_curve_t_values()); [p.0, p.1, q.0, q.1] }

fn sh_hull_length_sq(c: &Sec) -> f64 {
    if c.is_tiny() { 0.0 } else {
        let (start, end) = (c.start_point(), c.end_point());
        let (cp1, cp2) = c.control_points();
        let (o1, o2, o3) = (cp1 - start, cp2 - cp1, cp2 - end);
        o1.dot(&o1) + o2.dot(&o2) + o3.dot(&o3)
    }
}

/// copy of the private `intersections_with_linear_section` from public pieces (CLOSE_DISTANCE = 0.01, CLOSE_ENOUGH = 0.001*50.0)
fn sh_linear(linear: &Sec, curved: &Sec, accuracy: f64) -> Hits {
    const CLOSE_DISTANCE: f64 = 0.01;
    const CLOSE_ENOUGH: f64 = 0.001 * 50.0;
    let ray = (linear.start_point(), linear.end_point());
    let ray_hits = curve_intersects_ray(curved, &ray);
    let found: Hits = ray_hits.iter().filter_map(|(curved_t, _ray_t, pos)| solve_curve_for_t_along_axis(linear, pos, accuracy.max(CLOSE_DISTANCE)).map(|lt| (lt, *curved_t))).collect();
    if found.is_empty() && !ray_hits.is_empty() {
        if linear.point_at_pos(0.0).is_near_to(&linear.point_at_pos(1.0), 0.1) {
            let mid = linear.point_at_pos(0.5);
            return ray_hits.iter().filter_map(|(curved_t, _ray_t, pos)| if pos.is_near_to(&mid, CLOSE_ENOUGH) { Some((0.5, *curved_t)) } else { None }).collect();
        }
    }
    found
}

enum ShClip { None, Some((f64, f64)), Linear }

fn sh_clip(to_clip: &Sec, against: &Sec) -> ShClip {
    let fat = FatLine::from_curve(against);
    let clip_t = fat.clip_t(to_clip);
    if fat.is_flat() { return ShClip::Linear; }
    let r = match clip_t {
        Some(c) => {
            let perp = FatLine::from_curve_perpendicular(against);
            match perp.clip_t(to_clip) {
                Some(cp) => { if c.1 - c.0 < cp.1 - cp.0 { ShClip::Some(c) } else { ShClip::Some(cp) } }
                None => ShClip::None,
            }
        }
        None => ShClip::None,
    };
    match r { ShClip::Some((t1, t2)) => if t1 == t2 { ShClip::Some(((t1 - 0.005).max(0.0), (t2 + 0.005).min(1.0))) } else { ShClip::Some((t1, t2)) }, o => o }
}

fn sh_join(curve1: &Sec, left: Hits, right: Hits, acc2: f64) -> Hits {
    if left.is_empty() { return right; }
    if right.is_empty() { return left; }
    let lt = curve1.section_t_for_original_t(left[left.len() - 1].0);
    let rt = curve1.section_t_for_original_t(right[0].0);
    let mut out = left;
    if (rt - lt).abs() < 0.1 {
        let off = curve1.point_at_pos(rt) - curve1.point_at_pos(lt);
        if off.dot(&off) <= acc2 * 2.0 { out.extend(right.into_iter().skip(1)); return out; }
    }
    out.extend(right);
    out
}

fn sh_inner<'a>(curve1: Sec<'a>, curve2: Sec<'a>, accuracy: f64, acc2: f64, depth: u64, tb: &mut Tables) -> Hits {
    tb.max_depth = tb.max_depth.max(depth);
    let inside = holds(tb, &curve1, &curve2);
    if inside { note(tb, depth, "enter", &curve1, &curve2); }
    let (mut curve1, mut curve2) = (curve1, curve2);
    let mut last1 = sh_hull_length_sq(&curve1);
    let mut last2 = sh_hull_length_sq(&curve2);
    if last1 == 0.0 || last2 == 0.0 { tb.tiny_entry += 1; if inside { note(tb, depth, "LOST:zero_length_at_entry", &curve1, &curve2); } return vec![]; }
    loop {
        tb.iterations += 1;
        let inside = holds(tb, &curve1, &curve2);
        let len2 = if last2 > acc2 {
            match sh_clip(&curve2, &curve1) {
                ShClip::None => { tb.clip_none += 1; if inside { note(tb, depth, &format!("LOST:clip_none(curve2 against curve1, near_ends={})", curve1.start_point().is_near_to(&curve1.end_point(), 0.0000001)), &curve1, &curve2); } return vec![]; }
                ShClip::Some(c) => { curve2 = curve2.subsection(c.0, c.1); if inside && !holds(tb, &curve1, &curve2) { note(tb, depth, &format!("LOST:clip_dropped_it(curve2 against curve1, range=({},{}), near_ends={})", c.0, c.1, curve1.start_point().is_near_to(&curve1.end_point(), 0.0000001)), &curve1, &curve2); } sh_hull_length_sq(&curve2) }
                ShClip::Linear => {
                    let r = sh_linear(&curve1, &curve2, accuracy);
                    if inside { note(tb, depth, &format!("EXIT:linear_fallback(curve1 flat) answers={:?}", r.iter().map(|(t1, t2)| (curve1.t_for_t(*t1), curve2.t_for_t(*t2))).collect::<Vec<_>>()), &curve1, &curve2); }
                    tb.lin.push((0, key(&curve1, &curve2), r.clone()));
                    return r.into_iter().map(|(t1, t2)| (curve1.t_for_t(t1), curve2.t_for_t(t2))).collect();
                }
            }
        } else { last2 };
        let inside = holds(tb, &curve1, &curve2);
        let len1 = if last1 > acc2 {
            match sh_clip(&curve1, &curve2) {
                ShClip::None => { tb.clip_none += 1; if inside { note(tb, depth, &format!("LOST:clip_none(curve1 against curve2, near_ends={})", curve2.start_point().is_near_to(&curve2.end_point(), 0.0000001)), &curve1, &curve2); } return vec![]; }
                ShClip::Some(c) => { curve1 = curve1.subsection(c.0, c.1); if inside && !holds(tb, &curve1, &curve2) { note(tb, depth, &format!("LOST:clip_dropped_it(curve1 against curve2, range=({},{}), near_ends={})", c.0, c.1, curve2.start_point().is_near_to(&curve2.end_point(), 0.0000001)), &curve1, &curve2); } sh_hull_length_sq(&curve1) }
                ShClip::Linear => {
                    let r = sh_linear(&curve2, &curve1, accuracy);
                    if inside { note(tb, depth, &format!("EXIT:linear_fallback(curve2 flat) answers={:?}", r.iter().map(|(t2, t1)| (curve1.t_for_t(*t1), curve2.t_for_t(*t2))).collect::<Vec<_>>()), &curve1, &curve2); }
                    tb.lin.push((1, key(&curve2, &curve1), r.clone()));
                    return r.into_iter().map(|(t2, t1)| (curve1.t_for_t(t1), curve2.t_for_t(t2))).collect();
                }
            }
        } else { last1 };
        if len1 <= acc2 && len2 <= acc2 {
            if curve1.fast_bounding_box::<Bounds<_>>().overlaps(&curve2.fast_bounding_box::<Bounds<_>>()) {
                let ((a, b), (c, d)) = (curve1.original_curve_t_values(), curve2.original_curve_t_values());
                tb.converged += 1;
                if curve1.is_tiny() || curve2.is_tiny() { tb.converged_tiny += 1; }
                if holds(tb, &curve1, &curve2) { note(tb, depth, "EXIT:converged", &curve1, &curve2); }
                return vec![((a + b) * 0.5, (c + d) * 0.5)];
            } else { tb.box_reject += 1; if holds(tb, &curve1, &curve2) { note(tb, depth, "LOST:box_reject", &curve1, &curve2); } return vec![]; }
        }
        if last1 * 0.8 <= len1 && last2 * 0.8 <= len2 {
            tb.splits += 1;
            if holds(tb, &curve1, &curve2) { note(tb, depth, if len1 / last1 > len2 / last2 { "split curve1" } else { "split curve2" }, &curve1, &curve2); }
            if len1 / last1 > len2 / last2 {
                let (l, r) = (curve1.subsection(0.0, 0.5), curve1.subsection(0.5, 1.0));
                let l = sh_inner(l, curve2.clone(), accuracy, acc2, depth + 1, tb);
                let r = sh_inner(r, curve2, accuracy, acc2, depth + 1, tb);
                return sh_join(&curve1, l, r, acc2);
            } else {
                let (l, r) = (curve2.subsection(0.0, 0.5), curve2.subsection(0.5, 1.0));
                let l = sh_inner(curve1.clone(), l, accuracy, acc2, depth + 1, tb);
                let r = sh_inner(curve1.clone(), r, accuracy, acc2, depth + 1, tb);
                return sh_join(&curve1, l, r, acc2);
            }
        }
        last1 = len1;
        last2 = len2;
    }
}

/// follows the crossing `(u, v)` through the recursion: the list of events on the sections that contain it
pub fn why(a: &Cubic, b: &Cubic, accuracy: f64, u: f64, v: f64) -> Vec<String> {
    let mut tb = Tables::default();
    tb.target = Some((u, v));
    let (ca, cb) = (to_curve(a), to_curve(b));
    let _ = sh_top(&ca, &cb, accuracy, &mut tb);
    tb.events
}

/// the named step of the recursion at which the crossing `(u, v)` of `(a, b)` disappears (the last LOST/EXIT event on the
/// sections that contain it), as a key fragment and in full
pub fn lost_at(a: &Cubic, b: &Cubic, accuracy: f64, u: f64, v: f64) -> (String, String) {
    let trace = why(a, b, accuracy, u, v);
    let ev = trace.iter().rev().find(|e| e.contains("LOST") || e.contains("EXIT")).cloned().unwrap_or_else(|| "? no event".into());
    let word = ev.split_whitespace().nth(1).unwrap_or("?").split('(').next().unwrap_or("?").to_string();
    let cause = match word.as_str() {
        "LOST?overlap_shortcut" => "lost_at_overlap_shortcut",
        "LOST:zero_length_at_entry" => "lost_at_zero_length_section",
        "LOST:clip_none" => "lost_at_clip_none",
        "LOST:clip_dropped_it" => "lost_at_clip_range",
        "LOST:box_reject" => "lost_at_box_reject",
        "EXIT:linear_fallback" => "lost_at_linear_fallback",
        "EXIT:converged" => "lost_after_convergence",
        _ => "lost_at_unknown_step",
    };
    (cause.to_string(), ev)
}

/// copy of the public wrapper: the overlap shortcut once, on the whole curves, then the inner function
fn sh_top(a: &Curve<Coord2>, b: &Curve<Coord2>, accuracy: f64, tb: &mut Tables) -> Hits {
    let (curve1, curve2) = (a.section(0.0, 1.0), b.section(0.0, 1.0));
    let ov = overlapping_region(&curve1, &curve2);
    tb.ovl.push((key(&curve1, &curve2), ov));
    if let Some(((a1, a2), (b1, b2))) = ov {
        if holds(tb, &curve1, &curve2) { note(tb, 0, "LOST?overlap_shortcut", &curve1, &curve2); }
        let (a1, a2, b1, b2) = (curve1.t_for_t(a1), curve1.t_for_t(a2), curve2.t_for_t(b1), curve2.t_for_t(b2));
        return if a1 == a2 || b1 == b2 { vec![(a1, b1)] } else { vec![(a1, b1), (a2, b2)] };
    }
    sh_inner(curve1, curve2, accuracy, accuracy * accuracy, 0, tb)
}

pub fn shadow(a: &Curve<Coord2>, b: &Curve<Coord2>, accuracy: f64) -> (Hits, Tables) {
    let mut tb = Tables::default();
    let r = sh_top(a, b, accuracy, &mut tb);
    (r, tb)
}

fn hits_str(h: &[(f64, f64)]) -> String { let mut s = format!("#{}", h.len()); for (x, y) in h { s += &format!(" {} {}", hx(*x), hx(*y)); } s }

/// the extra input classes of the correspondence run: overlapping pieces of one curve (overlap shortcut), straight lines
/// (linear fall-back), a curve against itself
fn gen_corr_pair(rng: &mut Rng, stats: &mut Stats) -> (Cubic, Cubic, String) {
    let kind = KINDS[rng.i(4) as usize];
    match rng.i(12) {
        0 => { let a = gen_cubic(rng, kind); let (t0, t1) = (rng.r(0.0, 0.5), rng.r(0.5, 1.0)); let c = to_curve(&a);
               let piece: Curve<Coord2> = Curve::from_curve(&c.section(t0, t1)); (a, from_curve(&piece), "overlapping_piece".into()) }
        1 => { let a = gen_cubic(rng, kind); let c = to_curve(&a);
               let p1: Curve<Coord2> = Curve::from_curve(&c.section(0.0, rng.r(0.4, 0.8))); let p2: Curve<Coord2> = Curve::from_curve(&c.section(rng.r(0.2, 0.6), 1.0));
               (from_curve(&p1), from_curve(&p2), "overlapping_pieces_of_one_curve".into()) }
        2 => { let (p, q) = (rp(rng), rp(rng)); let d = q - p; let line = [p, p + d * (1.0 / 3.0), p + d * (2.0 / 3.0), q];
               let b = gen_cubic(rng, kind); if rng.b() { (line, b, "straight_line".into()) } else { (b, line, "straight_line".into()) } }
        3 => { let a = gen_cubic(rng, kind); (a, a, "same_curve".into()) }
        4 => { let snap = |c: Cubic| -> Cubic { let f = |p: Coord2| Coord2((p.0 / 12.5).round() * 12.5, (p.1 / 12.5).round() * 12.5); [f(c[0]), f(c[1]), f(c[2]), f(c[3])] };
               (snap(gen_cubic(rng, "general")), snap(gen_cubic(rng, "general")), "grid".into()) }
        _ => { let (a, b, class, kinds) = gen_pair_of_curves(rng, stats); (a, b, if class.is_empty() { format!("generic.{}", kinds) } else { class.to_string() }) }
    }
}

pub fn corr(seed: u64, n: u64) {
    let mut rng = Rng(seed ^ 0xC02);
    let mut stats = Stats::new();
    for it in 0..n {
        let (a, b, class) = gen_corr_pair(&mut rng, &mut stats);
        let acc = if it % 2 == 0 { 0.01 } else { 0.001 };
        let (a, b) = if it % 4 >= 2 { (b, a) } else { (a, b) };
        let (ca, cb) = (to_curve(&a), to_curve(&b));
        let real: Hits = curve_intersects_curve_clip(&ca, &cb, acc).into_iter().collect();
        let (sh, tb) = shadow(&ca, &cb, acc);
        stats.count(&format!("class.{}", class.split('.').next().unwrap_or("")));
        stats.count(&format!("hits.{}", real.len().min(4)));
        stats.add("loop_iterations", tb.iterations);
        stats.add("splits", tb.splits);
        stats.add("exit.clip_none", tb.clip_none);
        stats.add("exit.box_reject", tb.box_reject);
        stats.add("exit.zero_length_at_entry", tb.tiny_entry);
        stats.add("exit.converged", tb.converged);
        stats.add("exit.converged_with_a_tiny_section", tb.converged_tiny);
        if tb.converged > 0 { stats.add(&format!("exit.converged.in_class.{}", class.split('.').next().unwrap_or("")), tb.converged); }
        stats.add("exit.overlap_shortcut", tb.ovl.iter().filter(|(_, r)| r.is_some()).count() as u64);
        stats.add("exit.linear_fallback", tb.lin.len() as u64);
        stats.count(&format!("max_depth.{}", tb.max_depth.min(12)));
        let hc = |c: &Cubic| c.iter().map(|p| format!("{} {}", hx(p.0), hx(p.1))).collect::<Vec<_>>().join(" ");
        let mut line = format!("C02 clip R {} {} {} #{}", hc(&a), hc(&b), hx(acc), tb.ovl.len());
        for (k, r) in &tb.ovl {
            line += &format!(" {}", hxs(k));
            match r { None => line += " #0", Some(((p, q), (u, v))) => line += &format!(" #1 {}", hxs(&[*p, *q, *u, *v])) }
        }
        line += &format!(" #{}", tb.lin.len());
        for (w, k, r) in &tb.lin { line += &format!(" #{} {} {}", w, hxs(k), hits_str(r)); }
        line += &format!(" | {}", hits_str(&real));
        stats.case(&line, tb.iterations > 1);
        println!("{}", line);
        println!("C02 shadow R {} | {}", hits_str(&sh), hits_str(&real));
    }
    corr_overlaps(&mut rng, &mut stats, n);
    stats.print(PROP, "corr");
}

/// `solve_curve_for_t_along_axis` (behind `t_for_point`) and `overlapping_region` against their generated definitions, bit for bit.
/// What ends in the external `roots` crate is handed over as a table: the answers of `solve_basis_for_t` per dimension for the
/// first, the four `t_for_point` answers `overlapping_region` can ask for the second.
fn corr_overlaps(rng: &mut Rng, stats: &mut Stats, n: u64) {
    use flo_curves::bezier::{solve_basis_for_t, solve_curve_for_t_along_axis, overlapping_region};
    let hc = |c: &Cubic| c.iter().map(|p| format!("{} {}", hx(p.0), hx(p.1))).collect::<Vec<_>>().join(" ");
    let opt = |o: Option<f64>| match o { None => "#0".to_string(), Some(t) => format!("#1 {}", hx(t)) };
    let rc = |rng: &mut Rng| -> Cubic { let g = |rng: &mut Rng| if rng.i(4) == 0 { Coord2((rng.i(41) as f64 - 20.0) * 2.5, (rng.i(41) as f64 - 20.0) * 2.5) } else { Coord2(rng.r(-50.0, 50.0), rng.r(-50.0, 50.0)) }; [g(rng), g(rng), g(rng), g(rng)] };
    for it in 0..(n / 2 + 200) {
        let c = rc(rng);
        let cv = to_curve(&c);
        let base = match rng.i(6) { 0 => c[0], 1 => c[3], _ => cv.point_at_pos(rng.f()) };
        let off = match rng.i(7) { 0 | 1 => 0.0, 2 => 1e-12, 3 => 5e-10, 4 => 1e-4, 5 => 0.03, _ => 0.07 };
        let ang = rng.r(0.0, 6.283);
        let p = Coord2(base.0 + off * ang.cos(), base.1 + off * ang.sin());
        let acc = [0.05, 0.001, 0.01, 1e-9][(it % 4) as usize];
        let rx = solve_basis_for_t(c[0].0, c[1].0, c[2].0, c[3].0, p.0);
        let ry = solve_basis_for_t(c[0].1, c[1].1, c[2].1, c[3].1, p.1);
        let res = solve_curve_for_t_along_axis(&cv, &p, acc);
        let line = format!("C02 tfp R {} {} {} {} #{} {} #{} {} | {}", hc(&c), hx(p.0), hx(p.1), hx(acc), rx.len(), hxs(&rx), ry.len(), hxs(&ry), opt(res));
        stats.case(&format!("tfp {}", it), res.is_some());
        stats.count(if res.is_some() { "tfp.some" } else { "tfp.none" });
        println!("{}", line);
    }
    let sub = |c: &Cubic, a: f64, b: f64| -> Cubic { let cv = to_curve(c); let s = cv.section(a, b); let (p1, p2) = s.control_points(); [s.start_point(), p1, p2, s.end_point()] };
    let rev = |c: &Cubic| -> Cubic { [c[3], c[2], c[1], c[0]] };
    for it in 0..(n / 2 + 200) {
        let c = rc(rng);
        let line_like = rng.i(5) == 0;
        let c = if line_like { let (p, q) = (c[0], c[3]); let (u, v) = (rng.r(-0.3, 1.3), rng.r(-0.3, 1.3)); [p, p + (q - p) * u, p + (q - p) * v, q] } else { c };
        let kind = rng.i(9);
        let (mut a, mut b): (Cubic, Cubic) = match kind {
            0 => (c, c),
            1 => { let (x, y) = (rng.r(0.0, 0.5), rng.r(0.5, 1.0)); (c, sub(&c, x, y)) }
            2 => { let (x, y) = (rng.r(0.0, 0.5), rng.r(0.5, 1.0)); (sub(&c, x, y), c) }
            3 => { let (x, y, u, v) = (rng.r(0.0, 0.3), rng.r(0.5, 0.8), rng.r(0.3, 0.5), rng.r(0.8, 1.0)); (sub(&c, x, y), sub(&c, u, v)) }
            4 => { let m = rng.r(0.2, 0.8); (sub(&c, 0.0, m), sub(&c, m, 1.0)) }
            5 => { let (x, y, u, v) = (rng.r(0.0, 0.3), rng.r(0.3, 0.45), rng.r(0.55, 0.7), rng.r(0.7, 1.0)); (sub(&c, x, y), sub(&c, u, v)) }
            6 => { let d = rc(rng); (c, [c[3], d[1], d[2], d[3]]) }
            7 => { let mut d = sub(&c, rng.r(0.0, 0.4), rng.r(0.6, 1.0)); let k = 1 + rng.i(2) as usize; d[k] = d[k] + Coord2(rng.r(-0.01, 0.01), rng.r(-0.01, 0.01)); (c, d) }
            _ => (c, rc(rng)),
        };
        if rng.i(3) == 0 { a = rev(&a); }
        if rng.i(3) == 0 { b = rev(&b); }
        let (ca, cb) = (to_curve(&a), to_curve(&b));
        let q = [ca.t_for_point(&b[0]), ca.t_for_point(&b[3]), cb.t_for_point(&a[0]), cb.t_for_point(&a[3])];
        let res = overlapping_region(&ca, &cb);
        let mut line = format!("C02 ovl R {} {} {} {} {} {} |", hc(&a), hc(&b), opt(q[0]), opt(q[1]), opt(q[2]), opt(q[3]));
        match res { None => line += " #0", Some(((p, r), (u, v))) => line += &format!(" #1 {}", hxs(&[p, r, u, v])) }
        stats.case(&format!("ovl {} {}", kind, it), res.is_some());
        stats.count(&format!("ovl.kind{}.{}{}", kind, if res.is_some() { "some" } else { "none" }, if line_like { ".line" } else { "" }));
        println!("{}", line);
    }
    // the linear fall-back (private; hook H6) against its generated definition: the roots the external solver returned inside this
    // very call (hook H3) and the answers of `solve_basis_for_t` for every ray hit are handed over as tables
    use flo_curves::bezier::{verif_intersections_with_linear_section, curve_intersects_ray};
    for it in 0..(n / 2 + 200) {
        let c1 = rc(rng);
        let cv1 = to_curve(&c1);
        let t0 = rng.r(0.0, 0.95);
        let dl = 10f64.powf(rng.r(-3.5, -1.0)).min(1.0 - t0);
        let lin = cv1.section(t0, t0 + dl);
        let target = cv1.point_at_pos(t0 + dl * rng.f());
        let mut c2 = rc(rng);
        let cv2 = to_curve(&c2);
        let u = rng.r(0.2, 0.8);
        let shift = target - cv2.point_at_pos(u) + if it % 5 == 0 { Coord2(rng.r(-0.02, 0.02), rng.r(-0.02, 0.02)) } else { Coord2(0.0, 0.0) };
        for q in c2.iter_mut() { *q = *q + shift; }
        let cv2 = to_curve(&c2);
        let (ua, ub) = if it % 3 == 0 { (0.0, 1.0) } else { ((u - rng.r(0.01, 0.3)).max(0.0), (u + rng.r(0.01, 0.3)).min(1.0)) };
        let cur = cv2.section(ua, ub);
        let acc = [0.01, 0.001, 0.05][(it % 3) as usize];
        let _ = flo_curves::bezier::verif_roots::take();
        let res = verif_intersections_with_linear_section(&lin, &cur, acc);
        let (poly, raw) = flo_curves::bezier::verif_roots::take().unwrap_or(((f64::NAN, f64::NAN, f64::NAN, f64::NAN), vec![]));
        // the ray hits themselves (same call, recomputed) for the questions put to `solve_basis_for_t`
        let ray = (lin.start_point(), lin.end_point());
        let hits = curve_intersects_ray(&cur, &ray);
        let (l1, (l2, l3), l4) = (lin.start_point(), lin.control_points(), lin.end_point());
        let mut line = format!("C02 lin R {} {} {} {} {} {} {} {} #{} {} #{}", hc(&c1), hc(&c2), hx(t0), hx(t0 + dl), hx(ua), hx(ub), hx(acc), hxs(&[poly.0, poly.1, poly.2, poly.3]), raw.len(), hxs(&raw), hits.len());
        for (_, _, pos) in hits.iter() {
            let rx = solve_basis_for_t(l1.0, l2.0, l3.0, l4.0, pos.0);
            let ry = solve_basis_for_t(l1.1, l2.1, l3.1, l4.1, pos.1);
            line += &format!(" {} {} #{} {} #{} {}", hx(pos.0), hx(pos.1), rx.len(), hxs(&rx), ry.len(), hxs(&ry));
        }
        line += &format!(" | #{}", res.len());
        for (a, b) in res.iter() { line += &format!(" {} {}", hx(*a), hx(*b)); }
        stats.case(&format!("lin {}", it), !res.is_empty());
        stats.count(&format!("lin.hits{}.answers{}", hits.len().min(3), res.len().min(3)));
        println!("{}", line);
    }
}


/// (diagnostic, not part of a check: `fvharness probe C02 <seed> <n>`) how often does the loop end through its own convergence
/// test for curves that fill the box, have cusps or tight bends, and how far apart are the two reported points then
pub fn probe(seed: u64, n: u64) {
    let mut rng = Rng(seed ^ 0xBEEF);
    let (mut conv, mut conv_tiny, mut worst, mut worst_tiny) = (0u64, 0u64, 0.0f64, 0.0f64);
    let mut worst_case = String::new();
    for it in 0..n {
        let corner = |rng: &mut Rng| Coord2(if rng.b() { rng.r(0.0, 8.0) } else { rng.r(92.0, 100.0) }, if rng.b() { rng.r(0.0, 8.0) } else { rng.r(92.0, 100.0) });
        let (a, b): (Cubic, Cubic) = if it % 3 == 0 {
            ([corner(&mut rng), corner(&mut rng), corner(&mut rng), corner(&mut rng)], [corner(&mut rng), corner(&mut rng), corner(&mut rng), corner(&mut rng)])
        } else {
            // a cubic with a cusp (or a very tight bend) and a curve through the neighbourhood of the cusp
            let s = rng.r(20.0, 100.0); let e = if it % 3 == 1 { 0.0 } else { rng.r(-2.0, 2.0) };
            let a: Cubic = [Coord2(0.0, 0.0), Coord2(s, s), Coord2(e, s), Coord2(s + e, 0.0)];
            let tip = bez(&a, 0.5);
            let q = tip + Coord2(rng.r(-1.0, 1.0), rng.r(-1.0, 1.0)) * rng.r(0.0, 0.3);
            let d = Coord2(rng.r(-1.0, 1.0), rng.r(-1.0, 1.0)) * 30.0; let n = Coord2(-d.1, d.0) * rng.r(-0.5, 0.5);
            let b: Cubic = if it % 2 == 0 { [q - d, q - d * 0.3 + n, q + d * 0.3 + n, q + d] } else {
                // a second cusp, rotated, with its tip near the first one
                let (s2, th) = (rng.r(20.0, 100.0), rng.r(0.0, 6.283));
                let rot = |p: Coord2| Coord2(p.0 * th.cos() - p.1 * th.sin(), p.0 * th.sin() + p.1 * th.cos());
                let c: Cubic = [Coord2(0.0, 0.0), Coord2(s2, s2), Coord2(0.0, s2), Coord2(s2, 0.0)];
                let tip2 = rot(bez(&c, 0.5));
                let sh = q - tip2;
                [rot(c[0]) + sh, rot(c[1]) + sh, rot(c[2]) + sh, rot(c[3]) + sh]
            };
            (a, b)
        };
        let acc = if it % 2 == 0 { 0.01 } else { 0.001 };
        let (ca, cb) = (to_curve(&a), to_curve(&b));
        let (hits, tb) = shadow(&ca, &cb, acc);
        if tb.converged == 0 { continue; }
        conv += tb.converged; conv_tiny += tb.converged_tiny;
        for (t1, t2) in &hits {
            let d = dist(bez(&a, *t1), bez(&b, *t2));
            if tb.lin.is_empty() && tb.ovl.iter().all(|(_, r)| r.is_none()) {
                if d > worst { worst = d; worst_case = format!("a={:?} b={:?} acc={} hits={:?} d={}", a, b, acc, hits, d); }
                if tb.converged_tiny > 0 && d > worst_tiny { worst_tiny = d; }
            }
        }
    }
    println!("converged exits {} (with a tiny section {}), worst distance of a reported pair {} (tiny {}) {}", conv, conv_tiny, worst, worst_tiny, worst_case);
}
