//! C02: curve_intersects_curve_clip is sound and complete in either argument order.
//! Oracle (own code): recursive subdivision of both curves on their control-polygon boxes down to 2^-16, then 2-D Newton
//! refinement of every surviving candidate (residual < 1e-9).
use crate::shapes::*;
use crate::util::*;
use flo_curves::bezier::*;

const PROP: &str = "C02";

pub fn to_curve(c: &Cubic) -> Curve<Coord2> { Curve::from_points(c[0], (c[1], c[2]), c[3]) }
pub fn from_curve<C: BezierCurve<Point = Coord2>>(c: &C) -> Cubic { let (a, b) = c.control_points(); [c.start_point(), a, b, c.end_point()] }

fn cbox(c: &Cubic) -> (f64, f64, f64, f64) {
    let (mut x0, mut x1, mut y0, mut y1) = (c[0].0, c[0].0, c[0].1, c[0].1);
    for p in &c[1..] { x0 = x0.min(p.0); x1 = x1.max(p.0); y0 = y0.min(p.1); y1 = y1.max(p.1); }
    (x0, x1, y0, y1)
}
fn boxes_meet(a: &Cubic, b: &Cubic) -> bool {
    let (p, q) = (cbox(a), cbox(b));
    !(p.0 > q.1 || q.0 > p.1 || p.2 > q.3 || q.2 > p.3)
}

/// a crossing of the two curves: parameters, point, |sin| of the angle between the tangents
#[derive(Clone, Copy, Debug)]
pub struct Crossing { pub u: f64, pub v: f64, pub p: Coord2, pub sin: f64 }

fn newton(a: &Cubic, b: &Cubic, mut u: f64, mut v: f64) -> Option<Crossing> {
    for _ in 0..40 {
        let f = bez(a, u) - bez(b, v);
        let (da, db) = (bez_d(a, u), bez_d(b, v));
        let det = cross(db, da); // | da -db |
        if det.abs() < 1e-14 { return None; }
        // solve da*du - db*dv = f
        let du = cross(db, f) / det;
        let dv = cross(da, f) / det;
        u -= du; v -= dv;
        if !(u > -0.5 && u < 1.5 && v > -0.5 && v < 1.5) { return None; }
        if du.abs() < 1e-16 && dv.abs() < 1e-16 { break; }
    }
    if !(u >= 0.0 && u <= 1.0 && v >= 0.0 && v <= 1.0) { return None; }
    let (pa, pb) = (bez(a, u), bez(b, v));
    if dist(pa, pb) >= 1e-9 { return None; }
    let (da, db) = (bez_d(a, u), bez_d(b, v));
    let (la, lb) = (len(da), len(db));
    let sin = if la == 0.0 || lb == 0.0 { 0.0 } else { (cross(da, db) / (la * lb)).abs() };
    Some(Crossing { u, v, p: pa, sin })
}

/// all crossings of two cubics, or None if the candidate set explodes (overlapping / nearly coincident curves)
pub fn crossings(a: &Cubic, b: &Cubic) -> Option<Vec<Crossing>> {
    let mut level: Vec<(Cubic, f64, Cubic, f64)> = vec![(*a, 0.0, *b, 0.0)];
    let mut w = 1.0;
    for _ in 0..16 {
        let mut next = Vec::with_capacity(level.len() * 2);
        for (ca, ta, cb, tb) in &level {
            if !boxes_meet(ca, cb) { continue; }
            let (a1, a2) = split(ca, 0.5);
            let (b1, b2) = split(cb, 0.5);
            let h = w / 2.0;
            for (x, tx) in [(a1, *ta), (a2, *ta + h)] { for (y, ty) in [(b1, *tb), (b2, *tb + h)] { if boxes_meet(&x, &y) { next.push((x, tx, y, ty)); } } }
        }
        w /= 2.0;
        level = next;
        if level.len() > 4000 { return None; }
    }
    let mut out: Vec<Crossing> = vec![];
    for (_, ta, _, tb) in &level {
        if let Some(c) = newton(a, b, ta + w / 2.0, tb + w / 2.0) {
            if !out.iter().any(|o| (o.u - c.u).abs() < 1e-7 && (o.v - c.v).abs() < 1e-7) { out.push(c); }
        }
    }
    Some(out)
}

// ------------------------------------------------------------------------------------------------ generators

fn rp(rng: &mut Rng) -> Coord2 { Coord2(rng.r(0.0, 100.0), rng.r(0.0, 100.0)) }

pub fn gen_cubic(rng: &mut Rng, kind: &str) -> Cubic {
    let mut p = [rp(rng), rp(rng), rp(rng), rp(rng)];
    match kind {
        "near_linear" => { let d = p[3] - p[0]; let n = Coord2(-d.1, d.0) * 0.02; p[1] = p[0] + d * 0.3 + n * rng.r(-1.0, 1.0); p[2] = p[0] + d * 0.7 + n * rng.r(-1.0, 1.0); }
        "s_shaped" => { let d = p[3] - p[0]; let n = Coord2(-d.1, d.0) * rng.r(0.2, 0.8); p[1] = p[0] + d * 0.3 + n; p[2] = p[0] + d * 0.7 - n; }
        "looped" => { let d = p[3] - p[0]; let n = Coord2(-d.1, d.0) * rng.r(0.5, 1.5); p[1] = p[0] + d * rng.r(1.2, 2.0) + n; p[2] = p[0] - d * rng.r(0.2, 1.0) + n; }
        _ => {}
    }
    for q in p.iter_mut() { *q = Coord2(q.0.max(0.0).min(100.0), q.1.max(0.0).min(100.0)); }
    p
}

const KINDS: [&str; 4] = ["general", "near_linear", "s_shaped", "looped"];

/// (a, b, class): class is "" for generic pairs, otherwise names the special configuration
fn gen_pair_of_curves(rng: &mut Rng, stats: &mut Stats) -> (Cubic, Cubic, &'static str, String) {
    let (ka, kb) = (KINDS[rng.i(4) as usize], KINDS[rng.i(4) as usize]);
    let a = gen_cubic(rng, ka);
    let mut b = gen_cubic(rng, kb);
    let kinds = format!("{}/{}", ka, kb);
    match rng.i(10) {
        0 | 1 => {
            // sharing an end point (any of the four combinations)
            let which = rng.i(4);
            let q = if which & 1 == 0 { a[0] } else { a[3] };
            if which & 2 == 0 { b[0] = q; } else { b[3] = q; }
            (a, b, "shared_end_point", kinds)
        }
        2 | 3 | 4 => {
            // one curve is a piece of a longer curve that was cut at (or near) a crossing with the other
            if let Some(cs) = crossings(&a, &b) {
                let good: Vec<&Crossing> = cs.iter().filter(|c| c.u > 0.05 && c.u < 0.95).collect();
                if !good.is_empty() {
                    let c = good[rng.i(good.len() as u64) as usize];
                    let (exact, t) = if rng.b() { (true, c.u) } else { (false, (c.u + rng.r(0.02, 0.3) * if rng.b() { 1.0 } else { -1.0 }).max(0.01).min(0.99)) };
                    let (l, r): (Curve<Coord2>, Curve<Coord2>) = to_curve(&a).subdivide(t);
                    let piece = if rng.b() { from_curve(&l) } else { from_curve(&r) };
                    return if rng.b() { (piece, b, if exact { "cut_at_crossing" } else { "cut_near_crossing" }, kinds) } else { (b, piece, if exact { "cut_at_crossing" } else { "cut_near_crossing" }, kinds) };
                }
            }
            stats.count("gen.cut_requested_but_no_crossing");
            (a, b, "", kinds)
        }
        _ => (a, b, "", kinds),
    }
}

// ------------------------------------------------------------------------------------------------ the property

fn clip(stats: &mut Stats, a: &Cubic, b: &Cubic, acc: f64) -> Option<Vec<(f64, f64)>> {
    let (ca, cb) = (to_curve(a), to_curve(b));
    run_guarded(stats, PROP, "curve_intersects_curve_clip", &|| format!("a={:?} b={:?} accuracy={}", a, b, acc), move || curve_intersects_curve_clip(&ca, &cb, acc).into_iter().collect::<Vec<_>>())
}

/// `class`: "" or the special configuration of the pair
pub fn check_pair(stats: &mut Stats, a: &Cubic, b: &Cubic, class: &str, kinds: &str) {
    let suffix = if class.is_empty() { String::new() } else { format!(".{}", class) };
    let oracle = match crossings(a, b) {
        Some(c) => c,
        None => { stats.excluded += 1; stats.count("excluded.pair_overlapping_curves"); return; }
    };
    stats.count(&format!("oracle_crossings.{}", oracle.len().min(5)));
    // which crossings must be found
    let mut required = vec![];
    for (i, c) in oracle.iter().enumerate() {
        let reason = if c.sin <= 0.05 { Some("near_tangent") }
            else if c.u < 0.02 || c.u > 0.98 || c.v < 0.02 || c.v > 0.98 { Some("near_curve_end") }
            else if oracle.iter().enumerate().any(|(j, o)| j != i && dist(o.p, c.p) < 1.0) { Some("near_other_crossing") }
            else { None };
        match reason { Some(r) => { stats.excluded += 1; stats.count(&format!("excluded.crossing_{}", r)); } None => { required.push(*c); stats.count("required_crossings"); } }
    }
    for acc in [0.01, 0.001] {
        let ab = match clip(stats, a, b, acc) { Some(r) => r, None => continue };
        let ba = match clip(stats, b, a, acc) { Some(r) => r, None => continue };
        let ba_swapped: Vec<(f64, f64)> = ba.iter().map(|(x, y)| (*y, *x)).collect();
        let detail = |order: &str, got: &Vec<(f64, f64)>| format!("accuracy={} order={} kinds={} class={} a={:?} b={:?} returned(t_a,t_b)={:?} oracle={:?}", acc, order, kinds, if class.is_empty() { "generic" } else { class }, a, b, got, oracle.iter().map(|c| (c.u, c.v, c.sin)).collect::<Vec<_>>());
        let found = |got: &Vec<(f64, f64)>, p: Coord2| got.iter().any(|(t1, t2)| *t1 >= 0.0 && *t1 <= 1.0 && *t2 >= 0.0 && *t2 <= 1.0 && dist(bez(a, *t1), p) <= 0.1 && dist(bez(b, *t2), p) <= 0.1);
        for (order, got) in [("(a,b)", &ab), ("(b,a)", &ba_swapped)] {
            stats.count(&format!("calls.acc{}", acc));
            stats.add("returned_pairs", got.len() as u64);
            // soundness
            for (t1, t2) in got.iter() {
                if !(*t1 >= 0.0 && *t1 <= 1.0 && *t2 >= 0.0 && *t2 <= 1.0) { stats.fail(PROP, &format!("clip.unsound_pair.parameter_out_of_range.acc{}{}", acc, suffix), &format!("pair=({}, {}) {}", t1, t2, detail(order, got))); continue; }
                let d = dist(bez(a, *t1), bez(b, *t2));
                if !(d <= 0.1) { stats.fail(PROP, &format!("clip.unsound_pair.points_apart.acc{}{}", acc, suffix), &format!("pair=({}, {}) points are {} apart {}", t1, t2, d, detail(order, got))); }
            }
            // completeness
            for c in &required {
                if !found(got, c.p) { stats.fail(PROP, &format!("clip.missing_crossing.acc{}{}", acc, suffix), &format!("crossing u={} v={} at {:?} sin={} {}", c.u, c.v, c.p, c.sin, detail(order, got))); }
            }
        }
        // a crossing found in one order is found in the other
        for c in &required {
            let (f1, f2) = (found(&ab, c.p), found(&ba_swapped, c.p));
            if f1 != f2 { stats.fail(PROP, &format!("clip.order_asymmetry.acc{}{}", acc, suffix), &format!("crossing u={} v={} at {:?} found for (a,b): {} found for (b,a): {} {} returned for (b,a) as (t_a,t_b)={:?}", c.u, c.v, c.p, f1, f2, detail("(a,b)", &ab), ba_swapped)); }
        }
        // (not a failure of the statement) asymmetry on crossings outside the completeness guarantee
        for c in oracle.iter().filter(|c| !required.iter().any(|r| r.u == c.u && r.v == c.v)) {
            if found(&ab, c.p) != found(&ba_swapped, c.p) { stats.count(&format!("asymmetry_on_excluded_crossing.acc{}", acc)); }
        }
    }
}

fn y_mirror(c: &Cubic) -> Cubic { [Coord2(c[0].0, -c[0].1), Coord2(c[1].0, -c[1].1), Coord2(c[2].0, -c[2].1), Coord2(c[3].0, -c[3].1)] }

pub fn search(seed: u64, n: u64) {
    quiet_panics();
    let mut rng = Rng(seed ^ 0x5EA2C02);
    let mut stats = Stats::new();
    // fixed corpus
    let c1: Cubic = [Coord2(0.0, 0.0), Coord2(1.0, 2.0 / 3.0), Coord2(2.0, -2.0 / 3.0), Coord2(3.0, 0.0)];
    let c2: Cubic = [Coord2(0.0, 1.0), Coord2(1.0, -2.0), Coord2(2.0, 1.0), Coord2(3.0, 1.0)];
    let scale = |c: &Cubic, k: f64| -> Cubic { [c[0] * k, c[1] * k, c[2] * k, c[3] * k] };
    let mut corpus: Vec<(String, Cubic, Cubic, &'static str)> = vec![
        ("zero_distance_hull c1,c2".into(), c1, c2, "corpus_zero_distance_hull"),
        ("zero_distance_hull c2,c1".into(), c2, c1, "corpus_zero_distance_hull"),
        ("zero_distance_hull y-mirror c1,c2".into(), y_mirror(&c1), y_mirror(&c2), "corpus_zero_distance_hull"),
        ("zero_distance_hull y-mirror c2,c1".into(), y_mirror(&c2), y_mirror(&c1), "corpus_zero_distance_hull"),
        // the same pair at the scale of the quantifier's box (crossings more than 1 unit apart)
        ("zero_distance_hull x30 c1,c2".into(), scale(&c1, 30.0), scale(&c2, 30.0), "corpus_zero_distance_hull"),
        ("zero_distance_hull x30 y-mirror".into(), scale(&y_mirror(&c1), 30.0), scale(&y_mirror(&c2), 30.0), "corpus_zero_distance_hull"),
    ];
    // curves sharing an end point, crossing once more elsewhere
    let s1: Cubic = [Coord2(10.0, 10.0), Coord2(40.0, 80.0), Coord2(60.0, 80.0), Coord2(90.0, 10.0)];
    let s2: Cubic = [Coord2(10.0, 10.0), Coord2(50.0, 20.0), Coord2(70.0, 60.0), Coord2(60.0, 90.0)];
    let s3: Cubic = [Coord2(90.0, 90.0), Coord2(70.0, 40.0), Coord2(40.0, 30.0), Coord2(10.0, 10.0)];
    corpus.push(("shared start point".into(), s1, s2, "shared_end_point"));
    corpus.push(("start of one is end of the other".into(), s1, s3, "shared_end_point"));
    // a curve cut at its crossing with another one into two sub-sections
    let l1: Cubic = [Coord2(5.0, 50.0), Coord2(35.0, 90.0), Coord2(65.0, 10.0), Coord2(95.0, 50.0)];
    let l2: Cubic = [Coord2(20.0, 5.0), Coord2(30.0, 40.0), Coord2(60.0, 60.0), Coord2(85.0, 95.0)];
    if let Some(cs) = crossings(&l1, &l2) {
        for c in cs.iter() {
            let (l, r): (Curve<Coord2>, Curve<Coord2>) = to_curve(&l1).subdivide(c.u);
            corpus.push((format!("first half of l1 cut at its crossing u={}", c.u), from_curve(&l), l2, "cut_at_crossing"));
            corpus.push((format!("second half of l1 cut at its crossing u={}", c.u), from_curve(&r), l2, "cut_at_crossing"));
            corpus.push((format!("the two halves of l1 cut at u={}", c.u), from_curve(&l), from_curve(&r), "cut_at_crossing"));
        }
    }
    corpus.push(("l1,l2 uncut".into(), l1, l2, ""));
    for (name, a, b, class) in &corpus {
        stats.case(&format!("corpus {} a={:?} b={:?}", name, a, b), true);
        stats.count(&format!("class.{}", if class.is_empty() { "corpus_generic" } else { class }));
        check_pair(&mut stats, a, b, class, "corpus");
    }
    for _ in 0..n {
        let (a, b, class, kinds) = gen_pair_of_curves(&mut rng, &mut stats);
        stats.count(&format!("class.{}", if class.is_empty() { "generic" } else { class }));
        for k in kinds.split('/') { stats.count(&format!("kind.{}", k)); }
        let crossing = crossings(&a, &b).map(|c| !c.is_empty()).unwrap_or(false);
        stats.case(&format!("{} {} a={:?} b={:?}", class, kinds, a, b), crossing);
        check_pair(&mut stats, &a, &b, class, &kinds);
    }
    stats.print(PROP, "search");
}
