//! fvharness: runs the real flo_curves code.
//!   fvharness corr   <Cxx> <seed> <n>   transcript of inputs and implementation outputs for the Lean driver
//!   fvharness search <Cxx> <seed> <n>   evaluates the property itself on the real code with an independent oracle
mod util;
mod shapes;
mod c01;
mod c02;
mod c03;
mod c07;
mod c11;
mod c12;
mod c14;
mod c16;
mod guard;
mod cshapes;
mod c08;
mod c09;
mod c10;
mod c15;
mod c19;
mod c20;
mod corr_misc;
mod trace;
mod c04;
mod c05;
mod c06;
mod c13;
mod c17;
mod c18;

fn main() {
    let args: Vec<String> = std::env::args().collect();
    if args.len() < 5 {
        eprintln!("usage: fvharness corr|search <Cxx> <seed> <n> [extra]");
        std::process::exit(2);
    }
    let mode = args[1].as_str();
    let prop = args[2].as_str();
    let seed: u64 = args[3].parse().expect("seed");
    let n: u64 = args[4].parse().expect("n");
    let extra: Vec<String> = args[5..].to_vec();
    let _ = &extra;
    match (mode, prop) {
        ("search", "C01") => c01::search(seed, n),
        ("search", "C02") => c02::search(seed, n),
        ("search", "C03") => c03::search(seed, n),
        ("search", "C07") => c07::search(seed, n),
        ("corr", "C07") => c07::corr(seed, n),
        ("corr", "C10") => c10::corr(seed, n),
        ("corr", "C02") => c02::corr(seed, n),
        ("probe", "C02") => c02::probe(seed, n),
        ("corr", "C20") => c20::corr(seed, n),
        ("corr", "C03") => c03::corr(seed, n),
        ("corr", "C14") => c14::corr(seed, n),
        ("search", "C11") => c11::search(seed, n),
        ("search", "C12") => c12::search(seed, n),
        ("search", "C14") => c14::search(seed, n),
        ("search", "C16") => c16::search(seed, n),
        ("corr", "C16") => c16::corr(seed, n),
        ("search", "C08") => c08::search(seed, n),
        ("search", "C09") => c09::search(seed, n),
        ("corr", "C09") => c09::corr(seed, n),
        ("search", "C10") => c10::search(seed, n),
        ("search", "C15") => c15::search(seed, n),
        ("search", "C19") => c19::search(seed, n),
        ("search", "C20") => c20::search(seed, n),
        ("corr", "C01") => trace::corr("C01", seed, n),
        ("corr", "C11") => trace::corr("C11", seed, n),
        ("corr", "C12") => trace::corr("C12", seed, n),
        ("corr", "C08") => corr_misc::corr_c08(seed, n),
        ("corr", "C15") => corr_misc::corr_c15(seed, n),
        ("corr", "C19") => c19::corr(seed, n),
        ("corr", "C04") => c04::corr(seed, n),
        ("search", "C04") => c04::search(seed, n),
        ("corr", "C05") => c05::corr(seed, n),
        ("search", "C05") => c05::search(seed, n),
        ("corr", "C06") => c06::corr(seed, n),
        ("search", "C06") => c06::search(seed, n),
        ("corr", "C13") => c13::corr(seed, n),
        ("search", "C13") => c13::search(seed, n),
        ("corr", "C17") => c17::corr(seed, n),
        ("search", "C17") => c17::search(seed, n),
        ("corr", "C18") => c18::corr(seed, n),
        ("search", "C18") => c18::search(seed, n),
        _ => {
            eprintln!("fvharness: unknown mode/property {} {}", mode, prop);
            std::process::exit(2);
        }
    }
}
