//! C16: scan conversion of a PathContour matches point membership (even-odd rule over the sub-paths); ranges ascending,
//! disjoint, clipped to the contour width; intercepts_on_column agrees with the transposed query.
use crate::shapes::*;
use crate::util::*;
use flo_curves::bezier::rasterize::*;
use flo_curves::bezier::vectorize::*;
use flo_curves::*;
use std::ops::Range;

const PROP: &str = "C16";
/// the property's margin from every edge, plus the flattening error of the oracle
const EDGE_MARGIN: f64 = 0.05;
const SLACK: f64 = 0.006;

/// where the closed polyline meets the horizontal line at y (x positions, unsorted)
fn crossings_at(poly: &Poly, y: f64) -> Vec<f64> {
    let n = poly.len();
    let mut out = vec![];
    for i in 0..n {
        let (a, b) = (poly[i], poly[(i + 1) % n]);
        if (a.1 <= y) != (b.1 <= y) { out.push(a.0 + (y - a.1) / (b.1 - a.1) * (b.0 - a.0)); }
    }
    out
}

/// t in (0,1) where the y component of the curve has a horizontal tangent
fn horizontal_tangent_ys(c: &Cubic) -> Vec<f64> {
    if is_straight(c) { return vec![]; }
    let n = 64;
    let mut out = vec![];
    let f = |t: f64| bez_d(c, t).1;
    let mut prev = f(0.0);
    for k in 1..=n {
        let t = k as f64 / n as f64;
        let cur = f(t);
        if prev * cur < 0.0 {
            let (mut lo, mut hi) = ((k - 1) as f64 / n as f64, t);
            for _ in 0..60 { let m = (lo + hi) / 2.0; if f(m) * prev > 0.0 { lo = m; } else { hi = m; } }
            out.push(bez(c, (lo + hi) / 2.0).1);
        } else if cur == 0.0 { out.push(bez(c, t).1); }
        prev = cur;
    }
    out
}

/// the special configuration of a scan position relative to the paths (cubics per sub-path; for columns: transposed).
/// Precedence: along a straight edge > through a vertex where the boundary turns back (local extremum) > tangent to a
/// curve > through a vertex where the boundary passes through > not through but within 1e-9 of a vertex > integer > generic.
fn classify(cs: &Vec<Vec<Cubic>>, tangents: &[f64], y: f64, axis: &str, dir: &str) -> String {
    let (mut along, mut v_ext, mut v_cross, mut v_near) = (false, false, false, false);
    for path in cs {
        let n = path.len();
        for i in 0..n {
            let c = &path[i];
            if is_straight(c) && c[0].1 == y && c[3].1 == y && c[0] != c[3] { along = true; }
            if c[0].1 != y && (c[0].1 - y).abs() <= 1e-9 { v_near = true; }
            if c[0].1 == y {
                let prev = &path[(i + n - 1) % n];
                let dy_in = prev[3].1 - bez(prev, 1.0 - 1.0 / 32.0).1;
                let dy_out = bez(c, 1.0 / 32.0).1 - c[0].1;
                if dy_in * dy_out > 0.0 { v_cross = true; } else { v_ext = true; }
            }
        }
    }
    let tangent = tangents.iter().any(|t| (t - y).abs() < 1e-9);
    if along { format!("along_{}_edge", dir) }
    else if v_ext { format!("at_vertex_{}.local_extremum", axis) }
    else if tangent { format!("at_{}_tangent_{}", dir, axis) }
    else if v_cross { format!("at_vertex_{}.boundary_passes_through", axis) }
    else if v_near { format!("within_1e-9_of_vertex_{}", axis) }
    else if y == y.round() { format!("integer_{}", axis) }
    else { "generic".to_string() }
}

fn in_ranges(r: &[Range<f64>], x: f64) -> bool { r.iter().any(|q| q.start <= x && x < q.end) }

struct Scene { paths: Vec<P>, flat: Vec<Poly>, fine: Vec<Poly>, width: usize, height: usize }

/// sample positions along the scanline at `y`: mid points between boundary crossings, both sides of every crossing, a few uniform
fn sample_xs(rng: &mut Rng, flat: &[Poly], y: f64, extent: f64) -> Vec<f64> {
    let mut cr: Vec<f64> = flat.iter().flat_map(|q| crossings_at(q, y)).collect();
    cr.sort_by(|a, b| a.partial_cmp(b).unwrap());
    let mut xs = vec![];
    for w in cr.windows(2) { xs.push((w[0] + w[1]) / 2.0); }
    for c in &cr { for off in [-0.5, -0.08, 0.08, 0.5] { xs.push(c + off); } }
    for _ in 0..6 { xs.push(rng.r(-2.0, extent + 2.0)); }
    for _ in 0..2 { xs.push(rng.i(extent as u64 + 1) as f64); }
    xs
}

/// one scanline (or, with `column`, one column through the same code path on the transposed oracle)
fn check_scan(stats: &mut Stats, rng: &mut Rng, sc: &Scene, contour: &PathContour, tcontour: &PathContour, pos: f64, pclass: &str, column: bool, detail: &dyn Fn() -> String) {
    let limit = if column { sc.height } else { sc.width } as f64;
    let ranges: Vec<Range<f64>> = match run_caught(stats, PROP, if column { "intercepts_on_column" } else { "intercepts_on_line" }, &|| format!("{}={} {}", if column { "x" } else { "y" }, pos, detail()), || if column { contour.intercepts_on_column(pos) } else { contour.intercepts_on_line(pos) }) { Some(r) => r.into_iter().collect(), None => return };
    let what = if column { "column" } else { "scanline" };
    stats.count(&format!("{}.{}", what, pclass));
    let show = || format!("{} at {}={} ({}) ranges={:?} size={}x{} {}", what, if column { "x" } else { "y" }, pos, pclass, ranges, sc.width, sc.height, detail());
    for r in &ranges {
        if !(r.start.is_finite() && r.end.is_finite()) { stats.fail(PROP, &format!("{}.range_not_finite", what), &show()); return; }
        if r.start < 0.0 || r.end > limit { stats.fail(PROP, &format!("{}.ranges_not_clipped", what), &format!("range {:?} leaves [0, {}]; {}", r, limit, show())); }
        if !(r.start < r.end) { stats.fail(PROP, &format!("{}.range_empty_or_inverted", what), &format!("range {:?}; {}", r, show())); }
    }
    for w in ranges.windows(2) {
        if w[0].start > w[1].start { stats.fail(PROP, &format!("{}.ranges_unsorted", what), &format!("{:?} before {:?}; {}", w[0], w[1], show())); break; }
        if w[0].end > w[1].start { stats.fail(PROP, &format!("{}.ranges_overlap", what), &format!("{:?} and {:?}; {}", w[0], w[1], show())); break; }
    }
    // membership along the line
    let (flat, fine): (Vec<Poly>, Vec<Poly>) = if column { (sc.flat.iter().map(|q| q.iter().map(|p| Coord2(p.1, p.0)).collect()).collect(), sc.fine.iter().map(|q| q.iter().map(|p| Coord2(p.1, p.0)).collect()).collect()) } else { (sc.flat.clone(), sc.fine.clone()) };
    let xs = sample_xs(rng, &flat, pos, limit);
    let mut wrong = vec![];
    let mut evaluated = 0;
    for x in xs {
        let p = Coord2(x, pos);
        if dist_polys(p, &flat) <= EDGE_MARGIN + SLACK { stats.excluded += 1; stats.count("excluded.sample_within_0.05_of_edge"); continue; }
        let want = evenodd(p, &flat) && x >= 0.0 && x < limit;
        let want_fine = evenodd(p, &fine) && x >= 0.0 && x < limit;
        if want != want_fine || dist_polys(p, &fine) <= EDGE_MARGIN { stats.excluded += 1; stats.count("excluded.oracle_flattenings_disagree"); continue; }
        evaluated += 1;
        let got = in_ranges(&ranges, x);
        if got != want { wrong.push((x, got, want)); }
    }
    stats.add("samples_evaluated", evaluated);
    if !wrong.is_empty() {
        let key = if column { format!("column_membership.{}", pclass) } else { format!("scanline_membership.{}", pclass) };
        stats.fail(PROP, &key, &format!("{} of {} samples wrong, (x, in_ranges, inside_by_even_odd)={:?}; {}", wrong.len(), evaluated, &wrong[..wrong.len().min(4)], show()));
    }
    if column {
        // the same query on the transposed contour through intercepts_on_line
        if let Some(row) = run_caught(stats, PROP, "intercepts_on_line", &|| format!("transposed y={} {}", pos, detail()), || tcontour.intercepts_on_line(pos)) {
            let row: Vec<Range<f64>> = row.into_iter().collect();
            let mut diff = vec![];
            for x in sample_xs(rng, &flat, pos, limit) {
                if dist_polys(Coord2(x, pos), &flat) <= EDGE_MARGIN + SLACK { continue; }
                if in_ranges(&ranges, x) != in_ranges(&row, x) { diff.push(x); }
            }
            if !diff.is_empty() { stats.fail(PROP, &format!("column_vs_row.{}", pclass), &format!("intercepts_on_column({}) = {:?} but intercepts_on_line({}) of the transposed paths = {:?}; they differ at positions {:?}; {}", pos, ranges, pos, row, &diff[..diff.len().min(4)], show())); }
        }
    }
}

fn check_scene(stats: &mut Stats, rng: &mut Rng, paths: &Vec<P>, width: usize, height: usize, n_random: usize) {
    let sc = Scene { paths: paths.clone(), flat: flatten_set(paths), fine: flatten_set_fine(paths), width, height };
    let detail = || format!("paths={:?}", sc.paths);
    let contour = match run_caught(stats, PROP, "PathContour::from_path", &detail, || PathContour::from_path(paths.clone(), ContourSize(width, height))) { Some(c) => c, None => return };
    let tpaths: Vec<P> = paths.iter().map(transposed).collect();
    let tcontour = match run_caught(stats, PROP, "PathContour::from_path", &detail, || PathContour::from_path(tpaths.clone(), ContourSize(height, width))) { Some(c) => c, None => return };
    let verts: Vec<Coord2> = paths.iter().flat_map(|p| vertices(p)).collect();
    let cs: Vec<Vec<Cubic>> = paths.iter().map(cubics).collect();
    let tcs: Vec<Vec<Cubic>> = tpaths.iter().map(cubics).collect();
    let tangent_ys: Vec<f64> = cs.iter().flatten().flat_map(horizontal_tangent_ys).collect();
    let tangent_xs: Vec<f64> = tcs.iter().flatten().flat_map(horizontal_tangent_ys).collect();
    // rows: y of every vertex, of every horizontal tangent, integers, fractions; the class is derived from the geometry
    let mut rows: Vec<f64> = verts.iter().map(|v| v.1).collect();
    rows.extend(tangent_ys.iter().cloned());
    for _ in 0..n_random { rows.push(rng.i(height as u64 + 1) as f64); rows.push(rng.r(0.0, height as f64)); }
    for y in &rows { check_scan(stats, rng, &sc, &contour, &tcontour, *y, &classify(&cs, &tangent_ys, *y, "y", "horizontal"), false, &detail); }
    let mut cols: Vec<f64> = verts.iter().map(|v| v.0).collect();
    cols.extend(tangent_xs.iter().cloned());
    for _ in 0..n_random { cols.push(rng.i(width as u64 + 1) as f64); cols.push(rng.r(0.0, width as f64)); }
    for x in &cols { check_scan(stats, rng, &sc, &contour, &tcontour, *x, &classify(&tcs, &tangent_xs, *x, "x", "vertical"), true, &detail); }
    // contour_point_is_inside at integer positions
    for _ in 0..10 {
        let (x, y) = (rng.i(width as u64) as usize, rng.i(height as u64) as usize);
        let p = Coord2(x as f64, y as f64);
        if dist_polys(p, &sc.fine) <= EDGE_MARGIN + SLACK { stats.excluded += 1; stats.count("excluded.sample_within_0.05_of_edge"); continue; }
        let want = evenodd(p, &sc.fine);
        if let Some(got) = run_caught(stats, PROP, "contour_point_is_inside", &detail, || contour_point_is_inside(&contour, ContourPosition(x, y))) {
            stats.count("point_is_inside_evaluated");
            if got != want { stats.fail(PROP, "point_is_inside.integer_position", &format!("contour_point_is_inside({}, {}) = {} expected {} intercepts_on_line({}) = {:?} {}", x, y, got, want, y, contour.intercepts_on_line(y as f64), detail())); }
        }
    }
}

pub fn search(seed: u64, n: u64) {
    quiet_panics();
    let mut rng = Rng(seed ^ 0x5EA2C16);
    let mut stats = Stats::new();
    // fixed corpus: circles in both orientations of their vertices (scanlines exactly through vertices), at integer and
    // fractional centres; rectangles on integer and fractional coordinates; a set with a hole; a shape leaving the contour
    let corpus: Vec<(&str, Vec<P>, usize, usize)> = vec![
        ("circle", vec![circle(50.0, 50.0, 20.0)], 100, 100),
        ("circle45", vec![circle45(50.0, 50.0, 20.0)], 100, 100),
        ("circle fractional", vec![circle(40.3, 45.7, 17.9)], 100, 100),
        ("circle45 fractional", vec![circle45(40.3, 45.7, 17.9)], 100, 100),
        ("circle45 reversed", vec![reversed(&circle45(52.0, 48.0, 25.0))], 100, 100),
        ("circle other start", vec![rotate_start(&circle(52.0, 48.0, 25.0), 2)], 100, 100),
        ("rect integer", vec![rect(20.0, 30.0, 60.0, 70.0)], 100, 100),
        ("rect fractional", vec![rect(20.5, 30.25, 60.75, 70.5)], 100, 100),
        ("rect with circular hole", vec![rect(10.0, 10.0, 90.0, 90.0), circle45(50.0, 50.0, 20.0)], 100, 100),
        ("circle leaving the contour", vec![circle45(60.0, 50.0, 30.0)], 80, 100),
        ("two circles", vec![circle(30.0, 30.0, 12.0), circle45(70.0, 65.0, 15.0)], 100, 100),
    ];
    for (name, paths, w, h) in &corpus {
        stats.case(&format!("corpus {} {:?}", name, paths), true);
        stats.count("corpus_case");
        check_scene(&mut stats, &mut rng, paths, *w, *h, 10);
    }
    for _ in 0..n {
        // path sets as in C01 (one operand, or both operands side by side when they do not overlap is not required: one set)
        let pair = gen_pair(&mut rng);
        let (paths, kind) = if rng.b() { (pair.a, pair.kind_a) } else { (pair.b, pair.kind_b) };
        let (w, h) = [(100, 100), (100, 100), (80, 100), (100, 64), (128, 128)][rng.i(5) as usize];
        stats.count(&format!("kind.{}", kind));
        stats.count(&format!("size.{}x{}", w, h));
        if paths.len() > 1 { stats.count("has_several_subpaths"); }
        stats.case(&format!("{} {}x{} {:?}", kind, w, h, paths), true);
        check_scene(&mut stats, &mut rng, &paths, w, h, 6);
    }
    stats.print(PROP, "search");
}
