//! C16: scan conversion of a PathContour matches point membership (even-odd rule over the sub-paths); ranges ascending,
//! disjoint, clipped to the contour width; intercepts_on_column agrees with the transposed query.
use crate::shapes::*;
use crate::util::*;
use flo_curves::bezier::rasterize::*;
use flo_curves::bezier::vectorize::*;
use flo_curves::*;
use std::ops::Range;

const PROP: &str = "C16";
/// the property's margin from every edge, plus the flattening error of the oracle
const EDGE_MARGIN: f64 = 0.05;
const SLACK: f64 = 0.006;

/// where the closed polyline meets the horizontal line at y (x positions, unsorted)
fn crossings_at(poly: &Poly, y: f64) -> Vec<f64> {
    let n = poly.len();
    let mut out = vec![];
    for i in 0..n {
        let (a, b) = (poly[i], poly[(i + 1) % n]);
        if (a.1 <= y) != (b.1 <= y) { out.push(a.0 + (y - a.1) / (b.1 - a.1) * (b.0 - a.0)); }
    }
    out
}

/// t in (0,1) where the y component of the curve has a horizontal tangent
fn horizontal_tangent_ys(c: &Cubic) -> Vec<f64> {
    if is_straight(c) { return vec![]; }
    let n = 64;
    let mut out = vec![];
    let f = |t: f64| bez_d(c, t).1;
    let mut prev = f(0.0);
    for k in 1..=n {
        let t = k as f64 / n as f64;
        let cur = f(t);
        if prev * cur < 0.0 {
            let (mut lo, mut hi) = ((k - 1) as f64 / n as f64, t);
            for _ in 0..60 { let m = (lo + hi) / 2.0; if f(m) * prev > 0.0 { lo = m; } else { hi = m; } }
            out.push(bez(c, (lo + hi) / 2.0).1);
        } else if cur == 0.0 { out.push(bez(c, t).1); }
        prev = cur;
    }
    out
}

/// the special configuration of a scan position relative to the paths (cubics per sub-path; for columns: transposed).
/// Precedence: along a straight edge > through a vertex where the boundary turns back (local extremum) > tangent to a
/// curve > through a vertex where the boundary passes through > not through but within 1e-9 of a vertex > integer > generic.
fn classify(cs: &Vec<Vec<Cubic>>, tangents: &[f64], y: f64, axis: &str, dir: &str) -> String {
    let (mut along, mut v_ext, mut v_cross, mut v_near) = (false, false, false, false);
    for path in cs {
        let n = path.len();
        for i in 0..n {
            let c = &path[i];
            if is_straight(c) && c[0].1 == y && c[3].1 == y && c[0] != c[3] { along = true; }
            if c[0].1 != y && (c[0].1 - y).abs() <= 1e-9 { v_near = true; }
            if c[0].1 == y {
                let prev = &path[(i + n - 1) % n];
                let dy_in = prev[3].1 - bez(prev, 1.0 - 1.0 / 32.0).1;
                let dy_out = bez(c, 1.0 / 32.0).1 - c[0].1;
                if dy_in * dy_out > 0.0 { v_cross = true; } else { v_ext = true; }
            }
        }
    }
    let tangent = tangents.iter().any(|t| (t - y).abs() < 1e-9);
    if along { format!("along_{}_edge", dir) }
    else if v_ext { format!("at_vertex_{}.local_extremum", axis) }
    else if tangent { format!("at_{}_tangent_{}", dir, axis) }
    else if v_cross { format!("at_vertex_{}.boundary_passes_through", axis) }
    else if v_near { format!("within_1e-9_of_vertex_{}", axis) }
    else if y == y.round() { format!("integer_{}", axis) }
    else { "generic".to_string() }
}

fn in_ranges(r: &[Range<f64>], x: f64) -> bool { r.iter().any(|q| q.start <= x && x < q.end) }

struct Scene { paths: Vec<P>, flat: Vec<Poly>, fine: Vec<Poly>, width: usize, height: usize }

/// sample positions along the scanline at `y`: mid points between boundary crossings, both sides of every crossing, a few uniform
fn sample_xs(rng: &mut Rng, flat: &[Poly], y: f64, extent: f64) -> Vec<f64> {
    let mut cr: Vec<f64> = flat.iter().flat_map(|q| crossings_at(q, y)).collect();
    cr.sort_by(|a, b| a.partial_cmp(b).unwrap());
    let mut xs = vec![];
    for w in cr.windows(2) { xs.push((w[0] + w[1]) / 2.0); }
    for c in &cr { for off in [-0.5, -0.08, 0.08, 0.5] { xs.push(c + off); } }
    for _ in 0..6 { xs.push(rng.r(-2.0, extent + 2.0)); }
    for _ in 0..2 { xs.push(rng.i(extent as u64 + 1) as f64); }
    xs
}

/// one scanline (or, with `column`, one column through the same code path on the transposed oracle)
fn check_scan(stats: &mut Stats, rng: &mut Rng, sc: &Scene, contour: &PathContour, tcontour: &PathContour, pos: f64, pclass: &str, column: bool, detail: &dyn Fn() -> String) {
    let limit = if column { sc.height } else { sc.width } as f64;
    let ranges: Vec<Range<f64>> = match run_caught(stats, PROP, if column { "intercepts_on_column" } else { "intercepts_on_line" }, &|| format!("{}={} {}", if column { "x" } else { "y" }, pos, detail()), || if column { contour.intercepts_on_column(pos) } else { contour.intercepts_on_line(pos) }) { Some(r) => r.into_iter().collect(), None => return };
    let what = if column { "column" } else { "scanline" };
    stats.count(&format!("{}.{}", what, pclass));
    let show = || format!("{} at {}={} ({}) ranges={:?} size={}x{} {}", what, if column { "x" } else { "y" }, pos, pclass, ranges, sc.width, sc.height, detail());
    for r in &ranges {
        if !(r.start.is_finite() && r.end.is_finite()) { stats.fail(PROP, &format!("{}.range_not_finite", what), &show()); return; }
        if r.start < 0.0 || r.end > limit { stats.fail(PROP, &format!("{}.ranges_not_clipped", what), &format!("range {:?} leaves [0, {}]; {}", r, limit, show())); }
        if !(r.start < r.end) { stats.fail(PROP, &format!("{}.range_empty_or_inverted", what), &format!("range {:?}; {}", r, show())); }
    }
    for w in ranges.windows(2) {
        if w[0].start > w[1].start { stats.fail(PROP, &format!("{}.ranges_unsorted", what), &format!("{:?} before {:?}; {}", w[0], w[1], show())); break; }
        if w[0].end > w[1].start { stats.fail(PROP, &format!("{}.ranges_overlap", what), &format!("{:?} and {:?}; {}", w[0], w[1], show())); break; }
    }
    // membership along the line
    let (flat, fine): (Vec<Poly>, Vec<Poly>) = if column { (sc.flat.iter().map(|q| q.iter().map(|p| Coord2(p.1, p.0)).collect()).collect(), sc.fine.iter().map(|q| q.iter().map(|p| Coord2(p.1, p.0)).collect()).collect()) } else { (sc.flat.clone(), sc.fine.clone()) };
    let xs = sample_xs(rng, &flat, pos, limit);
    let mut wrong = vec![];
    let mut evaluated = 0;
    for x in xs {
        let p = Coord2(x, pos);
        if dist_polys(p, &flat) <= EDGE_MARGIN + SLACK { stats.excluded += 1; stats.count("excluded.sample_within_0.05_of_edge"); continue; }
        let want = evenodd(p, &flat) && x >= 0.0 && x < limit;
        let want_fine = evenodd(p, &fine) && x >= 0.0 && x < limit;
        if want != want_fine || dist_polys(p, &fine) <= EDGE_MARGIN { stats.excluded += 1; stats.count("excluded.oracle_flattenings_disagree"); continue; }
        evaluated += 1;
        let got = in_ranges(&ranges, x);
        if got != want { wrong.push((x, got, want)); }
    }
    stats.add("samples_evaluated", evaluated);
    if !wrong.is_empty() {
        let key = if column { format!("column_membership.{}", pclass) } else { format!("scanline_membership.{}", pclass) };
        stats.fail(PROP, &key, &format!("{} of {} samples wrong, (x, in_ranges, inside_by_even_odd)={:?}; {}", wrong.len(), evaluated, &wrong[..wrong.len().min(4)], show()));
    }
    if column {
        // the same query on the transposed contour through intercepts_on_line
        if let Some(row) = run_caught(stats, PROP, "intercepts_on_line", &|| format!("transposed y={} {}", pos, detail()), || tcontour.intercepts_on_line(pos)) {
            let row: Vec<Range<f64>> = row.into_iter().collect();
            let mut diff = vec![];
            for x in sample_xs(rng, &flat, pos, limit) {
                if dist_polys(Coord2(x, pos), &flat) <= EDGE_MARGIN + SLACK { continue; }
                if in_ranges(&ranges, x) != in_ranges(&row, x) { diff.push(x); }
            }
            if !diff.is_empty() { stats.fail(PROP, &format!("column_vs_row.{}", pclass), &format!("intercepts_on_column({}) = {:?} but intercepts_on_line({}) of the transposed paths = {:?}; they differ at positions {:?}; {}", pos, ranges, pos, row, &diff[..diff.len().min(4)], show())); }
        }
    }
}

fn check_scene(stats: &mut Stats, rng: &mut Rng, paths: &Vec<P>, width: usize, height: usize, n_random: usize) {
    let sc = Scene { paths: paths.clone(), flat: flatten_set(paths), fine: flatten_set_fine(paths), width, height };
    let detail = || format!("paths={:?}", sc.paths);
    let contour = match run_caught(stats, PROP, "PathContour::from_path", &detail, || PathContour::from_path(paths.clone(), ContourSize(width, height))) { Some(c) => c, None => return };
    let tpaths: Vec<P> = paths.iter().map(transposed).collect();
    let tcontour = match run_caught(stats, PROP, "PathContour::from_path", &detail, || PathContour::from_path(tpaths.clone(), ContourSize(height, width))) { Some(c) => c, None => return };
    let verts: Vec<Coord2> = paths.iter().flat_map(|p| vertices(p)).collect();
    let cs: Vec<Vec<Cubic>> = paths.iter().map(cubics).collect();
    let tcs: Vec<Vec<Cubic>> = tpaths.iter().map(cubics).collect();
    let tangent_ys: Vec<f64> = cs.iter().flatten().flat_map(horizontal_tangent_ys).collect();
    let tangent_xs: Vec<f64> = tcs.iter().flatten().flat_map(horizontal_tangent_ys).collect();
    // rows: y of every vertex, of every horizontal tangent, integers, fractions; the class is derived from the geometry
    let mut rows: Vec<f64> = verts.iter().map(|v| v.1).collect();
    rows.extend(tangent_ys.iter().cloned());
    for _ in 0..n_random { rows.push(rng.i(height as u64 + 1) as f64); rows.push(rng.r(0.0, height as f64)); }
    for y in &rows { check_scan(stats, rng, &sc, &contour, &tcontour, *y, &classify(&cs, &tangent_ys, *y, "y", "horizontal"), false, &detail); }
    let mut cols: Vec<f64> = verts.iter().map(|v| v.0).collect();
    cols.extend(tangent_xs.iter().cloned());
    for _ in 0..n_random { cols.push(rng.i(width as u64 + 1) as f64); cols.push(rng.r(0.0, width as f64)); }
    for x in &cols { check_scan(stats, rng, &sc, &contour, &tcontour, *x, &classify(&tcs, &tangent_xs, *x, "x", "vertical"), true, &detail); }
    // contour_point_is_inside at integer positions: 10 anywhere, and up to 10 in the second or a later range of a row with several ranges
    let mut positions: Vec<(usize, usize)> = (0..10).map(|_| (rng.i(width as u64) as usize, rng.i(height as u64) as usize)).collect();
    for _ in 0..10 {
        let y = rng.i(height as u64) as usize;
        let ranges = contour.intercepts_on_line(y as f64);
        if ranges.len() >= 2 {
            let r = &ranges[1 + rng.i(ranges.len() as u64 - 1) as usize];
            let x = ((r.start + r.end) * 0.5).round();
            if x >= 0.0 && (x as usize) < width { positions.push((x as usize, y)); stats.count("point_is_inside_in_later_range"); }
        }
    }
    for (x, y) in positions {
        let p = Coord2(x as f64, y as f64);
        if dist_polys(p, &sc.fine) <= EDGE_MARGIN + SLACK { stats.excluded += 1; stats.count("excluded.sample_within_0.05_of_edge"); continue; }
        let want = evenodd(p, &sc.fine);
        if let Some(got) = run_caught(stats, PROP, "contour_point_is_inside", &detail, || contour_point_is_inside(&contour, ContourPosition(x, y))) {
            stats.count("point_is_inside_evaluated");
            if got != want { stats.fail(PROP, &format!("point_is_inside.{}", classify(&cs, &tangent_ys, y as f64, "y", "horizontal")), &format!("contour_point_is_inside({}, {}) = {} expected {} intercepts_on_line({}) = {:?} {}", x, y, got, want, y, contour.intercepts_on_line(y as f64), detail())); }
        }
    }
}

pub fn search(seed: u64, n: u64) {
    quiet_panics();
    let mut rng = Rng(seed ^ 0x5EA2C16);
    let mut stats = Stats::new();
    // fixed corpus: circles in both orientations of their vertices (scanlines exactly through vertices), at integer and
    // fractional centres; rectangles on integer and fractional coordinates; a set with a hole; a shape leaving the contour
    let corpus: Vec<(&str, Vec<P>, usize, usize)> = vec![
        ("circle", vec![circle(50.0, 50.0, 20.0)], 100, 100),
        ("circle45", vec![circle45(50.0, 50.0, 20.0)], 100, 100),
        ("circle fractional", vec![circle(40.3, 45.7, 17.9)], 100, 100),
        ("circle45 fractional", vec![circle45(40.3, 45.7, 17.9)], 100, 100),
        ("circle45 reversed", vec![reversed(&circle45(52.0, 48.0, 25.0))], 100, 100),
        ("circle other start", vec![rotate_start(&circle(52.0, 48.0, 25.0), 2)], 100, 100),
        ("rect integer", vec![rect(20.0, 30.0, 60.0, 70.0)], 100, 100),
        ("rect fractional", vec![rect(20.5, 30.25, 60.75, 70.5)], 100, 100),
        ("rect with circular hole", vec![rect(10.0, 10.0, 90.0, 90.0), circle45(50.0, 50.0, 20.0)], 100, 100),
        ("circle leaving the contour", vec![circle45(60.0, 50.0, 30.0)], 80, 100),
        ("two circles", vec![circle(30.0, 30.0, 12.0), circle45(70.0, 65.0, 15.0)], 100, 100),
    ];
    for (name, paths, w, h) in &corpus {
        stats.case(&format!("corpus {} {:?}", name, paths), true);
        stats.count("corpus_case");
        check_scene(&mut stats, &mut rng, paths, *w, *h, 10);
    }
    // a join at which the outline passes through the row while BOTH neighbouring curves reverse their y-direction along their length (one dips
    // before the join, the other arches after it): the two hits at the join are one crossing, decided by the y-tangents AT THE JOIN (own
    // stream; scanned exactly at the join's y, keyed on its own: on the unchanged code these rows are right)
    let mut rng_j = Rng(seed ^ 0x7013C16);
    for k in 0..(6 + n / 20) {
        let (sx, sy) = (rng_j.r(1.0, 2.4), rng_j.r(1.0, 3.5));
        let (ox, oy) = (rng_j.r(2.0, 10.0), rng_j.r(2.0, 20.0));
        let flip = k % 2 == 1;
        let q = |x: f64, y: f64| Coord2(ox + sx * x, if flip { oy + sy * (24.0 - y) } else { oy + sy * y });
        let path = flo_curves::bezier::path::BezierPathBuilder::<P>::start(q(4.0, 12.0))
            .curve_to((q(4.0, 4.0), q(10.0, 6.0)), q(10.0, 10.0))
            .curve_to((q(10.0, 14.0), q(16.0, 16.0)), q(16.0, 8.0))
            .line_to(q(20.0, 12.0))
            .curve_to((q(20.0, 4.0), q(26.0, 6.0)), q(26.0, 10.0))
            .curve_to((q(26.0, 14.0), q(32.0, 16.0)), q(32.0, 8.0))
            .line_to(q(36.0, 8.0)).line_to(q(36.0, 20.0)).line_to(q(0.0, 20.0)).line_to(q(0.0, 12.0)).line_to(q(4.0, 12.0)).build();
        let path = redirect(&mut rng_j, &path);
        let paths = vec![path];
        stats.case(&format!("crossing join between reversing curves {:?}", paths), true);
        stats.count("scene.crossing_join_between_reversing_curves");
        let sc = Scene { paths: paths.clone(), flat: flatten_set(&paths), fine: flatten_set_fine(&paths), width: 100, height: 100 };
        let detail = || format!("paths={:?}", sc.paths);
        let contour = match run_caught(&mut stats, PROP, "PathContour::from_path", &detail, || PathContour::from_path(paths.clone(), ContourSize(100, 100))) { Some(c) => c, None => continue };
        let tpaths: Vec<P> = paths.iter().map(transposed).collect();
        let tcontour = match run_caught(&mut stats, PROP, "PathContour::from_path", &detail, || PathContour::from_path(tpaths.clone(), ContourSize(100, 100))) { Some(c) => c, None => continue };
        let jy = q(10.0, 10.0).1;
        check_scan(&mut stats, &mut rng_j, &sc, &contour, &tcontour, jy, "crossing_join_between_reversing_curves", false, &detail);
        // the transposed scene, scanned as a column through the same joins
        let tsc = Scene { paths: tpaths.clone(), flat: flatten_set(&tpaths), fine: flatten_set_fine(&tpaths), width: 100, height: 100 };
        let tdetail = || format!("paths={:?}", tsc.paths);
        check_scan(&mut stats, &mut rng_j, &tsc, &tcontour, &contour, jy, "crossing_join_between_reversing_curves", true, &tdetail);
    }
    // the START vertex of a path as a join at which the boundary passes through the row: the two hits there come from the first and the last
    // curve of the table (own stream; convex polygons and smooth blobs whose start vertex is their leftmost or rightmost one, scanned exactly
    // at the start vertex's y; keyed on its own: on the unchanged code these rows are right)
    let mut rng_s = Rng(seed ^ 0x57A7C16);
    for k in 0..(6 + n / 20) {
        // integer coordinates: start vertex S leftmost (or rightmost), its two neighbours strictly above and strictly below its row
        let g = |rng: &mut Rng, lo: i64, hi: i64| (lo + rng.i((hi - lo + 1) as u64) as i64) as f64;
        let (sx, sy0) = (g(&mut rng_s, 5, 30), g(&mut rng_s, 30, 70));
        let up = Coord2(sx + g(&mut rng_s, 5, 25), sy0 - g(&mut rng_s, 5, 25));
        let down = Coord2(sx + g(&mut rng_s, 5, 25), sy0 + g(&mut rng_s, 5, 25));
        let far = Coord2(up.0.max(down.0) + g(&mut rng_s, 5, 30), sy0 + g(&mut rng_s, -4, 4));
        let mut pts = vec![Coord2(sx, sy0), up, far, down];
        if k % 2 == 1 { for q in pts.iter_mut() { q.0 = 100.0 - q.0; } }
        let path = if k % 4 < 2 { polygon(&pts) } else { let mut r = pts.clone(); r[1..].reverse(); polygon(&r) };
        // keep the start vertex: no rotation of the start
        let paths = vec![path];
        stats.case(&format!("start vertex crossing join {:?}", paths), true);
        stats.count("scene.start_vertex_crossing_join");
        let sc = Scene { paths: paths.clone(), flat: flatten_set(&paths), fine: flatten_set_fine(&paths), width: 100, height: 100 };
        let detail = || format!("paths={:?}", sc.paths);
        let contour = match run_caught(&mut stats, PROP, "PathContour::from_path", &detail, || PathContour::from_path(paths.clone(), ContourSize(100, 100))) { Some(c) => c, None => continue };
        let tpaths: Vec<P> = paths.iter().map(transposed).collect();
        let tcontour = match run_caught(&mut stats, PROP, "PathContour::from_path", &detail, || PathContour::from_path(tpaths.clone(), ContourSize(100, 100))) { Some(c) => c, None => continue };
        let sy = paths[0].0 .1;
        check_scan(&mut stats, &mut rng_s, &sc, &contour, &tcontour, sy, "start_vertex_crossing_join", false, &detail);
    }
    // two further joins scanned exactly (own stream, scaled / shifted / mirrored copies; keyed on their own - the unchanged code is right on
    // them): (a) a LENS of two curves whose two end points have exactly the same x, scanned as the column through them - each curve starts AND
    // ends on the column (from seeded change C16-m9); (b) a corner into which one curve comes down monotonically (its lowest point IS the
    // corner) while the next one leaves upwards and later dips below the corner's row, scanned at the corner's y, alone and with a mirrored
    // second corner at the same height (from seeded change C16-m10)
    let mut rng_m = Rng(seed ^ 0x307C16);
    for k in 0..(6 + n / 20) {
        let (sx, sy) = (rng_m.r(1.0, 2.2), rng_m.r(1.0, 2.2));
        let (ox, oy) = ((rng_m.r(2.0, 10.0) * 4.0).round() / 4.0, (rng_m.r(2.0, 10.0) * 4.0).round() / 4.0);
        let mirror = k % 2 == 1;
        let q = |x: f64, y: f64| Coord2(if mirror { ox + sx * (44.0 - x) } else { ox + sx * x }, oy + sy * y);
        let (path, pos, column, class): (P, f64, bool, &str) = match k % 3 {
            0 => (flo_curves::bezier::path::BezierPathBuilder::<P>::start(q(14.5, 6.25))
                    .curve_to((q(27.0, 9.0), q(24.0, 23.0)), q(14.5, 28.75))
                    .curve_to((q(3.0, 26.0), q(6.5, 11.0)), q(14.5, 6.25)).build(), q(14.5, 0.0).0, true, "lens_with_both_ends_on_the_column"),
            1 => (flo_curves::bezier::path::BezierPathBuilder::<P>::start(q(4.5, 26.5))
                    .curve_to((q(6.0, 22.0), q(8.0, 16.0)), q(10.25, 12.5))
                    .curve_to((q(12.0, 20.0), q(17.0, 2.0)), q(22.0, 9.75))
                    .line_to(q(29.5, 24.25)).line_to(q(27.0, 30.5)).line_to(q(4.5, 26.5)).build(), q(0.0, 12.5).1, false, "corner_lowest_point_of_one_neighbour"),
            _ => (flo_curves::bezier::path::BezierPathBuilder::<P>::start(q(4.5, 26.5))
                    .curve_to((q(6.0, 22.0), q(8.0, 16.0)), q(10.25, 12.5))
                    .curve_to((q(12.0, 20.0), q(17.0, 2.0)), q(22.0, 9.75))
                    .curve_to((q(26.5, 2.5), q(31.0, 19.0)), q(33.75, 12.5))
                    .curve_to((q(35.5, 15.0), q(38.0, 21.0)), q(39.25, 27.5))
                    .line_to(q(22.0, 31.0)).line_to(q(4.5, 26.5)).build(), q(0.0, 12.5).1, false, "two_corners_lowest_point_of_one_neighbour"),
        };
        let path = if k % 4 < 2 { path } else { reversed(&path) };
        let paths = vec![path];
        stats.case(&format!("{} {:?}", class, paths), true);
        stats.count(&format!("scene.{}", class));
        let sc = Scene { paths: paths.clone(), flat: flatten_set(&paths), fine: flatten_set_fine(&paths), width: 120, height: 100 };
        let detail = || format!("paths={:?}", sc.paths);
        let contour = match run_caught(&mut stats, PROP, "PathContour::from_path", &detail, || PathContour::from_path(paths.clone(), ContourSize(120, 100))) { Some(c) => c, None => continue };
        let tpaths: Vec<P> = paths.iter().map(transposed).collect();
        let tcontour = match run_caught(&mut stats, PROP, "PathContour::from_path", &detail, || PathContour::from_path(tpaths.clone(), ContourSize(100, 120))) { Some(c) => c, None => continue };
        check_scan(&mut stats, &mut rng_m, &sc, &contour, &tcontour, pos, class, column, &detail);
    }
    for _ in 0..n {
        // path sets as in C01 (one operand, or both operands side by side when they do not overlap is not required: one set)
        let pair = gen_pair(&mut rng);
        let (paths, kind) = if rng.b() { (pair.a, pair.kind_a) } else { (pair.b, pair.kind_b) };
        let paths = with_teardrop(&mut rng, paths, &mut stats);
        let (w, h) = [(100, 100), (100, 100), (80, 100), (100, 64), (128, 128)][rng.i(5) as usize];
        stats.count(&format!("kind.{}", kind));
        stats.count(&format!("size.{}x{}", w, h));
        if paths.len() > 1 { stats.count("has_several_subpaths"); }
        stats.case(&format!("{} {}x{} {:?}", kind, w, h, paths), true);
        check_scene(&mut stats, &mut rng, &paths, w, h, 6);
    }
    stats.print(PROP, "search");
}


// ------------------------------------------------------------------------------------------------ correspondence

/// `PathContour::curves` as `from_path` builds it, through the public functions it calls: per curve the x control values,
/// the y control values and the bounding box (min x, min y, max x, max y)
fn curve_table(paths: &Vec<P>) -> Vec<([f64; 4], [f64; 4], [f64; 4])> {
    use flo_curves::bezier::path::BezierPath;
    paths.iter()
        .flat_map(|path| path.to_curves::<bezier::Curve<Coord2>>())
        .filter(|curve| !bezier::curve_is_tiny(curve))
        .map(|curve| {
            let Bounds(min, max) = curve.bounding_box::<Bounds<Coord2>>();
            let (sp, (cp1, cp2), ep) = curve.all_points();
            ([sp.0, cp1.0, cp2.0, ep.0], [sp.1, cp1.1, cp2.1, ep.1], [min.0, min.1, max.0, max.1])
        })
        .collect()
}

fn ranges_out(r: &[Range<f64>]) -> String {
    let mut s = format!("#{}", r.len());
    for q in r { s.push_str(&format!(" {} {}", hx(q.start), hx(q.end))); }
    s
}

/// one row / column query: the curve table, the real solver's roots for every curve, the real ranges
fn corr_scan(stats: &mut Stats, paths: &Vec<P>, width: usize, height: usize, pos: f64, column: bool, class: &str) {
    use flo_curves::bezier::solve_basis_for_t;
    let table = curve_table(paths);
    let contour = PathContour::from_path(paths.clone(), ContourSize(width, height));
    let got: Option<Vec<Range<f64>>> = std::panic::catch_unwind(std::panic::AssertUnwindSafe(|| if column { contour.intercepts_on_column(pos).into_iter().collect() } else { contour.intercepts_on_line(pos).into_iter().collect() })).ok();
    let got = match got { Some(g) => g, None => { stats.count("skipped.panic"); return; } };
    let mut line = format!("C16 {} R {} #{} #{}", if column { "col" } else { "row" }, hx(pos), if column { height } else { width }, table.len());
    let mut hits = 0;
    for (cx, cy, bb) in &table {
        let w = if column { cx } else { cy };
        let roots = solve_basis_for_t(w[0], w[1], w[2], w[3], pos);
        hits += roots.len();
        line.push_str(&format!(" {} {} {} #{}", hxs(cx), hxs(cy), hxs(bb), roots.len()));
        for r in &roots { line.push_str(&format!(" {}", hx(*r))); }
    }
    line.push_str(&format!(" | {}", ranges_out(&got)));
    stats.case(&line, hits > 0);
    stats.count(&format!("{}.{}", if column { "col" } else { "row" }, class));
    stats.count(&format!("{}.ranges_{}", if column { "col" } else { "row" }, got.len().min(4)));
    if paths.len() > 1 { stats.count("scene.several_subpaths"); }
    println!("{}", line);
}

/// a closed sub-path made of ONE cubic whose start and end coincide (a teardrop / loop): not "tiny", although its end points are the same
fn teardrop(rng: &mut Rng) -> P {
    let tip = Coord2(rng.r(20.0, 80.0), rng.r(20.0, 80.0));
    let a = rng.r(0.0, std::f64::consts::TAU);
    let (r, spread) = (rng.r(15.0, 45.0), rng.r(0.4, 1.1));
    let c1 = tip + Coord2((a - spread).cos(), (a - spread).sin()) * r;
    let c2 = tip + Coord2((a + spread).cos(), (a + spread).sin()) * r;
    if rng.b() { (tip, vec![(c1, c2, tip)]) } else { (tip, vec![(c2, c1, tip)]) }
}

/// with probability 1/5 the scene gets a teardrop: alone, as an extra sub-path, or (inside a big rectangle) as a hole
fn with_teardrop(rng: &mut Rng, paths: Vec<P>, stats: &mut Stats) -> Vec<P> {
    if rng.i(5) != 0 { return paths; }
    stats.count("scene.with_teardrop");
    match rng.i(3) { 0 => vec![teardrop(rng)], 1 => { let mut p = paths; p.push(teardrop(rng)); p }, _ => vec![rect(5.0, 5.0, 95.0, 95.0), teardrop(rng)] }
}

/// straight-edged diamond (vertices on the axes through the centre), started at its left vertex
fn diamond(cx: f64, cy: f64, r: f64) -> P { polygon(&[Coord2(cx - r, cy), Coord2(cx, cy + r), Coord2(cx + r, cy), Coord2(cx, cy - r)]) }

fn corr_clip(stats: &mut Stats, rng: &mut Rng) {
    let width = [1usize, 2, 7, 64, 100, 1000][rng.i(6) as usize];
    let w = width as f64;
    let kind = ["ascending_disjoint", "ascending_disjoint", "ascending_disjoint", "on_the_limits", "unordered_overlapping", "special_values"][rng.i(6) as usize];
    let n = rng.i(7) as usize;
    let mut ranges: Vec<Range<f64>> = vec![];
    match kind {
        "ascending_disjoint" => {
            // as a PathContour produces them: pairs of an ascending list, reaching beyond both limits
            let mut xs: Vec<f64> = (0..2 * n).map(|_| if rng.i(4) == 0 { rng.i(width as u64 + 3) as f64 - 1.0 } else { rng.r(-0.3 * w, 1.3 * w) }).collect();
            xs.sort_by(|a, b| a.total_cmp(b));
            for k in 0..n { ranges.push(xs[2 * k]..xs[2 * k + 1]); }
        }
        "on_the_limits" => {
            let pick = |rng: &mut Rng| [0.0, -0.0, w, -1.0, w + 1.0, 0.5, w - 0.5, f64::MIN_POSITIVE, -f64::MIN_POSITIVE, w * (1.0 - f64::EPSILON / 2.0), w * (1.0 + f64::EPSILON)][rng.i(11) as usize];
            for _ in 0..n { let (a, b) = (pick(rng), pick(rng)); ranges.push(a..b); }
        }
        "unordered_overlapping" => { for _ in 0..n { let (a, b) = (rng.r(-0.3 * w, 1.3 * w), rng.r(-0.3 * w, 1.3 * w)); ranges.push(a..b); } }
        _ => {
            let pick = |rng: &mut Rng| [f64::NAN, f64::INFINITY, f64::NEG_INFINITY, 0.0, -0.0, w, 1e300, -1e300, 1e-300][rng.i(9) as usize];
            for _ in 0..n { let (a, b) = (pick(rng), pick(rng)); ranges.push(a..b); }
        }
    }
    let y = if rng.b() { rng.i(100) as f64 } else { rng.r(-10.0, 110.0) };
    let scale = [1.0, 1.0, 0.5, 2.0, 0.1, 3.7][rng.i(6) as usize];
    let seen = std::cell::Cell::new(f64::NAN);
    let given = ranges.clone();
    let contour = RayCastContour::new(|yy: f64| { seen.set(yy); given.iter().cloned().collect::<smallvec::SmallVec<[Range<f64>; 4]>>() }, ContourSize(width, 1)).with_scale(scale);
    let got: Vec<Range<f64>> = contour.intercepts_on_line(y).into_iter().collect();
    let mut line = format!("C16 clip R {} {} #{} #{}", hx(y), hx(scale), width, ranges.len());
    for q in &ranges { line.push_str(&format!(" {} {}", hx(q.start), hx(q.end))); }
    line.push_str(&format!(" | {} {}", hx(seen.get()), ranges_out(&got)));
    stats.case(&line, !ranges.is_empty());
    stats.count(&format!("clip.{}", kind));
    stats.count(&format!("clip.out_{}", got.len().min(4)));
    println!("{}", line);
}

/// `solve_basis_for_t` against the generated definition, the external root finders (crate `roots`) being an input: the
/// harness computes the coefficients as solve.rs does, calls both finders and records their answers
fn corr_solve(stats: &mut Stats, rng: &mut Rng) {
    use roots::{find_roots_cubic, find_roots_quadratic, Roots};
    let kind = ["random", "random", "monotone", "line", "end_on_p", "start_on_p", "both_ends_on_p", "near_quadratic", "flat"][rng.i(9) as usize];
    let g = |rng: &mut Rng| if rng.b() { rng.dyadic(0, 100, 8) } else { rng.r(0.0, 100.0) };
    let (mut w1, mut w2, mut w3, mut w4) = (g(rng), g(rng), g(rng), g(rng));
    let mut p = g(rng);
    match kind {
        "monotone" => { let mut v = [w1, w2, w3, w4]; v.sort_by(|a, b| a.total_cmp(b)); w1 = v[0]; w2 = v[1]; w3 = v[2]; w4 = v[3]; p = rng.r(w1, w4); }
        "line" => { w2 = w1 + (w4 - w1) * 0.33; w3 = w1 + (w4 - w1) * 0.66; p = rng.r(w1.min(w4), w1.max(w4)); }
        "end_on_p" => { p = w4; }
        "start_on_p" => { p = w1; }
        "both_ends_on_p" => { w4 = w1; p = w1; }
        "near_quadratic" => { let e = 10f64.powf(rng.r(-10.0, -6.0)) * if rng.b() { 1.0 } else { -1.0 }; w4 = w1 + 3.0 * (w2 - w1) + (3.0 * (w3 - w2) - 3.0 * (w2 - w1)) + e; }
        "flat" => { w2 = w1; w3 = w1; w4 = w1; if rng.b() { p = w1; } }
        _ => {}
    }
    let d = w1 - p;
    let c = 3.0 * (w2 - w1);
    let b = 3.0 * (w3 - w2) - c;
    let a = w4 - w1 - c - b;
    let list = |r: Roots<f64>| -> Vec<f64> { match r { Roots::No(_) => vec![], Roots::One(v) => v.to_vec(), Roots::Two(v) => v.to_vec(), Roots::Three(v) => v.to_vec(), Roots::Four(v) => v.to_vec() } };
    let rq = list(find_roots_quadratic(b, c, d));
    let rc = list(find_roots_cubic(a, b, c, d));
    let got = flo_curves::bezier::solve_basis_for_t(w1, w2, w3, w4, p);
    let mut line = format!("C16 solve R {} {} {} {} {} {} {} {} {} #{}", hx(w1), hx(w2), hx(w3), hx(w4), hx(p), hx(a), hx(b), hx(c), hx(d), rq.len());
    for r in &rq { line.push_str(&format!(" {}", hx(*r))); }
    line.push_str(&format!(" #{}", rc.len()));
    for r in &rc { line.push_str(&format!(" {}", hx(*r))); }
    line.push_str(&format!(" | #{}", got.len()));
    for r in got.iter() { line.push_str(&format!(" {}", hx(*r))); }
    stats.case(&line, !got.is_empty());
    stats.count(&format!("solve.{}", kind));
    stats.count(&format!("solve.roots_{}", got.len()));
    println!("{}", line);
}

pub fn corr(seed: u64, n: u64) {
    quiet_panics();
    let mut rng = Rng(seed ^ 0xC0221C16);
    let mut stats = Stats::new();
    // fixed scenes: the witnesses of the theorems (two sub-paths scanned through their start vertices, a column through a
    // vertex that is an extremum in x) and the corpus of the search
    let fixed: Vec<(Vec<P>, usize, usize, Vec<f64>, Vec<f64>)> = vec![
        (vec![diamond(10.0, 10.0, 10.0)], 100, 100, vec![10.0, 5.0, 0.0, 20.0], vec![10.0, 0.0, 20.0, 3.0]),
        (vec![diamond(10.0, 10.0, 10.0), diamond(40.0, 10.0, 10.0)], 100, 100, vec![10.0, 5.0, 0.0, 20.0], vec![10.0, 40.0, 0.0, 30.0]),
        (vec![diamond(10.0, 10.0, 10.0), diamond(10.0, 40.0, 15.0)], 100, 100, vec![10.0, 40.0, 25.0], vec![0.0, 10.0, 20.0, -5.0, 25.0]),
        (vec![circle(50.0, 50.0, 20.0)], 100, 100, vec![50.0, 30.0, 70.0], vec![50.0, 30.0, 70.0]),
        (vec![circle45(50.0, 50.0, 20.0)], 100, 100, vec![50.0, 30.0, 70.0], vec![50.0, 30.0, 70.0]),
        (vec![rect(20.0, 30.0, 60.0, 70.0)], 100, 100, vec![30.0, 70.0, 50.0], vec![20.0, 60.0, 40.0]),
        (vec![rect(10.0, 10.0, 90.0, 90.0), circle45(50.0, 50.0, 20.0)], 100, 100, vec![50.0, 10.0, 30.0], vec![50.0, 10.0, 30.0]),
        (vec![circle45(60.0, 50.0, 30.0)], 80, 100, vec![50.0, 20.0, 80.0], vec![60.0, 30.0, 79.5]),
    ];
    for (paths, w, h, rows, cols) in &fixed {
        stats.count("scene.fixed");
        let verts: Vec<Coord2> = paths.iter().flat_map(|p| vertices(p)).collect();
        for y in rows.iter().cloned().chain(verts.iter().map(|v| v.1)) { corr_scan(&mut stats, paths, *w, *h, y, false, "fixed"); }
        for x in cols.iter().cloned().chain(verts.iter().map(|v| v.0)) { corr_scan(&mut stats, paths, *w, *h, x, true, "fixed"); }
    }
    for it in 0..n {
        match it % 4 {
            0 => corr_clip(&mut stats, &mut rng),
            1 => corr_solve(&mut stats, &mut rng),
            _ => {
                let pair = gen_pair(&mut rng);
                let (mut paths, kind) = if rng.b() { (pair.a, pair.kind_a) } else { (pair.b, pair.kind_b) };
                if rng.i(3) == 0 { let other = gen_pair(&mut rng); paths.extend(other.a); }
                let paths = with_teardrop(&mut rng, paths, &mut stats);
                let (w, h) = [(100, 100), (80, 100), (100, 64), (128, 128)][rng.i(4) as usize];
                stats.count(&format!("scene.kind.{}", kind));
                let cs: Vec<Vec<Cubic>> = paths.iter().map(cubics).collect();
                let tcs: Vec<Vec<Cubic>> = paths.iter().map(|p| cubics(&transposed(p))).collect();
                let tangent_ys: Vec<f64> = cs.iter().flatten().flat_map(horizontal_tangent_ys).collect();
                let tangent_xs: Vec<f64> = tcs.iter().flatten().flat_map(horizontal_tangent_ys).collect();
                let verts: Vec<Coord2> = paths.iter().flat_map(|p| vertices(p)).collect();
                let column = it % 4 == 3;
                let (vs, ts, limit): (Vec<f64>, &Vec<f64>, usize) = if column { (verts.iter().map(|v| v.0).collect(), &tangent_xs, w) } else { (verts.iter().map(|v| v.1).collect(), &tangent_ys, h) };
                let pos = match rng.i(6) {
                    0 if !vs.is_empty() => vs[rng.i(vs.len() as u64) as usize],
                    1 if !ts.is_empty() => ts[rng.i(ts.len() as u64) as usize],
                    2 if !vs.is_empty() => { let v = vs[rng.i(vs.len() as u64) as usize]; f64::from_bits(v.to_bits() + 1 - 2 * rng.i(2)) }
                    3 => rng.i(limit as u64 + 1) as f64,
                    4 if !vs.is_empty() => { let (lo, hi) = vs.iter().fold((f64::MAX, f64::MIN), |(lo, hi), v| (lo.min(*v), hi.max(*v))); rng.r(lo - 1.0, hi + 1.0) }
                    _ => rng.r(0.0, limit as f64),
                };
                let class = if column { classify(&tcs, &tangent_xs, pos, "x", "vertical") } else { classify(&cs, &tangent_ys, pos, "y", "horizontal") };
                corr_scan(&mut stats, &paths, w, h, pos, column, &class);
            }
        }
    }
    stats.print(PROP, "corr");
}
