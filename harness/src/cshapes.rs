//! Shared by C08/C09/C10/C15/C19/C20: cubic curves as four points with an evaluation that does not go through the
//! library, curve classes for the generators, and brute-force geometric oracles (dense scan + golden section).
use crate::util::*;
use flo_curves::bezier::*;

pub type Cub = [Coord2; 4];

pub fn lib_curve(w: &Cub) -> Curve<Coord2> { Curve::from_points(w[0], (w[1], w[2]), w[3]) }
pub fn cub_of(c: &Curve<Coord2>) -> Cub { let (a, b) = c.control_points(); [c.start_point(), a, b, c.end_point()] }
pub fn finite2(p: Coord2) -> bool { p.0.is_finite() && p.1.is_finite() }
pub fn finite_cub(w: &Cub) -> bool { w.iter().all(|p| finite2(*p)) }
pub fn dist(a: Coord2, b: Coord2) -> f64 { ((a.0 - b.0) * (a.0 - b.0) + (a.1 - b.1) * (a.1 - b.1)).sqrt() }
pub fn biteq(a: Coord2, b: Coord2) -> bool { a.0.to_bits() == b.0.to_bits() && a.1.to_bits() == b.1.to_bits() }

/// Bernstein evaluation (end points are reproduced exactly at t = 0 and t = 1)
pub fn eval(w: &Cub, t: f64) -> Coord2 {
    let s = 1.0 - t;
    let (b0, b1, b2, b3) = (s * s * s, 3.0 * s * s * t, 3.0 * s * t * t, t * t * t);
    Coord2(b0 * w[0].0 + b1 * w[1].0 + b2 * w[2].0 + b3 * w[3].0, b0 * w[0].1 + b1 * w[1].1 + b2 * w[2].1 + b3 * w[3].1)
}
pub fn deriv(w: &Cub, t: f64) -> Coord2 {
    let s = 1.0 - t;
    let d = [(w[1] - w[0]) * 3.0, (w[2] - w[1]) * 3.0, (w[3] - w[2]) * 3.0];
    d[0] * (s * s) + d[1] * (2.0 * s * t) + d[2] * (t * t)
}
pub fn deriv2(w: &Cub, t: f64) -> Coord2 {
    let d = [(w[1] - w[0]) * 3.0, (w[2] - w[1]) * 3.0, (w[3] - w[2]) * 3.0];
    ((d[1] - d[0]) * (1.0 - t) + (d[2] - d[1]) * t) * 2.0
}
pub fn chord(w: &Cub) -> f64 { dist(w[0], w[3]) }
pub fn polygon(w: &Cub) -> f64 { dist(w[0], w[1]) + dist(w[1], w[2]) + dist(w[2], w[3]) }
pub fn polyline_length(w: &Cub, segments: usize) -> f64 {
    let mut len = 0.0; let mut last = eval(w, 0.0);
    for k in 1..=segments { let p = eval(w, k as f64 / segments as f64); len += dist(last, p); last = p; }
    len
}
/// (min speed, max curvature, number of sign changes of the curvature) on a grid of `n` steps
pub fn regularity(w: &Cub, n: usize) -> (f64, f64, usize) {
    let (mut smin, mut kmax, mut changes) = (f64::MAX, 0.0f64, 0usize);
    let mut last_sign = 0.0;
    for k in 0..=n {
        let t = k as f64 / n as f64;
        let (v, a) = (deriv(w, t), deriv2(w, t));
        let s = (v.0 * v.0 + v.1 * v.1).sqrt();
        smin = smin.min(s);
        let cross = v.0 * a.1 - v.1 * a.0;
        if s > 1e-9 { kmax = kmax.max(cross.abs() / (s * s * s)); }
        let scale = s * (a.0 * a.0 + a.1 * a.1).sqrt();
        if cross.abs() > 1e-9 * scale.max(1e-300) {
            if last_sign != 0.0 && cross.signum() != last_sign { changes += 1; }
            last_sign = cross.signum();
        }
    }
    (smin, kmax, changes)
}

pub fn dist_seg(p: Coord2, a: Coord2, b: Coord2) -> f64 {
    let ab = b - a; let l2 = ab.0 * ab.0 + ab.1 * ab.1;
    if l2 == 0.0 { return dist(p, a); }
    let t = (((p.0 - a.0) * ab.0 + (p.1 - a.1) * ab.1) / l2).max(0.0).min(1.0);
    dist(p, a + ab * t)
}
pub fn dist_polyline(p: Coord2, poly: &[Coord2]) -> f64 {
    if poly.len() == 1 { return dist(p, poly[0]); }
    poly.windows(2).fold(f64::MAX, |m, w| m.min(dist_seg(p, w[0], w[1])))
}

/// golden-section minimisation of |f(t) - q| on [lo, hi]
pub fn golden<F: Fn(f64) -> Coord2>(f: &F, q: Coord2, lo: f64, hi: f64) -> (f64, f64) {
    let g = 0.6180339887498949;
    let (mut a, mut b) = (lo, hi);
    let (mut x1, mut x2) = (b - g * (b - a), a + g * (b - a));
    let (mut f1, mut f2) = (dist(f(x1), q), dist(f(x2), q));
    for _ in 0..60 {
        if f1 < f2 { b = x2; x2 = x1; f2 = f1; x1 = b - g * (b - a); f1 = dist(f(x1), q); }
        else { a = x1; x1 = x2; f1 = f2; x2 = a + g * (b - a); f2 = dist(f(x2), q); }
    }
    let mut best = (x1, f1);
    for t in [x2, lo, hi] { let d = dist(f(t), q); if d < best.1 { best = (t, d); } }
    best
}

/// brute-force nearest parameter: scan a grid of `n` steps, then refine every local minimum of the grid that is
/// within one grid chord of the best one. The returned distance is attained at the returned parameter.
pub fn nearest_brute<F: Fn(f64) -> Coord2>(f: &F, q: Coord2, n: usize) -> (f64, f64) {
    let pts: Vec<Coord2> = (0..=n).map(|k| f(k as f64 / n as f64)).collect();
    let ds: Vec<f64> = pts.iter().map(|p| dist(*p, q)).collect();
    let mut kb = 0;
    for k in 0..=n { if ds[k] < ds[kb] { kb = k; } }
    let mut step: f64 = 0.0;
    for k in 0..n { step = step.max(dist(pts[k], pts[k + 1])); }
    let mut best = (kb as f64 / n as f64, ds[kb]);
    let mut refined = 0;
    for k in 0..=n {
        let (l, r) = (if k > 0 { ds[k - 1] } else { f64::MAX }, if k < n { ds[k + 1] } else { f64::MAX });
        if ds[k] <= l && ds[k] <= r && ds[k] <= ds[kb] + step && refined < 64 {
            refined += 1;
            let (lo, hi) = ((k as f64 - 1.0).max(0.0) / n as f64, (k as f64 + 1.0).min(n as f64) / n as f64);
            let (t, d) = golden(f, q, lo, hi);
            if d < best.1 { best = (t, d); }
        }
    }
    best
}
pub fn nearest_on_cub(w: &Cub, q: Coord2, n: usize) -> (f64, f64) { nearest_brute(&|t| eval(w, t), q, n) }

pub fn fmt_cub(w: &Cub) -> String { format!("[{:?},{:?},{:?},{:?}]", w[0], w[1], w[2], w[3]) }

pub const CURVE_CLASSES: [&str; 19] = [
    "arch", "s_curve", "loop", "cusp", "near_line", "straight_line", "line_overshoot", "point",
    "cp1_at_start", "cp2_at_end", "both_cps_at_ends", "cps_coincident", "three_coincident_control_points", "last_three_control_points_coincident", "closed", "two_inflections", "near_cusp", "hairpin", "random",
];

fn rot(u: Coord2) -> Coord2 { Coord2(-u.1, u.0) }
fn in_box(w: &Cub) -> bool { w.iter().all(|p| p.0 >= 0.0 && p.0 <= 100.0 && p.1 >= 0.0 && p.1 <= 100.0) }

/// a cubic of the named class with all control points in the 100-unit box
pub fn gen_class(rng: &mut Rng, class: &str) -> Cub {
    for _ in 0..200 {
        let w = gen_class_once(rng, class);
        if in_box(&w) { return w; }
    }
    // could not place it in the box: shrink about the centre of the box
    let w = gen_class_once(rng, class);
    let m = w.iter().fold(1.0f64, |m, p| m.max((p.0 - 50.0).abs() / 50.0).max((p.1 - 50.0).abs() / 50.0));
    [0, 1, 2, 3].map(|k| Coord2(50.0 + (w[k].0 - 50.0) / m, 50.0 + (w[k].1 - 50.0) / m))
}

fn gen_class_once(rng: &mut Rng, class: &str) -> Cub {
    let g = |rng: &mut Rng| Coord2(rng.r(0.0, 100.0), rng.r(0.0, 100.0));
    let (p0, p3) = (g(rng), g(rng));
    let d = p3 - p0;
    let n = rot(d);
    match class {
        "arch" => { let h = rng.r(0.1, 0.6) * if rng.b() { 1.0 } else { -1.0 }; let (a, b) = (rng.r(0.15, 0.45), rng.r(0.55, 0.85)); [p0, p0 + d * a + n * h, p0 + d * b + n * h, p3] }
        "s_curve" => { let h = rng.r(0.1, 0.6) * if rng.b() { 1.0 } else { -1.0 }; let k = rng.r(0.5, 1.0); [p0, p0 + d * 0.3 + n * h, p0 + d * 0.7 - n * (h * k), p3] }
        "loop" => { let q = p0 + (g(rng) - p0) * 0.2; let e = q - p0; let m = rot(e) * rng.r(1.0, 3.0) * if rng.b() { 1.0 } else { -1.0 }; [p0, p0 + e * rng.r(1.5, 3.0) + m, p0 - e * rng.r(0.5, 2.0) + m, q] }
        "cusp" => { let u = (g(rng) - p0) * rng.r(0.1, 0.5); let v = rot(u) * if rng.b() { 1.0 } else { -1.0 }; [p0, p0 + u + v, p0 + v, p0 + u] }
        "near_cusp" => { let u = (g(rng) - p0) * rng.r(0.1, 0.5); let v = rot(u) * if rng.b() { 1.0 } else { -1.0 }; let e = 10f64.powf(rng.r(-3.0, -0.5)); let j = |rng: &mut Rng| (u * rng.r(-1.0, 1.0) + v * rng.r(-1.0, 1.0)) * e; [p0, p0 + u + v + j(rng), p0 + v + j(rng), p0 + u] }
        "hairpin" => { let e = 10f64.powf(rng.r(-3.0, -1.0)); [p0, p0 + d * rng.r(1.0, 1.6) + n * (e * rng.r(-1.0, 1.0)), p0 + d * rng.r(-0.6, 0.0) + n * (e * rng.r(-1.0, 1.0)), p3] }
        "near_line" => { let e = 10f64.powf(rng.r(-5.0, -1.0)); [p0, p0 + d * rng.r(0.2, 0.45) + n * (e * rng.r(-1.0, 1.0)), p0 + d * rng.r(0.55, 0.8) + n * (e * rng.r(-1.0, 1.0)), p3] }
        "straight_line" => { let (a, b) = (rng.f(), rng.f()); [p0, p0 + d * a.min(b), p0 + d * a.max(b), p3] }
        "line_overshoot" => [p0, p0 + d * rng.r(1.0, 1.6), p0 + d * rng.r(-0.6, 0.0), p3],
        "point" => [p0, p0, p0, p0],
        "cp1_at_start" => [p0, p0, g(rng), p3],
        "cp2_at_end" => [p0, g(rng), p3, p3],
        "both_cps_at_ends" => [p0, p0, p3, p3],
        "cps_coincident" => { let c = g(rng); [p0, c, c, p3] }
        "three_coincident_control_points" => [p0, p0, p0, p3],
        "last_three_control_points_coincident" => [p0, p3, p3, p3],
        "closed" => [p0, g(rng), g(rng), p0],
        "two_inflections" => {
            // the shape of the library's own double-inflection example (56,162),(238,232),(108,233),(329,129), in a random frame
            let base = [Coord2(56.0, 162.0), Coord2(238.0, 232.0), Coord2(108.0, 233.0), Coord2(329.0, 129.0)];
            let (o, s, a) = (g(rng), rng.r(0.1, 0.3), rng.r(0.0, std::f64::consts::TAU));
            let jitter = |rng: &mut Rng| Coord2(rng.r(-4.0, 4.0), rng.r(-4.0, 4.0));
            let j = [jitter(rng), jitter(rng), jitter(rng), jitter(rng)];
            let flip = if rng.b() { 1.0 } else { -1.0 };
            [0, 1, 2, 3].map(|k| { let v = base[k] + j[k] - base[0]; let v = Coord2(v.0, v.1 * flip); o + Coord2(v.0 * a.cos() - v.1 * a.sin(), v.0 * a.sin() + v.1 * a.cos()) * s })
        }
        _ => [p0, g(rng), g(rng), p3],
    }
}
