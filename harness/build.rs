//! Detects which cfg-gated verification hooks the flo_curves source this harness is built against provides
//! (hooks are delivered as patches: the harness must build with and without them).
use std::path::Path;

fn main() {
    println!("cargo:rustc-check-cfg=cfg(has_collide_hook)");
    println!("cargo:rerun-if-changed=Cargo.toml");
    let manifest = std::fs::read_to_string("Cargo.toml").unwrap_or_default();
    // flo_curves = { path = "..." }
    let repo = manifest.lines()
        .find(|l| l.trim_start().starts_with("flo_curves"))
        .and_then(|l| l.split("path").nth(1))
        .and_then(|rest| rest.split('"').nth(1))
        .unwrap_or("/repo")
        .to_string();
    let file = Path::new(&repo).join("src/bezier/path/graph_path/path_collision.rs");
    println!("cargo:rerun-if-changed={}", file.display());
    let text = std::fs::read_to_string(&file).unwrap_or_default();
    if text.contains("pub mod verif_collide_trace") {
        println!("cargo:rustc-cfg=has_collide_hook");
    }
}
